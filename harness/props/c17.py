"""C17 -- Beam moments and Twiss parameters are mutually consistent."""
import json
import math

import torch

import common
from common import coq_list, dyadic

PID = "C17"
DT = torch.float64
TINY = float(torch.finfo(torch.float64).tiny)
PRE = """From Coq Require Import Reals List Lra.
From Interval Require Import Tactic.
From Cheetah Require Import Beam.Twiss Beam.WStats Beam.TwCorr.
Import ListNotations. Open Scope R_scope."""
F19_NOTE = ("degenerate (clamped, D <= tiny) beams: beta*gamma - alpha^2 = D/tiny != 1 -- limit of the statement (F19), scoped by "
            "hypothesis in C17_twiss_identity, proved in C17_twiss_identity_clamped_refuted; generators avoid them")


def T(x):
    return torch.tensor(x, dtype=DT)


# ---------------------------------------------------------------- generators
def gen_block(rng):
    """a non-degenerate 2x2 covariance block (s11, s12, s22) with condition s11*s22/D <= ~1e3"""
    s1 = rng.choice([1e-6, 1e-5, 1.75e-7, 1e-4, 3e-3]) * rng.uniform(0.5, 2.0)
    s2 = rng.choice([1e-6, 2e-7, 1e-5, 1e-4]) * rng.uniform(0.5, 2.0)
    r = rng.choice([0.0, 0.0, 0.3, -0.5, 0.9, -0.95, 0.99]) * (1.0 if rng.random() < 0.5 else rng.uniform(0.2, 1.0))
    return s1 * s1, r * s1 * s2, s2 * s2


def gen_param_beam(rng, batch=None):
    import cheetah

    def one():
        cov = [[0.0] * 7 for _ in range(7)]
        bx, by, bt = gen_block(rng), gen_block(rng), gen_block(rng)
        for o, b in ((0, bx), (2, by), (4, bt)):
            cov[o][o], cov[o][o + 1], cov[o + 1][o], cov[o + 1][o + 1] = b[0], b[1], b[1], b[2]
        # harmless cross-plane coupling (must not enter the x / y Twiss getters)
        c = rng.choice([0.0, 0.1]) * math.sqrt(cov[0][0] * cov[2][2])
        cov[0][2] = cov[2][0] = c
        mu = [rng.uniform(-1e-3, 1e-3) for _ in range(6)] + [1.0]
        return mu, cov
    E = rng.choice([5e6, 1e8, 6e9])
    if batch:
        items = [one() for _ in range(batch)]
        mu, cov = [m for m, _ in items], [c for _, c in items]
    else:
        mu, cov = one()
    return cheetah.ParameterBeam(T(mu), T(cov), T(E), total_charge=T(1e-12), dtype=DT), E


def gen_particles(rng):
    n = rng.choice([3, 4, 5, 6])
    sxs, sps = rng.choice([1e-4, 1e-3]), rng.choice([1e-5, 1e-4, 1e-3])
    c = rng.choice([0.0, 0.5, -2.0])
    ps = []
    for _ in range(n):
        x = round(rng.uniform(-sxs, sxs), 8) + rng.choice([0.0, 1e-3])
        px = round(rng.uniform(-sps, sps) + c * x * sps / sxs, 9)
        y = round(rng.uniform(-sxs, sxs), 8)
        py = round(rng.uniform(-sps, sps) - c * y * sps / sxs, 9)
        ps.append([x, px, y, py, round(rng.uniform(-1e-3, 1e-3), 7), round(rng.uniform(-1e-3, 1e-3), 7), 1.0])
    pattern = rng.choice(["ones", "ones", "mixed", "mixed", "lost"])
    if pattern == "ones":
        w = [1.0] * n
    elif pattern == "mixed":
        w = [rng.choice([1.0, 0.5, 0.25, 0.75]) for _ in range(n)]
    else:
        w = [rng.choice([1.0, 1.0, 0.0, 0.5]) for _ in range(n)]
        w[0], w[1], w[2] = 1.0, 1.0, 0.5
    return ps, w, pattern


def build_pb(ps, w, E=1e8):
    import cheetah
    return cheetah.ParticleBeam(T(ps), T(E), particle_charges=T([1e-12] * len(ps)), survival_probabilities=T(w), dtype=DT)


# ---------------------------------------------------------------- oracle: the identities on the implementation alone
def twiss_obs(b, plane):
    if plane == "x":
        return dict(beta=b.beta_x, alpha=b.alpha_x, eps=b.emittance_x, s=b.sigma_x, sp=b.sigma_px, c=b.sigma_xpx, neps=b.normalized_emittance_x)
    return dict(beta=b.beta_y, alpha=b.alpha_y, eps=b.emittance_y, s=b.sigma_y, sp=b.sigma_py, c=b.sigma_ypy, neps=b.normalized_emittance_y)


def identity_oracle(b, unit=1e-12):
    """beta>0, eps>=0, beta*gamma-alpha^2 = 1 (tolerance scaled by the cancellation s^2 sp^2 / D), normalized emittance.
    Returns list of (what, value); degenerate (clamped) entries are skipped (unspecified region)."""
    bad = []
    for plane in ("x", "y"):
        o = {k: torch.atleast_1d(v.detach()) for k, v in twiss_obs(b, plane).items()}
        for i in range(o["beta"].numel()):
            s, sp, c = float(o["s"].flatten()[i]), float(o["sp"].flatten()[i]), float(o["c"].flatten()[i])
            beta, alpha, eps = float(o["beta"].flatten()[i]), float(o["alpha"].flatten()[i]), float(o["eps"].flatten()[i])
            D = s * s * sp * sp - c * c
            if not all(map(math.isfinite, (s, sp, c, beta, alpha, eps))):
                bad.append((plane + ":nonfinite", float("nan")))
                continue
            kappa = (s * s * sp * sp) / D if D > 0 else float("inf")
            if D <= 1e3 * TINY or kappa > 1e6:
                continue
            if not beta > 0:
                bad.append((plane + ":beta<=0", beta))
            if not eps >= 0:
                bad.append((plane + ":eps<0", eps))
            if not eps > 0:          # a non-degenerate beam (D > 0) reported with emittance 0: nothing further can be evaluated
                bad.append((plane + ":eps==0 for a non-degenerate beam", eps))
                continue
            gamma = sp * sp / eps
            dev = abs(beta * gamma - alpha * alpha - 1.0)
            if not dev <= unit * (1 + kappa) * 10:
                bad.append((plane + ":beta*gamma-alpha^2-1", dev))
            g, bt = float(torch.atleast_1d(b.relativistic_gamma).flatten()[i % torch.atleast_1d(b.relativistic_gamma).numel()]), \
                float(torch.atleast_1d(b.relativistic_beta).flatten()[i % torch.atleast_1d(b.relativistic_beta).numel()])
            ne = float(o["neps"].flatten()[i])
            if not abs(ne - eps * bt * g) <= unit * abs(ne):
                bad.append((plane + ":normalized_emittance", ne))
    return bad


# ---------------------------------------------------------------- correspondence goals
NONFINITE_OBS = []    # observations that are NaN/inf (never written as a Coq literal; reported as failing inputs in main)


def coq_smp(l):
    return coq_list([f"({dyadic(a)}, {dyadic(b)}, {dyadic(w)})" for a, b, w in l])


def add_goal(goals, meta, model, observed, rel, tactic, info):
    if not (math.isfinite(observed) and math.isfinite(rel)):
        NONFINITE_OBS.append(dict(info, observed=repr(observed), model=model[:60]))
        return
    tol = rel * abs(observed) + 1e-300
    goals.append((f"Rabs ({model} - {dyadic(observed)}) <= {dyadic(tol)}", tactic))
    meta.append(dict(info, observed=observed, model=model[:60]))


def param_goals(run, n, goals, meta, impl_bad):
    for i in range(n):
        batch = run.rng.choice([None, None, 2, 3])
        b, E = gen_param_beam(run.rng, batch)
        bad = identity_oracle(b)
        if bad:
            impl_bad.append({"kind": "param_identity", "mu": b._mu.tolist(), "cov": b._cov.tolist(), "energy": E, "diffs": bad})
        covs = b._cov.reshape(-1, 7, 7)
        run.add_case(["param", b._cov.tolist()], True)
        run.count("param_vectorised" if batch else "param_scalar")
        for plane, o in (("x", 0), ("y", 2)):
            obs = {k: torch.atleast_1d(v).flatten() for k, v in twiss_obs(b, plane).items()}
            for k in range(covs.shape[0]):
                c00, c01, c11 = float(covs[k, o, o]), float(covs[k, o, o + 1]), float(covs[k, o + 1, o + 1])
                kappa = c00 * c11 / (c00 * c11 - c01 * c01)
                rel = 1e-12 * (1 + kappa) * 4
                args = f"tiny64 {dyadic(c00)} {dyadic(c01)} {dyadic(c11)}"
                info = {"kind": "param", "plane": plane, "c00": c00, "c01": c01, "c11": c11}
                add_goal(goals, meta, f"pbeta {args}", float(obs["beta"][k]), rel, "tw_param; interval with (i_prec 100).", dict(info, what="beta"))
                if c01 != 0:
                    add_goal(goals, meta, f"palpha {args}", float(obs["alpha"][k]), rel, "tw_param; interval with (i_prec 100).", dict(info, what="alpha"))
                elif float(obs["alpha"][k]) != 0.0:
                    impl_bad.append({"kind": "param_alpha_zero", "cov": covs[k].tolist(), "alpha": float(obs["alpha"][k])})
                add_goal(goals, meta, f"pemittance {args}", float(obs["eps"][k]), rel, "tw_param; interval with (i_prec 100).", dict(info, what="emittance"))


def part_goals(run, n, goals, meta, impl_bad):
    from cheetah.utils.statistics import unbiased_weighted_covariance, unbiased_weighted_variance
    for i in range(n):
        ps, w, pattern = gen_particles(run.rng)
        pb = build_pb(ps, w)
        bad = identity_oracle(pb)
        if bad:
            impl_bad.append({"kind": "particle_identity", "particles": ps, "survival": w, "diffs": bad})
        run.add_case(["part", ps, w], True)
        run.count("particle_weights_" + pattern)
        run.count("particle_n_%d" % len(ps))
        for plane, o in (("x", 0), ("y", 2)):
            obs = twiss_obs(pb, plane)
            l = [(p[o], p[o + 1], wi) for p, wi in zip(ps, w)]
            s, sp, c = float(obs["s"]), float(obs["sp"]), float(obs["c"])
            D = s * s * sp * sp - c * c
            if not D > 0 or s * s * sp * sp / D > 1e4:
                run.count("particle_skipped_near_degenerate")
                continue
            kappa = s * s * sp * sp / D
            # cancellation inside the variance of an off-centre bunch: (|mean|/sigma)^2
            mx = float(pb.mu_x if plane == "x" else pb.mu_y)
            mp = float(pb.mu_px if plane == "x" else pb.mu_py)
            off = 1 + (mx / s) ** 2 + (mp / sp) ** 2
            rel = 1e-12 * (1 + kappa) * off * 4
            L = coq_smp(l)
            info = {"kind": "particle", "plane": plane, "samples": l}
            tac = "tw_part; interval with (i_prec 100)."
            add_goal(goals, meta, f"pb_beta tiny64 {L}", float(obs["beta"]), rel, tac, dict(info, what="beta"))
            add_goal(goals, meta, f"pb_alpha tiny64 {L}", float(obs["alpha"]), rel + (1e-300 if c else 0), tac, dict(info, what="alpha"))
            add_goal(goals, meta, f"pb_emittance tiny64 {L}", float(obs["eps"]), rel, tac, dict(info, what="emittance"))
            tac2 = "tw_stat; interval with (i_prec 100)."
            add_goal(goals, meta, f"wmean_x {L}", mx, 1e-12 * off, tac2, dict(info, what="mu"))
            add_goal(goals, meta, f"wstd {L}", s, 1e-12 * off, tac2, dict(info, what="sigma"))
            add_goal(goals, meta, f"wcov {L}", c, 1e-12 * off * (1 + abs(s * sp / c) if c else 1), tac2, dict(info, what="sigma_xpx"))
            add_goal(goals, meta, f"wmean_y {L}", mp, 1e-12 * off, tac2, dict(info, what="mu of the momentum coordinate (survival-weighted)"))
            add_goal(goals, meta, f"pb_sigpx {L}", sp, 1e-12 * off, "unfold pb_sigpx; tw_stat; cbn [dup_y sx sy sw fst snd]; interval with (i_prec 100).",
                     dict(info, what="sigma of the momentum coordinate"))
        # the longitudinal pair (tau, p): mu_tau, mu_p, sigma_tau, sigma_p through the same weighted-statistics model
        lt = [(p[4], p[5], wi) for p, wi in zip(ps, w)]
        st_, sp_ = float(pb.sigma_tau), float(pb.sigma_p)
        if math.isfinite(st_) and math.isfinite(sp_) and st_ > 0 and sp_ > 0:
            offt = 1 + (float(pb.mu_tau) / st_) ** 2 + (float(pb.mu_p) / sp_) ** 2
            Lt = coq_smp(lt)
            info = {"kind": "particle", "plane": "tau", "samples": lt}
            tac2 = "tw_stat; interval with (i_prec 100)."
            add_goal(goals, meta, f"wmean_x {Lt}", float(pb.mu_tau), 1e-12 * offt, tac2, dict(info, what="mu_tau"))
            add_goal(goals, meta, f"wmean_y {Lt}", float(pb.mu_p), 1e-12 * offt, tac2, dict(info, what="mu_p"))
            add_goal(goals, meta, f"wstd {Lt}", st_, 1e-12 * offt, tac2, dict(info, what="sigma_tau"))
            add_goal(goals, meta, f"pb_sigpx {Lt}", sp_, 1e-12 * offt, "unfold pb_sigpx; tw_stat; cbn [dup_y sx sy sw fst snd]; interval with (i_prec 100).",
                     dict(info, what="sigma_p"))
        # the statistics functions called directly (also vectorised: two rows)
        x = T([[p[0] for p in ps], [p[2] for p in ps]])
        y = T([[p[1] for p in ps], [p[3] for p in ps]])
        ww = T([w, w])
        v2 = unbiased_weighted_variance(x, ww, dim=-1)
        c2 = unbiased_weighted_covariance(x, y, ww, dim=-1)
        if abs(float(v2[0]) - float(pb.sigma_x) ** 2) > 1e-12 * float(v2[0]) or abs(float(c2[1]) - float(pb.sigma_ypy)) > 1e-12 * abs(float(c2[1])) + 1e-300:
            impl_bad.append({"kind": "stats_vectorised", "particles": ps, "survival": w})


def from_twiss_goals(run, n, goals, meta, impl_bad):
    import cheetah
    for i in range(n):
        beta = run.rng.choice([0.1, 1.0, 5.0, 25.0]) * run.rng.uniform(0.5, 2)
        alpha = run.rng.choice([0.0, 0.5, -1.5, 3.0, -0.1])
        eps = run.rng.choice([7.1971891e-13, 1e-9, 2e-8, 1e-6]) * run.rng.uniform(0.5, 2)
        beta_y, alpha_y, eps_y = beta * 2, -alpha, eps / 2
        vec = run.rng.random() < 0.3
        kw = dict(beta_x=T([beta, beta * 2] if vec else beta), alpha_x=T(alpha), emittance_x=T(eps), beta_y=T(beta_y), alpha_y=T(alpha_y),
                  emittance_y=T(eps_y), energy=T(1e8))
        b = cheetah.ParameterBeam.from_twiss(**kw, dtype=DT)
        run.add_case(["from_twiss", beta, alpha, eps, vec], True)
        run.count("from_twiss_vectorised" if vec else "from_twiss_scalar")
        cov = b._cov.reshape(-1, 7, 7)
        # correspondence of from_twiss / from_parameters with the model
        args = f"{dyadic(beta)} {dyadic(alpha)} {dyadic(eps)}"
        info = {"kind": "from_twiss", "beta": beta, "alpha": alpha, "eps": eps}
        tac = "tw_ft; interval with (i_prec 100)."
        add_goal(goals, meta, f"ft_c00 {args}", float(cov[0, 0, 0]), 1e-13, tac, dict(info, what="cov00"))
        if alpha != 0:
            add_goal(goals, meta, f"ft_c01 {args}", float(cov[0, 0, 1]), 1e-13, tac, dict(info, what="cov01"))
        add_goal(goals, meta, f"ft_c11 {args}", float(cov[0, 1, 1]), 1e-13, tac, dict(info, what="cov11"))
        # the round trip itself on the implementation: the getters give the inputs back
        exp = [(b.beta_x, [beta, beta * 2] if vec else [beta]), (b.alpha_x, [alpha] * (2 if vec else 1)), (b.emittance_x, [eps] * (2 if vec else 1)),
               (b.beta_y, [beta_y]), (b.alpha_y, [alpha_y]), (b.emittance_y, [eps_y])]
        diffs = []
        for got, want in exp:
            got = torch.atleast_1d(got).flatten().tolist()
            for g, wv in zip(got, want * (len(got) // len(want))):
                if abs(g - wv) > 1e-11 * (1 + alpha * alpha) * max(abs(wv), 1e-300) + (1e-12 if wv == 0 else 0):
                    diffs.append((g, wv))
        if diffs or identity_oracle(b):
            impl_bad.append({"kind": "from_twiss_roundtrip", "beta": beta, "alpha": alpha, "eps": eps, "vectorised": vec, "diffs": diffs + identity_oracle(b)})


def from_twiss_statistical(run, n, impl_bad):
    """ParticleBeam.from_twiss: sampling error only -- 5 sigma bounds (tested, not proved)"""
    import cheetah
    N = 20000
    for i in range(n):
        beta = run.rng.choice([0.5, 2.0, 10.0])
        alpha = run.rng.choice([0.0, 1.0, -2.0])
        eps = run.rng.choice([1e-9, 5e-8])
        b = cheetah.ParticleBeam.from_twiss(num_particles=N, beta_x=T(beta), alpha_x=T(alpha), emittance_x=T(eps), beta_y=T(beta), alpha_y=T(-alpha),
                                            emittance_y=T(eps), energy=T(1e8), dtype=DT)
        run.add_case(["from_twiss_particles", beta, alpha, eps], True)
        run.count("from_twiss_particles")
        sd = math.sqrt(2.0 / N) * (1 + abs(alpha)) * 2     # generous relative sampling error of second-moment ratios
        diffs = []
        for name, got, want, scale in (("beta_x", b.beta_x, beta, beta), ("alpha_x", b.alpha_x, alpha, 1 + abs(alpha)), ("emittance_x", b.emittance_x, eps, eps),
                                       ("beta_y", b.beta_y, beta, beta), ("alpha_y", b.alpha_y, -alpha, 1 + abs(alpha)), ("emittance_y", b.emittance_y, eps, eps)):
            if abs(float(got) - want) > 5 * sd * scale:
                diffs.append((name, float(got), want))
        if diffs or identity_oracle(b):
            impl_bad.append({"kind": "from_twiss_particles", "beta": beta, "alpha": alpha, "eps": eps, "diffs": diffs + identity_oracle(b)})
            continue
        # the same beam with survival probabilities drawn independently of the coordinates (half lost / fractional): still the requested
        # Twiss parameters within the sampling error of the effective sample size
        pat = ["mask01", "fractional"][i % 2]
        gen = torch.Generator().manual_seed(run.rng.randrange(2 ** 31))
        w = (torch.rand(N, generator=gen) < 0.5).to(DT) if pat == "mask01" else torch.randint(1, 5, (N,), generator=gen).to(DT) / 4
        bw = b.clone()
        bw.survival_probabilities = w
        neff = float(w.sum() ** 2 / (w * w).sum())
        sdw = math.sqrt(2.0 / neff) * (1 + abs(alpha)) * 2
        run.count("from_twiss_particles_weighted_" + pat)
        dw = []
        for name, want, scale in (("beta_x", beta, beta), ("alpha_x", alpha, 1 + abs(alpha)), ("emittance_x", eps, eps),
                                  ("beta_y", beta, beta), ("alpha_y", -alpha, 1 + abs(alpha)), ("emittance_y", eps, eps)):
            got = float(getattr(bw, name))
            if not abs(got - want) <= 5 * sdw * scale:
                dw.append((name, got, want))
        if dw or identity_oracle(bw):
            impl_bad.append({"kind": "from_twiss_particles_weighted", "beta": beta, "alpha": alpha, "eps": eps, "weights": pat,
                             "diffs": dw + identity_oracle(bw)})


def wstats_oracle(run, n, impl_bad):
    """permutation / shift / scale / ones on the implementation (ParticleBeam getters)"""
    for i in range(n):
        ps, w, pattern = gen_particles(run.rng)
        pb = build_pb(ps, w)
        run.add_case(["wstats", ps, w], True)
        run.count("wstats_case")
        perm = list(range(len(ps)))
        run.rng.shuffle(perm)
        pb2 = build_pb([ps[k] for k in perm], [w[k] for k in perm])
        a, k = 3e-3, -2.5
        pb3 = build_pb([[p[0] + a] + p[1:] for p in ps], w)
        pb4 = build_pb([[p[0] * k] + p[1:] for p in ps], w)
        s = float(pb.sigma_x)
        if not (math.isfinite(s) and s > 1e-30 and math.isfinite(float(pb.mu_x))):
            impl_bad.append({"kind": "wstats", "particles": ps, "survival": w, "perm": perm,
                             "diffs": [("sigma_x / mu_x of distinct particles not a positive number", s, float(pb.mu_x))]})
            continue
        off = 1 + ((abs(float(pb.mu_x)) + a) / s) ** 2
        tol = 1e-12 * off
        diffs = []

        def close(name, got, want, scale):
            if not abs(float(got) - float(want)) <= tol * abs(scale) + 1e-300:
                diffs.append((name, float(got), float(want)))
        sc = s * float(pb.sigma_px)
        for nm in ("mu_x", "sigma_x", "sigma_px", "sigma_xpx", "sigma_y", "emittance_x", "beta_x", "alpha_x"):
            v = float(getattr(pb, nm))
            close("perm:" + nm, getattr(pb2, nm), v, max(abs(v), sc if nm == "sigma_xpx" else 0) * (100 if nm in ("emittance_x", "beta_x", "alpha_x") else 1))
        close("shift:mu_x", pb3.mu_x, float(pb.mu_x) + a, abs(float(pb.mu_x)) + a)
        close("shift:sigma_x", pb3.sigma_x, s, s)
        close("shift:sigma_xpx", pb3.sigma_xpx, float(pb.sigma_xpx), sc)
        close("scale:mu_x", pb4.mu_x, k * float(pb.mu_x), abs(k * float(pb.mu_x)) + abs(k) * s)
        close("scale:sigma_x", pb4.sigma_x, abs(k) * s, abs(k) * s)
        close("scale:sigma_xpx", pb4.sigma_xpx, k * float(pb.sigma_xpx), abs(k) * sc)
        if pattern == "ones":
            x, px = T([p[0] for p in ps]), T([p[1] for p in ps])
            close("ones:mu_x", pb.mu_x, x.mean(), abs(float(x.mean())) + s)
            close("ones:sigma_x", pb.sigma_x, x.std(unbiased=True), s)
            close("ones:sigma_xpx", pb.sigma_xpx, torch.cov(torch.stack([x, px]))[0, 1], sc)
        if diffs:
            impl_bad.append({"kind": "wstats", "particles": ps, "survival": w, "perm": perm, "diffs": diffs})


def transport_oracle(run, n, impl_bad):
    """Twiss transport through real Drifts and upright Quadrupoles: standard 3x3 law with the element's own 2x2 block"""
    import cheetah
    for i in range(n):
        b, E = gen_param_beam(run.rng)
        L = run.rng.choice([0.1, 0.5, 2.0])
        if run.rng.random() < 0.5:
            el, kind = cheetah.Drift(length=T(L), dtype=DT), "Drift"
        else:
            L = min(L, 0.5)
            el, kind = cheetah.Quadrupole(length=T(L), k1=T(run.rng.choice([0.5, -2.0, 10.0, 0.0])), dtype=DT), "Quadrupole"
        out = el.track(b)
        tm = el.transfer_map(b.energy)
        run.add_case(["transport", kind, L, b._cov.tolist()], True)
        run.count("transport_" + kind)
        diffs = []
        for plane, o in (("x", 0), ("y", 2)):
            a_, b_, c_, d_ = float(tm[o, o]), float(tm[o, o + 1]), float(tm[o + 1, o]), float(tm[o + 1, o + 1])
            ti, to = twiss_obs(b, plane), twiss_obs(out, plane)
            B, A = float(ti["beta"]), float(ti["alpha"])
            G = float(ti["sp"]) ** 2 / float(ti["eps"])
            wantB = a_ * a_ * B - 2 * a_ * b_ * A + b_ * b_ * G
            wantA = -a_ * c_ * B + (a_ * d_ + b_ * c_) * A - b_ * d_ * G
            kappa = 1 + A * A + float(to["alpha"]) ** 2
            scaleB = a_ * a_ * B + abs(2 * a_ * b_ * A) + b_ * b_ * G
            scaleA = abs(a_ * c_ * B) + abs((a_ * d_ + b_ * c_) * A) + abs(b_ * d_ * G) + 1
            if not abs(a_ * d_ - b_ * c_ - 1) <= 1e-9:
                diffs.append((plane + ":det", a_ * d_ - b_ * c_))
            if not abs(float(to["beta"]) - wantB) <= 1e-9 * kappa * scaleB:
                diffs.append((plane + ":beta", float(to["beta"]), wantB))
            if not abs(float(to["alpha"]) - wantA) <= 1e-9 * kappa * scaleA:
                diffs.append((plane + ":alpha", float(to["alpha"]), wantA))
            if not abs(float(to["eps"]) - float(ti["eps"])) <= 1e-9 * kappa * scaleB / B * float(ti["eps"]):
                diffs.append((plane + ":emittance", float(to["eps"]), float(ti["eps"])))
        if diffs:
            impl_bad.append({"kind": "transport", "element": kind, "length": L, "k1": float(getattr(el, "k1", T(0.0))), "cov": b._cov.tolist(),
                             "mu": b._mu.tolist(), "energy": E, "diffs": diffs})


# ---------------------------------------------------------------- degenerate (zero-emittance) beams: the clauses claimed for EVERY beam
DTYPES = {"float32": torch.float32, "float64": torch.float64}


def flat(t):
    return [float(v) for v in torch.atleast_1d(t.detach()).flatten()]


def build_degenerate(spec):
    """valid beams whose geometric emittance is zero (sigma_x^2 sigma_px^2 - sigma_xpx^2 = 0 up to rounding, of either sign)"""
    import cheetah
    dt = DTYPES[spec["dtype"]]

    def t(v):
        return torch.tensor(v, dtype=dt)
    mk = spec["maker"]
    if mk in ("linspaced", "parameter_linspaced"):
        kw = dict(sigma_x=t(spec["sigma_x"]), sigma_px=t(spec["sigma_px"]), sigma_y=t(spec["sigma_y"]), sigma_py=t(spec["sigma_py"]),
                  mu_x=t(spec["mu_x"]), mu_px=t(spec["mu_px"]), energy=t(1e8))
        if mk == "linspaced":
            return cheetah.ParticleBeam.make_linspaced(num_particles=spec["n"], **kw, dtype=dt)
        return cheetah.ParameterBeam.from_parameters(**kw, dtype=dt).linspaced(spec["n"])
    if mk == "two_survivors":
        n = len(spec["particles"])
        return cheetah.ParticleBeam(t(spec["particles"]), t(1e8), particle_charges=t([1e-12] * n), survival_probabilities=t(spec["survival"]), dtype=dt)
    if mk == "param_corr":
        sx, sp, sy, spy = t(spec["sigma_x"]), t(spec["sigma_px"]), t(spec["sigma_y"]), t(spec["sigma_py"])
        b = cheetah.ParameterBeam.from_parameters(sigma_x=sx, sigma_px=sp, cor_x=t(spec["sign_x"]) * sx * sp, sigma_y=sy, sigma_py=spy,
                                                  cor_y=t(spec["sign_y"]) * sy * spy, energy=t(1e8), dtype=dt)
        if spec.get("lattice"):
            l1, lq, k1, l2 = spec["lattice"]
            seg = cheetah.Segment([cheetah.Drift(length=t(l1), dtype=dt), cheetah.Quadrupole(length=t(lq), k1=t(k1), dtype=dt),
                                   cheetah.Drift(length=t(l2), dtype=dt)])
            b = seg.track(b)
        return b
    raise ValueError(mk)


def every_beam_claims(b):
    """C17 clauses that hold for EVERY beam with a non-zero extent, clamped (zero-emittance) ones included: emittance, beta and alpha are
    numbers, emittance >= 0, beta > 0.  (beta*gamma - alpha^2 = 1 is NOT claimed for clamped beams: F19.)  An exception raised by a getter
    is an observation.  Returns list of (what, entry, value)."""
    bad = []
    for plane in ("x", "y"):
        try:
            o = {k: flat(v) for k, v in twiss_obs(b, plane).items() if k in ("s", "sp", "c", "eps", "beta", "alpha")}
        except Exception as ex:
            bad.append((plane + ":getter raised", -1, repr(ex)[:200]))
            continue
        for i in range(max(len(v) for v in o.values())):
            s, sp, c, eps, beta, alpha = (o[k][i % len(o[k])] for k in ("s", "sp", "c", "eps", "beta", "alpha"))
            if not all(map(math.isfinite, (s, sp, c))):
                bad.append((plane + ":second moments not finite", i, [s, sp, c]))
                continue
            if not s > 0:
                continue                      # a beam without extent: beta > 0 is not claimed
            if not (math.isfinite(eps) and eps >= 0):
                bad.append((plane + ":emittance is not a number >= 0", i, eps))
            if not (math.isfinite(beta) and beta > 0):
                bad.append((plane + ":beta is not a number > 0", i, beta))
            if not math.isfinite(alpha):
                bad.append((plane + ":alpha is not a number", i, alpha))
    return bad


def degenerate_entry(spec, i):
    """the i-th entry of a vectorised degenerate spec as a spec of its own"""
    s = dict(spec)
    if spec["maker"] == "two_survivors":
        s["survival"] = spec["survival"][i]
        return s
    for k in ("sigma_x", "sigma_px", "sigma_y", "sigma_py", "sign_x", "sign_y"):
        if isinstance(spec.get(k), list):
            s[k] = spec[k][i]
    return s


def gen_degenerate(rng):
    dtype = rng.choice(["float32", "float32", "float64"])
    B = rng.choice([4, 6, 8])
    sig = lambda pool: [rng.choice(pool) * rng.uniform(0.5, 2.0) for _ in range(B)]  # noqa: E731
    mk = rng.choice(["linspaced", "parameter_linspaced", "two_survivors", "two_survivors", "param_corr", "param_corr", "param_corr"])
    if mk in ("linspaced", "parameter_linspaced"):
        return {"maker": mk, "dtype": dtype, "n": rng.choice([2, 3, 5, 11, 20]), "sigma_x": sig([1e-4, 2.3e-5, 9e-6, 7.7e-4]),
                "sigma_px": sig([1e-5, 7e-6, 6.3e-5, 2e-6]), "sigma_y": sig([1e-4, 3e-4, 5.1e-5]), "sigma_py": sig([1e-5, 2e-5, 4e-6]),
                "mu_x": rng.choice([0.0, 1e-4]), "mu_px": rng.choice([0.0, -2e-5])}
    if mk == "two_survivors":
        ps, _w, _pat = gen_particles(rng)
        n = len(ps)
        surv = []
        for _ in range(B):
            row = [0.0] * n
            i, j = rng.sample(range(n), 2)
            row[i], row[j] = 1.0, rng.choice([1.0, 1.0, 0.5])
            surv.append(row)
        if dtype == "float32":
            ps = torch.tensor(ps, dtype=torch.float32).double().tolist()
        return {"maker": mk, "dtype": dtype, "particles": ps, "survival": surv}
    lat = None
    if rng.random() < 0.6:
        lat = [rng.choice([0.7, 0.3, 1.0]), rng.choice([0.2, 0.1]), rng.choice([4.2, -3.0, 1.5]), rng.choice([1.3, 0.5])]
    return {"maker": mk, "dtype": dtype, "sigma_x": sig([1e-4, 2.3e-5, 9e-6, 7.7e-4]), "sigma_px": sig([1e-5, 7e-6, 6.3e-5, 2e-6]),
            "sigma_y": sig([1e-4, 3e-4, 5.1e-5]), "sigma_py": sig([1e-5, 2e-5, 4e-6]),
            "sign_x": [rng.choice([1.0, -1.0]) for _ in range(B)], "sign_y": [rng.choice([1.0, -1.0]) for _ in range(B)], "lattice": lat}


def check_degenerate(spec):
    try:
        b = build_degenerate(spec)
    except Exception as ex:
        return [("constructing / tracking a valid degenerate beam raised", -1, repr(ex)[:200])]
    return every_beam_claims(b)


def degenerate_oracle(run, n, impl_bad):
    for _ in range(n):
        spec = gen_degenerate(run.rng)
        run.add_case(["degenerate", spec], True)
        run.count("degenerate_" + spec["maker"] + "_" + spec["dtype"] + ("_transported" if spec.get("lattice") else ""))
        bad = check_degenerate(spec)
        if not bad:
            continue
        # shrink: the single failing entry of the batch, if it fails on its own as well
        for what, i, _v in bad:
            if i >= 0:
                one = degenerate_entry(spec, i)
                b1 = check_degenerate(one)
                if b1:
                    spec, bad = one, b1
                    break
        impl_bad.append({"kind": "degenerate", "spec": spec, "diffs": bad,
                         "claim": "for every beam (zero-emittance beams included) emittance, beta, alpha are numbers, emittance >= 0, beta > 0"})


# ---------------------------------------------------------------- statistics of beams far off axis (|mean| >> sigma), float32 and float64
def exact_wstats(xs, ps, w):
    """exact rational weighted statistics of the stored coordinates: (mean_x, mean_p, var_x, var_p, cov, W, correction)"""
    from fractions import Fraction as Fr
    xs, ps, w = [Fr(v) for v in xs], [Fr(v) for v in ps], [Fr(v) for v in w]
    W = sum(w)
    cf = W - sum(v * v for v in w) / W
    mx, mp = sum(a * b for a, b in zip(xs, w)) / W, sum(a * b for a, b in zip(ps, w)) / W
    vx = sum(c * (a - mx) ** 2 for a, c in zip(xs, w)) / cf
    vp = sum(c * (a - mp) ** 2 for a, c in zip(ps, w)) / cf
    cv = sum(c * (a - mx) * (b - mp) for a, b, c in zip(xs, ps, w)) / cf
    return mx, mp, vx, vp, cv, W, cf


def offaxis_tolerances(dtype, xs, ps, w, ex):
    """Rounding-error bounds of the TWO-PASS formulas evaluated in `dtype` with plain recursive summation of n terms:
    u = eps (n/2 + 4);  |mean^ - mean| <= u max|x|;  sum w (x - mean^)^2 = sum w (x - mean)^2 + W (mean^ - mean)^2 (the cross term vanishes),
    so var^/var - 1 <= 3u + (W/c)(u max|x| / sigma)^2 -- second order in the offset/size ratio; likewise for the covariance."""
    mx, mp, vx, vp, cv, W, cf = ex
    eps = float(torch.finfo(DTYPES[dtype]).eps)
    n = len(xs)
    u = eps * (n / 2 + 4)
    sx, sp = math.sqrt(float(vx)), math.sqrt(float(vp))
    xm, pm = max(abs(v) for v in xs), max(abs(v) for v in ps)
    q = float(W / cf)
    rx = 3 * u + q * (u * xm / sx) ** 2
    rp = 3 * u + q * (u * pm / sp) ** 2
    rc = 3 * u + q * (u * xm / sx) * (u * pm / sp)
    return dict(u=u, sx=sx, sp=sp, mu=u * xm, sigma_x=sx * rx, sigma_px=sp * rp, cov=sx * sp * rc, rx=rx, rp=rp, rc=rc, q=q)


def build_offaxis(spec, shifted):
    import cheetah
    dt = DTYPES[spec["dtype"]]
    n = len(spec["x"])
    part = torch.zeros(n, 7, dtype=dt)
    part[:, 0], part[:, 1] = torch.tensor(spec["x"], dtype=dt), torch.tensor(spec["px"], dtype=dt)
    part[:, 2], part[:, 3] = torch.tensor(spec["px"], dtype=dt) * 3, torch.tensor(spec["x"], dtype=dt) * 0.5
    part[:, 6] = 1.0
    b = cheetah.ParticleBeam(part, torch.tensor(1e8, dtype=dt), particle_charges=torch.full((n,), 1e-12, dtype=dt),
                             survival_probabilities=torch.tensor(spec["survival"], dtype=dt), dtype=dt)
    if shifted:
        b.x = b.x + torch.tensor(spec["shift"], dtype=dt)
    return b


def check_offaxis(spec):
    """(1) every getter of the shifted beam agrees with the exact statistics of the coordinates it stores, within the rounding bound of the
    two-pass formulas; (2) translation: sigma_x, sigma_xpx of the shifted beam equal those of the unshifted one (plus the exactly measured
    effect of rounding the shifted coordinates to the dtype), mu_x moves by the shift."""
    from fractions import Fraction as Fr
    diffs = []
    try:
        b0, b1 = build_offaxis(spec, False), build_offaxis(spec, True)
        obs = []
        for b in (b0, b1):
            obs.append({k: float(getattr(b, k)) for k in ("mu_x", "sigma_x", "sigma_px", "sigma_xpx", "emittance_x", "beta_x", "alpha_x")})
        stored = [(b.x.double().tolist(), b.px.double().tolist()) for b in (b0, b1)]
    except Exception as ex:
        return [("exception", repr(ex)[:200])], None
    w = spec["survival"]
    exs = [exact_wstats(xs, ps, w) for xs, ps in stored]
    tols = [offaxis_tolerances(spec["dtype"], xs, ps, w, ex) for (xs, ps), ex in zip(stored, exs)]
    eps = float(torch.finfo(DTYPES[spec["dtype"]]).eps)

    def close(name, got, want, tol):
        if not abs(got - want) <= tol:
            diffs.append((name, got, want, tol))
    for tag, o, ex, t in (("unshifted:", obs[0], exs[0], tols[0]), ("shifted:", obs[1], exs[1], tols[1])):
        mx, mp, vx, vp, cv, W, cf = ex
        close(tag + "mu_x vs exact weighted mean", o["mu_x"], float(mx), t["mu"])
        close(tag + "sigma_x vs exact weighted std", o["sigma_x"], t["sx"], t["sigma_x"])
        close(tag + "sigma_px vs exact weighted std", o["sigma_px"], t["sp"], t["sigma_px"])
        close(tag + "sigma_xpx vs exact weighted covariance", o["sigma_xpx"], float(cv), t["cov"])
        D = vx * vp - cv * cv
        kappa = float(vx * vp / D) if D > 0 else float("inf")
        rho = 2 * t["rx"] + 2 * t["rp"] + 2 * t["rc"] + 8 * eps      # relative error of sx^2 sp^2 - c^2 w.r.t. sx^2 sp^2
        if kappa * rho < 0.05:
            e = math.sqrt(float(D))
            close(tag + "emittance_x vs exact", o["emittance_x"], e, 1.5 * e * (kappa * rho + 2 * eps))
            close(tag + "beta_x vs exact", o["beta_x"], float(vx) / e, 1.5 * float(vx) / e * (2 * t["rx"] + kappa * rho + 4 * eps))
            close(tag + "alpha_x vs exact", o["alpha_x"], -float(cv) / e, 1.5 * (t["sx"] * t["sp"] / e) * (t["rc"] + kappa * rho + 4 * eps))
    # translation invariance proper; delta_i = stored shifted coordinate - (stored coordinate + shift), measured exactly
    a = Fr(float(torch.tensor(spec["shift"], dtype=DTYPES[spec["dtype"]])))
    dmax = float(max(abs(Fr(s1) - (Fr(s0) + a)) for s0, s1 in zip(stored[0][0], stored[1][0])))
    q = math.sqrt(tols[0]["q"])
    close("shift:sigma_x unchanged", obs[1]["sigma_x"], obs[0]["sigma_x"], tols[0]["sigma_x"] + tols[1]["sigma_x"] + q * dmax)
    close("shift:sigma_xpx unchanged", obs[1]["sigma_xpx"], obs[0]["sigma_xpx"], tols[0]["cov"] + tols[1]["cov"] + q * dmax * tols[0]["sp"])
    close("shift:mu_x moves by the shift", obs[1]["mu_x"], obs[0]["mu_x"] + float(a), tols[0]["mu"] + tols[1]["mu"] + dmax + eps * abs(float(a)))
    info = {"offset_over_sigma": abs(float(exs[1][0])) / tols[1]["sx"], "observed": obs, "exact_shifted": {"mu_x": float(exs[1][0]), "sigma_x": tols[1]["sx"],
            "sigma_xpx": float(exs[1][4])}}
    return diffs, info


def gen_offaxis(rng):
    dtype = rng.choice(["float32", "float32", "float64"])
    n = rng.choice([5, 20, 60, 150])
    sx = rng.choice([6e-6, 1e-4, 1e-3]) * rng.uniform(0.5, 2.0)
    sp = rng.choice([2e-6, 1e-5, 1e-4]) * rng.uniform(0.5, 2.0)
    r = rng.choice([0.0, 0.5, -0.8])
    xs, ps = [], []
    for _ in range(n):
        g1, g2 = rng.gauss(0, 1), rng.gauss(0, 1)
        xs.append(sx * g1)
        ps.append(sp * (r * g1 + math.sqrt(1 - r * r) * g2))
    dt = DTYPES[dtype]
    xs, ps = torch.tensor(xs, dtype=dt).double().tolist(), torch.tensor(ps, dtype=dt).double().tolist()
    pattern = rng.choice(["ones", "ones", "mixed", "lost"])
    if pattern == "ones":
        w = [1.0] * n
    elif pattern == "mixed":
        w = [rng.choice([1.0, 0.5, 0.25, 0.75]) for _ in range(n)]
    else:
        w = [rng.choice([1.0, 1.0, 0.0, 0.5]) for _ in range(n)]
        w[0], w[1], w[2] = 1.0, 1.0, 0.5
    ratio = rng.choice([30.0, 1e3, 1e3, 3e3, 1e4]) if dtype == "float32" else rng.choice([1e3, 1e5, 1e6, 1e7])
    shift = rng.choice([1.0, -1.0]) * ratio * sx * rng.uniform(0.7, 1.4)
    return {"dtype": dtype, "x": xs, "px": ps, "survival": w, "shift": shift, "ratio": ratio, "weights": pattern}


def offaxis_oracle(run, n, impl_bad):
    found = []
    for _ in range(n):
        spec = gen_offaxis(run.rng)
        run.add_case(["offaxis", spec], True)
        run.count("offaxis_%s_ratio_%g" % (spec["dtype"], spec["ratio"]))
        run.count("offaxis_weights_" + spec["weights"])
        diffs, info = check_offaxis(spec)
        if diffs:
            found.append({"kind": "offaxis_statistics", "spec": spec, "diffs": diffs, "info": info,
                          "claim": "weighted statistics translate with the coordinates and equal the exact weighted sample statistics of the stored "
                                   "coordinates up to the rounding error of the two-pass formulas in the beam's dtype"})
    impl_bad.extend(sorted(found, key=lambda f: len(f["spec"]["x"])))       # smallest failing beam first


# ---------------------------------------------------------------- VECTORISED transport: every batch entry obeys the matrix law of ITS OWN setting
def plane_block(k, L):
    """textbook 2x2 block of an upright quadrupole plane with focusing strength k (x plane: k1, y plane: -k1); k = 0: drift"""
    if k > 0:
        w = math.sqrt(k)
        return math.cos(w * L), math.sin(w * L) / w, -w * math.sin(w * L), math.cos(w * L)
    if k < 0:
        w = math.sqrt(-k)
        return math.cosh(w * L), math.sinh(w * L) / w, w * math.sinh(w * L), math.cosh(w * L)
    return 1.0, L, 0.0, 1.0


def mul2x2(m2, m1):
    """m2 . m1 (m1 acts first)"""
    a, b, c, d = m1
    e, f, g, h = m2
    return e * a + f * c, e * b + f * d, g * a + h * c, g * b + h * d


def gen_kvec(rng, B):
    """a vectorised k1 scan: mixed signs, an exact zero next to non-zero strengths most of the time"""
    pool = [-3.0, -1.5, -0.4, 0.7, 2.0, 4.5, 10.0, -8.0, 1e-3]
    mode = rng.choice(["through_zero", "through_zero", "through_zero", "nonzero", "two_zeros", "all_zero"])
    ks = [rng.choice(pool) * rng.uniform(0.5, 1.5) for _ in range(B)]
    if mode in ("through_zero", "two_zeros"):
        ks[rng.randrange(B)] = 0.0
    if mode == "two_zeros":
        ks[rng.randrange(B)] = 0.0
    if mode == "all_zero":
        ks = [0.0] * B
    if mode == "through_zero" and rng.random() < 0.5:
        ks = sorted(ks)                           # a monotone scan through zero
    return ks, mode


def gen_cov_spec(rng):
    bx, by, bt = gen_block(rng), gen_block(rng), gen_block(rng)
    cov = [[0.0] * 7 for _ in range(7)]
    for o, b in ((0, bx), (2, by), (4, bt)):
        cov[o][o], cov[o][o + 1], cov[o + 1][o], cov[o + 1][o + 1] = b[0], b[1], b[1], b[2]
    return [rng.uniform(-1e-3, 1e-3) for _ in range(6)] + [1.0], cov


def gen_cloud(rng, n):
    """n particles of a non-degenerate bunch (correlated x-px, y-py)"""
    sxs, sps = rng.choice([1e-4, 1e-3]), rng.choice([1e-5, 1e-4])
    cx, cy = rng.choice([0.0, 0.6, -1.5]), rng.choice([0.0, -0.8, 1.2])
    ps = []
    for _ in range(n):
        x, y = rng.gauss(0, sxs), rng.gauss(0, sxs)
        ps.append([x + rng.choice([0.0, 2e-4]), rng.gauss(0, sps) + cx * x * sps / sxs, y, rng.gauss(0, sps) + cy * y * sps / sxs,
                   rng.gauss(0, 1e-4), rng.gauss(0, 1e-4), 1.0])
    return ps


def gen_transport_vec(rng):
    B = rng.choice([3, 4, 5])
    kind = rng.choice(["quad", "quad", "segment", "segment", "drift"])
    ks, kmode = gen_kvec(rng, B)
    vecL = rng.random() < 0.4 or kind == "drift"
    Ls = [rng.choice([0.1, 0.2, 0.35, 0.5]) * rng.uniform(0.8, 1.2) for _ in range(B)] if vecL else [rng.choice([0.1, 0.2, 0.35, 0.5])] * B
    spec = {"kind": kind, "B": B, "k1": ks if kind != "drift" else [0.0] * B, "k1_mode": kmode if kind != "drift" else "none", "length": Ls,
            "length_vectorised": vecL, "k1_vectorised": kind != "drift" and (rng.random() < 0.9 or not vecL),
            "drifts": [rng.choice([0.3, 0.7, 1.1]), rng.choice([0.2, 0.5, 1.3])] if kind == "segment" else None,
            "energy": rng.choice([5e6, 1e8, 6e9])}
    if kind != "drift" and not spec["k1_vectorised"]:
        spec["k1"] = [ks[0]] * B
    bt = rng.choice(["parameter", "parameter_vec", "particle", "particle_vec", "particle_weighted"])
    spec["beam_type"] = bt
    if bt == "parameter":
        spec["beam"] = [gen_cov_spec(rng)]
    elif bt == "parameter_vec":
        spec["beam"] = [gen_cov_spec(rng) for _ in range(B)]
    else:
        n = rng.choice([6, 8, 12])
        spec["beam"] = [gen_cloud(rng, n) for _ in range(B if bt == "particle_vec" else 1)]
        spec["survival"] = None
        if bt == "particle_weighted":
            spec["survival"] = [[rng.choice([1.0, 1.0, 0.5, 0.25, 0.0]) for _ in range(n)] for _ in range(B)]
            for row in spec["survival"]:
                row[0], row[1], row[2], row[3] = 1.0, 1.0, 0.5, 1.0
    return spec


def tv_beam(spec, i=None):
    """the incoming beam of a vectorised-transport spec (i: the un-vectorised beam of batch entry i)"""
    import cheetah
    E = T(spec["energy"])
    items = spec["beam"]
    if spec["beam_type"].startswith("parameter"):
        if i is not None:
            mu, cov = items[i % len(items)]
        elif len(items) == 1:
            mu, cov = items[0]
        else:
            mu, cov = [m for m, _ in items], [c for _, c in items]
        return cheetah.ParameterBeam(T(mu), T(cov), E, total_charge=T(1e-12), dtype=DT)
    n = len(items[0])
    sv = spec.get("survival")
    if i is not None:
        ps, w = items[i % len(items)], (sv[i] if sv else [1.0] * n)
    else:
        ps = items[0] if len(items) == 1 else items
        w = sv if sv else [1.0] * n
    return cheetah.ParticleBeam(T(ps), E, particle_charges=T([1e-12] * n), survival_probabilities=T(w), dtype=DT)


def tv_element(spec, i=None):
    import cheetah
    k1 = spec["k1"] if i is None else spec["k1"][i]
    L = spec["length"] if i is None else spec["length"][i]
    if i is None:
        if not spec.get("k1_vectorised", True):
            k1 = k1[0]
        if not spec["length_vectorised"]:
            L = L[0]
    if spec["kind"] == "drift":
        return cheetah.Drift(length=T(L), dtype=DT)
    q = cheetah.Quadrupole(length=T(L), k1=T(k1), dtype=DT)
    if spec["kind"] == "quad":
        return q
    return cheetah.Segment([cheetah.Drift(length=T(spec["drifts"][0]), dtype=DT), q, cheetah.Drift(length=T(spec["drifts"][1]), dtype=DT)])


def check_transport_vec(spec):
    """every batch entry of the outgoing beam has the beta / alpha / emittance that the standard matrix law gives for THAT entry's own
    strength, length and incoming Twiss parameters (textbook blocks, not the code's transfer map), and the ones that tracking the entry
    alone gives.  Returns list of diffs."""
    diffs = []
    B = spec["B"]
    try:
        vin = tv_beam(spec)
        vout = tv_element(spec).track(vin)
        obs = {pl: {k: flat(v) for k, v in twiss_obs(vout, pl).items()} for pl in ("x", "y")}
    except Exception as ex:
        return [("vectorised tracking raised", repr(ex)[:300])]
    for pl in ("x", "y"):
        for k in ("beta", "alpha", "eps"):
            if len(obs[pl][k]) not in (B, 1):
                diffs.append((f"{pl}:{k} has {len(obs[pl][k])} entries", B))
    if diffs:
        return diffs
    for i in range(B):
        try:
            bi = tv_beam(spec, i)
            oi = tv_element(spec, i).track(bi)
        except Exception as ex:
            return [("tracking entry %d alone raised" % i, repr(ex)[:300])]
        for pl, sign in (("x", 1.0), ("y", -1.0)):
            ti, to1 = twiss_obs(bi, pl), twiss_obs(oi, pl)
            Bi, Ai, Ei = float(ti["beta"]), float(ti["alpha"]), float(ti["eps"])
            s, sp, c = float(ti["s"]), float(ti["sp"]), float(ti["c"])
            D = s * s * sp * sp - c * c
            if not (D > 0 and s * s * sp * sp / D < 1e5 and Ei > 0):
                continue
            Gi = sp * sp / Ei
            m = plane_block(sign * spec["k1"][i], spec["length"][i]) if spec["kind"] != "drift" else (1.0, spec["length"][i], 0.0, 1.0)
            if spec["kind"] == "segment":
                m = mul2x2((1.0, spec["drifts"][1], 0.0, 1.0), mul2x2(m, (1.0, spec["drifts"][0], 0.0, 1.0)))
            a_, b_, c_, d_ = m
            def law(m_):
                a1, b1, c1, d1 = m_
                return a1 * a1 * Bi - 2 * a1 * b1 * Ai + b1 * b1 * Gi, -a1 * c1 * Bi + (a1 * d1 + b1 * c1) * Ai - b1 * d1 * Gi
            wantB, wantA = law(m)
            scaleB = a_ * a_ * Bi + abs(2 * a_ * b_ * Ai) + b_ * b_ * Gi
            scaleA = abs(a_ * c_ * Bi) + abs((a_ * d_ + b_ * c_) * Ai) + abs(b_ * d_ * Gi) + 1
            slackB = slackA = 0.0
            if spec["kind"] != "drift" and spec["k1"][i] == 0.0:
                # base_rmatrix documents that an exactly zero strength is tracked as k1 = 1e-12 ("avoid division by zero"): a drift up to
                # that strength -- the difference of the two laws (large beta functions make it exceed the rounding level) is allowed
                m12 = plane_block(sign * 1e-12, spec["length"][i])
                if spec["kind"] == "segment":
                    m12 = mul2x2((1.0, spec["drifts"][1], 0.0, 1.0), mul2x2(m12, (1.0, spec["drifts"][0], 0.0, 1.0)))
                wB2, wA2 = law(m12)
                slackB, slackA = 2 * abs(wB2 - wantB), 2 * abs(wA2 - wantA)
            gotB, gotA, gotE = (obs[pl][k][i % len(obs[pl][k])] for k in ("beta", "alpha", "eps"))
            kap = (1 + Ai * Ai + wantA * wantA) * (1 + s * s * sp * sp / D)
            tag = f"entry {i} (k1={spec['k1'][i]!r}, L={spec['length'][i]!r}) {pl}:"
            if not abs(gotB - wantB) <= 1e-9 * kap * scaleB + slackB:
                diffs.append((tag + "beta vs matrix law of this entry", gotB, wantB))
            if not abs(gotA - wantA) <= 1e-9 * kap * scaleA + slackA:
                diffs.append((tag + "alpha vs matrix law of this entry", gotA, wantA))
            if not abs(gotE - Ei) <= 1e-9 * kap * scaleB / Bi * Ei:
                diffs.append((tag + "emittance not conserved", gotE, Ei))
            for nm, got, one in (("beta", gotB, float(to1["beta"])), ("alpha", gotA, float(to1["alpha"])), ("emittance", gotE, float(to1["eps"]))):
                sc = {"beta": scaleB, "alpha": scaleA, "emittance": Ei * scaleB / Bi}[nm]
                if not abs(got - one) <= 1e-9 * kap * sc:
                    diffs.append((tag + nm + " vs tracking this entry alone", got, one))
        if diffs:
            break
    return diffs


def shrink_transport_vec(spec):
    """drop batch entries while the failure persists"""
    import copy
    changed = True
    while changed and spec["B"] > 2:
        changed = False
        for j in range(spec["B"]):
            s2 = copy.deepcopy(spec)
            s2["B"] -= 1
            del s2["k1"][j], s2["length"][j]
            if len(s2["beam"]) > 1:
                del s2["beam"][j]
            if s2.get("survival"):
                del s2["survival"][j]
            try:
                if check_transport_vec(s2):
                    spec, changed = s2, True
                    break
            except Exception:
                pass
    return spec


def transport_vec_oracle(run, n, impl_bad):
    found = []
    for _ in range(n):
        spec = gen_transport_vec(run.rng)
        run.add_case(["transport_vec", spec], True)
        run.count("transport_vec_" + spec["kind"] + "_" + spec["beam_type"])
        run.count("transport_vec_k1_" + spec["k1_mode"])
        if spec["length_vectorised"]:
            run.count("transport_vec_lengths_vectorised")
        diffs = check_transport_vec(spec)
        if diffs:
            found.append(spec)
    for spec in found[:1]:
        spec = shrink_transport_vec(spec)
        impl_bad.append({"kind": "transport_vectorised", "spec": spec, "diffs": check_transport_vec(spec)[:6],
                         "claim": "Twiss parameters transport through drifts / upright quadrupoles by the standard matrix law in every entry of a "
                                  "vectorised setting (instantiation of C17_twiss_transport per entry)"})


# ---------------------------------------------------------------- survival-WEIGHTED statistics: all six mu_*, all six sigma_*, both covariances
COORDS = ["x", "px", "y", "py", "tau", "p"]
MU = ["mu_" + c for c in COORDS]
SIG = ["sigma_" + c for c in COORDS]
COVS = {"sigma_xpx": (0, 1), "sigma_ypy": (2, 3)}


def exact_stats6(rows, w):
    """exact rational weighted statistics of all six coordinates of the stored rows; None when undefined (W = 0 or correction factor <= 0)"""
    from fractions import Fraction as Fr
    w = [Fr(v) for v in w]
    W = sum(w)
    if W <= 0:
        return None
    cf = W - sum(v * v for v in w) / W
    if cf <= 0:
        return None
    cols = [[Fr(r[j]) for r in rows] for j in range(6)]
    mean = [sum(a * b for a, b in zip(col, w)) / W for col in cols]

    def cv(i, j):
        return sum(c * (a - mean[i]) * (b - mean[j]) for a, b, c in zip(cols[i], cols[j], w)) / cf
    ex = {"W": W, "cf": cf, "mean": mean, "var": [cv(j, j) for j in range(6)], "cov": {k: cv(*ij) for k, ij in COVS.items()},
          "max": [max(abs(v) for v in col) for col in cols]}
    if all(v in (0, 1) for v in w):
        # the literal statement "lost particles are absent": ordinary unbiased sample statistics of the survivors
        keep = [k for k, v in enumerate(w) if v == 1]
        m = len(keep)
        om = [sum(col[k] for k in keep) / m for col in cols]
        ex["deleted"] = {"mean": om, "var": [sum((col[k] - om[j]) ** 2 for k in keep) / (m - 1) for j, col in enumerate(cols)],
                         "cov": {nm: sum((cols[i][k] - om[i]) * (cols[j][k] - om[j]) for k in keep) / (m - 1) for nm, (i, j) in COVS.items()}}
    return ex


def stats6_tolerances(ex, n, eps):
    """rounding bounds of the two-pass formulas (see offaxis_tolerances), x 4"""
    u = eps * (n / 2 + 4)
    q = float(ex["W"] / ex["cf"])
    t = {"mean": [4 * u * float(m) + 1e-300 for m in ex["max"]], "sig": [], "r": []}
    for j in range(6):
        s = math.sqrt(float(ex["var"][j]))
        r = 3 * u + q * (u * float(ex["max"][j]) / s) ** 2 if s > 0 else float("inf")
        t["r"].append(r)
        t["sig"].append(4 * s * r + 1e-300)
    t["cov"] = {nm: 4 * math.sqrt(float(ex["var"][i]) * float(ex["var"][j])) * (3 * u + q * u * u * float(ex["max"][i]) * float(ex["max"][j])
                                                                                   / max(math.sqrt(float(ex["var"][i]) * float(ex["var"][j])), 1e-300)) + 1e-300
                for nm, (i, j) in COVS.items()}
    return t


def build_w6(rows, w, dtype="float64"):
    import cheetah
    dt = DTYPES[dtype]
    t = lambda v: torch.tensor(v, dtype=dt)  # noqa: E731
    n = len(rows[0]) if isinstance(rows[0][0], list) else len(rows)
    return cheetah.ParticleBeam(t(rows), t(1e8), particle_charges=t([2.0 ** -40] * n), survival_probabilities=t(w), dtype=dt)


def getters6(b):
    out = {}
    for nm in MU + SIG + list(COVS):
        out[nm] = flat(getattr(b, nm))
    return out


def entries6(b):
    """[(stored rows, stored weights)] per batch entry of a beam"""
    P, S = b.particles.double(), b.survival_probabilities.double()
    bs = tuple(torch.broadcast_shapes(P.shape[:-2], S.shape[:-1]))
    P, S = torch.broadcast_to(P, bs + P.shape[-2:]).reshape(-1, *P.shape[-2:]), torch.broadcast_to(S, bs + S.shape[-1:]).reshape(-1, S.shape[-1])
    return [(P[k].tolist(), S[k].tolist()) for k in range(P.shape[0])]


def against_exact6(b, dtype, tag):
    """every getter of every batch entry vs the exact weighted statistics of the stored coordinates and weights of that entry"""
    diffs = []
    eps = float(torch.finfo(DTYPES[dtype]).eps)
    try:
        obs = getters6(b)
    except Exception as ex:
        return [(tag + "a statistics getter raised", repr(ex)[:300])], None
    ents = entries6(b)
    exs = []
    for e, (rows, w) in enumerate(ents):
        ex = exact_stats6(rows, w)
        exs.append(ex)
        if ex is None:
            continue
        t = stats6_tolerances(ex, len(rows), eps)
        et = tag + (f"entry {e}:" if len(ents) > 1 else "")
        for j, c in enumerate(COORDS):
            for nm, got, want, tol in (("mu_" + c, obs["mu_" + c], float(ex["mean"][j]), t["mean"][j]),
                                       ("sigma_" + c, obs["sigma_" + c], math.sqrt(float(ex["var"][j])), t["sig"][j])):
                if len(got) != len(ents):
                    diffs.append((et + nm + " has %d entries, the beam %d" % (len(got), len(ents)),))
                elif not abs(got[e] - want) <= tol:
                    diffs.append((et + nm + " vs exact survival-weighted statistic", got[e], want, tol))
                if "deleted" in ex and len(got) == len(ents):
                    w2 = float(ex["deleted"]["mean"][j]) if nm.startswith("mu") else math.sqrt(float(ex["deleted"]["var"][j]))
                    if not abs(got[e] - w2) <= tol:
                        diffs.append((et + nm + " vs ordinary sample statistic of the beam with the lost particles deleted", got[e], w2, tol))
        for nm in COVS:
            got = obs[nm]
            if len(got) != len(ents):
                diffs.append((et + nm + " has %d entries, the beam %d" % (len(got), len(ents)),))
                continue
            if not abs(got[e] - float(ex["cov"][nm])) <= t["cov"][nm]:
                diffs.append((et + nm + " vs exact survival-weighted covariance", got[e], float(ex["cov"][nm]), t["cov"][nm]))
            if "deleted" in ex and not abs(got[e] - float(ex["deleted"]["cov"][nm])) <= t["cov"][nm]:
                diffs.append((et + nm + " vs sample covariance with the lost particles deleted", got[e], float(ex["deleted"]["cov"][nm]), t["cov"][nm]))
    return diffs, (obs, ents, exs)


def check_weighted6(spec):
    """all statistics clauses on a beam with non-trivial survival probabilities (0/1 mask, fractional, vectorised masks):
    every getter vs the exact rational reference; translation / scaling of EACH coordinate; permutation; the Twiss identity."""
    from fractions import Fraction as Fr
    dtype = spec["dtype"]
    dt = DTYPES[dtype]
    eps = float(torch.finfo(dt).eps)
    try:
        b0 = build_w6(spec["rows"], spec["survival"], dtype)
    except Exception as ex:
        return [("constructing the beam raised", repr(ex)[:300])]
    diffs, info = against_exact6(b0, dtype, "")
    if diffs or info is None:
        return diffs
    obs0, ents0, exs0 = info
    if any(ex is None for ex in exs0):
        return diffs
    tol0 = [stats6_tolerances(ex, len(r), eps) for ex, (r, _w) in zip(exs0, ents0)]
    bad_id = identity_oracle(b0, unit=1e-12 if dtype == "float64" else 2e-6)
    if bad_id:
        diffs.append(("Twiss identity on a beam with survival weights", bad_id))
    for j, c in enumerate(COORDS):
        a, k = spec["shift"][j], spec["scale"][j]
        for what in ("shift", "scale"):
            b1 = b0.clone()
            col = getattr(b1, c)
            setattr(b1, c, col + torch.tensor(a, dtype=dt) if what == "shift" else col * torch.tensor(k, dtype=dt))
            d1, info1 = against_exact6(b1, dtype, f"{c} {what}ed:")
            if d1 or info1 is None:
                diffs += d1
                continue
            obs1, ents1, exs1 = info1
            for e, (ex0, ex1) in enumerate(zip(exs0, exs1)):
                if ex1 is None:
                    continue
                t0, t1 = tol0[e], stats6_tolerances(ex1, len(ents1[e][0]), eps)
                af, kf = Fr(float(torch.tensor(a, dtype=dt))), Fr(float(torch.tensor(k, dtype=dt)))
                # exactly measured rounding of the stored transformed coordinates
                dmax = float(max(abs(Fr(r1[j]) - (Fr(r0[j]) + af if what == "shift" else Fr(r0[j]) * kf)) for r0, r1 in zip(ents0[e][0], ents1[e][0])))
                qq = math.sqrt(float(ex0["W"] / ex0["cf"]))
                mu0, sg0 = obs0["mu_" + c][e], obs0["sigma_" + c][e]
                mu1, sg1 = obs1["mu_" + c][e], obs1["sigma_" + c][e]
                wm, ws = (mu0 + float(af), sg0) if what == "shift" else (mu0 * float(kf), sg0 * abs(float(kf)))
                f = 1.0 if what == "shift" else abs(float(kf))
                if not abs(mu1 - wm) <= f * t0["mean"][j] + t1["mean"][j] + dmax + eps * abs(wm):
                    diffs.append((f"entry {e}: mu_{c} after {what} of {c}", mu1, wm))
                if not abs(sg1 - ws) <= f * t0["sig"][j] + t1["sig"][j] + 2 * qq * dmax:
                    diffs.append((f"entry {e}: sigma_{c} after {what} of {c}", sg1, ws))
                for nm, (i1, i2) in COVS.items():
                    if j not in (i1, i2):
                        if obs1[nm][e] != obs0[nm][e]:
                            diffs.append((f"entry {e}: {nm} changed by a {what} of {c}", obs1[nm][e], obs0[nm][e]))
                        continue
                    other = i2 if j == i1 else i1
                    wc = obs0[nm][e] if what == "shift" else obs0[nm][e] * float(kf)
                    if not abs(obs1[nm][e] - wc) <= f * t0["cov"][nm] + t1["cov"][nm] + 2 * qq * dmax * math.sqrt(float(ex0["var"][other])):
                        diffs.append((f"entry {e}: {nm} after {what} of {c}", obs1[nm][e], wc))
                for c2 in COORDS:
                    if c2 != c and (obs1["mu_" + c2][e] != obs0["mu_" + c2][e] or obs1["sigma_" + c2][e] != obs0["sigma_" + c2][e]):
                        diffs.append((f"entry {e}: mu_{c2} / sigma_{c2} changed by a {what} of {c}",))
    # permutation of the particles (coordinates and weights together)
    perm = spec["perm"]
    vec_rows = isinstance(spec["rows"][0][0], list)
    vec_w = isinstance(spec["survival"][0], list)
    rows_p = [[r[k] for k in perm] for r in spec["rows"]] if vec_rows else [spec["rows"][k] for k in perm]
    w_p = [[r[k] for k in perm] for r in spec["survival"]] if vec_w else [spec["survival"][k] for k in perm]
    try:
        obs2 = getters6(build_w6(rows_p, w_p, dtype))
        for e in range(len(ents0)):
            t = tol0[e]
            for j, c in enumerate(COORDS):
                if not abs(obs2["mu_" + c][e] - obs0["mu_" + c][e]) <= 2 * t["mean"][j] or not abs(obs2["sigma_" + c][e] - obs0["sigma_" + c][e]) <= 2 * t["sig"][j]:
                    diffs.append((f"entry {e}: mu_{c} / sigma_{c} changed by reordering the particles", obs2["mu_" + c][e], obs0["mu_" + c][e]))
            for nm in COVS:
                if not abs(obs2[nm][e] - obs0[nm][e]) <= 2 * t["cov"][nm]:
                    diffs.append((f"entry {e}: {nm} changed by reordering the particles", obs2[nm][e], obs0[nm][e]))
    except Exception as ex:
        diffs.append(("permuted beam raised", repr(ex)[:300]))
    return diffs


def gen_weight_row6(rng, n, pattern):
    while True:
        if pattern == "mask01":
            w = [rng.choice([1.0, 1.0, 0.0]) for _ in range(n)]
        elif pattern == "fractional":
            w = [rng.choice([1.0, 0.5, 0.25, 0.75, 0.125]) for _ in range(n)]
        else:
            w = [rng.choice([1.0, 1.0, 0.5, 0.25, 0.0, 0.0]) for _ in range(n)]
        W = sum(w)
        if W > 0 and W - sum(v * v for v in w) / W >= 1.0 and any(v != 1.0 for v in w):
            return w


def gen_weighted6(rng):
    dtype = rng.choice(["float64", "float64", "float32"])
    n = rng.choice([4, 5, 6, 8, 12])
    scales = [rng.choice([1e-4, 1e-3]), rng.choice([1e-5, 1e-4]), rng.choice([1e-4, 3e-4]), rng.choice([1e-5, 2e-4]), rng.choice([1e-4, 1e-3]), rng.choice([1e-4, 1e-3])]
    offs = [rng.choice([0.0, 1.0, -2.0]) * s for s in scales]

    def rows():
        out = []
        for _ in range(n):
            g = [rng.gauss(0, 1) for _ in range(6)]
            g[1] += 0.7 * g[0]
            g[3] -= 0.5 * g[2]
            out.append([offs[j] + scales[j] * g[j] for j in range(6)] + [1.0])
        return out
    layout = rng.choice(["scalar", "scalar", "vector_mask", "vector_mask", "vector_full"])
    pat = lambda: rng.choice(["mask01", "mask01", "fractional", "mixed"])  # noqa: E731
    if layout == "scalar":
        R, W = rows(), gen_weight_row6(rng, n, pat())
    elif layout == "vector_mask":
        B = rng.choice([2, 3])
        R, W = rows(), [gen_weight_row6(rng, n, pat()) for _ in range(B)]
    else:
        B = rng.choice([2, 3])
        R, W = [rows() for _ in range(B)], [gen_weight_row6(rng, n, pat()) for _ in range(B)]
    dt = DTYPES[dtype]
    R = torch.tensor(R, dtype=dt).double().tolist()
    perm = list(range(n))
    rng.shuffle(perm)
    return {"dtype": dtype, "layout": layout, "rows": R, "survival": W, "perm": perm,
            "shift": [rng.choice([1.0, -3.0, 7.0]) * s for s in scales], "scale": [rng.choice([-2.0, 0.5, 4.0, -0.25]) for _ in range(6)]}


def weighted6_oracle(run, n, impl_bad):
    found = []
    for _ in range(n):
        spec = gen_weighted6(run.rng)
        run.add_case(["weighted6", spec], True)
        run.count("weighted6_" + spec["layout"] + "_" + spec["dtype"])
        flatw = [v for r in (spec["survival"] if isinstance(spec["survival"][0], list) else [spec["survival"]]) for v in r]
        run.count("weighted6_with_lost_particles" if 0.0 in flatw else "weighted6_all_alive")
        run.count("weighted6_with_fractional_survival" if any(0 < v < 1 for v in flatw) else "weighted6_01_only")
        diffs = check_weighted6(spec)
        if diffs:
            found.append({"kind": "weighted_statistics", "spec": spec, "diffs": diffs[:8],
                          "claim": "all six mu_*, all six sigma_* and both covariances are the survival-weighted statistics (lost particles absent), "
                                   "translate / scale with each coordinate and are invariant under reordering, on beams with 0/1, fractional and "
                                   "vectorised survival probabilities"})
    impl_bad.extend(sorted(found, key=lambda f: len(json.dumps(f["spec"]))))


# ---------------------------------------------------------------- every constructor, vectorised along SEVERAL dimensions
# A constructor that builds all vector elements at once must give element [i, j, ..] the particles / moments made from the
# parameters of THAT element.  Square scans, parameters constant along a dimension and 1-D scans hide a relabelling of the
# vector elements (a transpose instead of a movedim): shapes here are non-square and every parameter value is distinct.
VC_W = [0.5, 0.2, 0.09]                       # element [i, j, k] scales a base value by 1 + 0.5 i + 0.2 j + 0.09 k (pairwise distinct)
VC_BASE = {"mu_x": 2e-4, "mu_px": -3e-5, "mu_y": -1e-4, "mu_py": 2e-5, "sigma_x": 1.5e-4, "sigma_px": 2e-5, "sigma_y": 2.5e-4, "sigma_py": 1e-5,
           "sigma_tau": 3e-5, "sigma_p": 1.2e-3, "cor_x": 1e-9, "cor_y": -8e-10, "cor_tau": 1e-8, "energy": 1e8, "total_charge": 1e-10,
           "beta_x": 2.0, "alpha_x": -0.6, "emittance_x": 2e-9, "beta_y": 5.0, "alpha_y": 0.8, "emittance_y": 3e-8,
           "radius_x": 1e-3, "radius_y": 2e-3, "radius_tau": 5e-4}
VC_MOMENTS = ["mu_x", "mu_px", "mu_y", "mu_py", "sigma_x", "sigma_px", "sigma_y", "sigma_py", "sigma_tau", "sigma_p"]
VC_TWISS = ["beta_x", "alpha_x", "emittance_x", "beta_y", "alpha_y", "emittance_y"]
VC_CTORS = {
    # name: (beam type, parameters given, random?, particles)
    "particle.from_parameters": ("particle", VC_MOMENTS + ["cor_x", "cor_y", "energy", "total_charge"], True, 20000),
    "particle.from_twiss": ("particle", VC_TWISS + ["sigma_tau", "sigma_p", "energy", "total_charge"], True, 20000),
    "particle.uniform_3d_ellipsoid": ("particle", ["radius_x", "radius_y", "radius_tau", "sigma_px", "sigma_py", "sigma_p"], True, 20000),
    "particle.make_linspaced": ("particle", VC_MOMENTS + ["energy", "total_charge"], False, 11),
    "particle.transformed_to": ("particle", VC_MOMENTS + ["energy", "total_charge"], False, 40),
    "particle.from_xyz_pxpypz": ("particle", ["sigma_x", "sigma_px", "mu_y", "energy"], False, 12),
    "parameter.from_parameters": ("parameter", VC_MOMENTS + ["cor_x", "cor_y", "cor_tau", "energy", "total_charge"], False, 0),
    "parameter.from_twiss": ("parameter", VC_TWISS + ["sigma_tau", "sigma_p", "energy", "total_charge"], False, 0),
    "parameter.transformed_to": ("parameter", VC_MOMENTS + ["energy", "total_charge"], False, 0),
}
VC_SAME_SHAPE = {"particle.uniform_3d_ellipsoid"}          # documented: all given parameters must have the same shape


def vc_values(name, sub, full):
    """nested list of shape `sub` (right-aligned sub-shape of `full`: some dimensions 1 or dropped) for parameter `name`"""
    off = len(full) - len(sub)

    def val(idx):
        f = 1.0 + sum(VC_W[off + d] * i for d, i in enumerate(idx) if sub[d] > 1)
        b = VC_BASE[name]
        return b + 0.45 * (f - 1.0) if name.startswith("alpha") else b * f

    def build(d, idx):
        if d == len(sub):
            return val(idx)
        return [build(d + 1, idx + (i,)) for i in range(sub[d])]
    return build(0, ())


def gen_vc_spec(rng, ctor, shape, mode):
    """mode 'full': every parameter has the full vector shape; 'split': parameter k varies along dimension k mod ndim only (shapes like
    (A,1) against (B,)), so that only the BROADCAST of all of them has the full shape"""
    kind, names, random_, N = VC_CTORS[ctor]
    params, nd = {}, len(shape)
    for k, nm in enumerate(names):
        if mode == "full" or ctor in VC_SAME_SHAPE or nd == 1:
            sub = list(shape)
        else:
            d = k % nd
            sub = [shape[j] if j == d else 1 for j in range(nd)][d:]
        params[nm] = vc_values(nm, sub, list(shape))
    return {"ctor": ctor, "shape": list(shape), "mode": mode, "params": params, "seed": rng.randrange(2 ** 31), "N": N}


def vc_call(spec, index=None):
    """the constructor on the vectorised parameters (index None) or on the scalar parameters of element `index`"""
    import cheetah
    ctor, full = spec["ctor"], tuple(spec["shape"])
    kw = {}
    for nm, v in spec["params"].items():
        t = T(v)
        kw[nm] = t if index is None else t.broadcast_to(full)[index].clone()
    torch.manual_seed(spec["seed"] + (0 if index is None else 1 + sum(index)))
    N = spec["N"]
    if ctor == "particle.from_parameters":
        return cheetah.ParticleBeam.from_parameters(num_particles=N, **kw, dtype=DT)
    if ctor == "particle.from_twiss":
        return cheetah.ParticleBeam.from_twiss(num_particles=N, **kw, dtype=DT)
    if ctor == "particle.uniform_3d_ellipsoid":
        return cheetah.ParticleBeam.uniform_3d_ellipsoid(num_particles=N, **kw, dtype=DT)
    if ctor == "particle.make_linspaced":
        return cheetah.ParticleBeam.make_linspaced(num_particles=N, **kw, dtype=DT)
    if ctor == "parameter.from_parameters":
        return cheetah.ParameterBeam.from_parameters(**kw, dtype=DT)
    if ctor == "parameter.from_twiss":
        return cheetah.ParameterBeam.from_twiss(**kw, dtype=DT)
    g = torch.Generator().manual_seed(spec["seed"])
    if ctor == "parameter.transformed_to":
        base = cheetah.ParameterBeam.from_parameters(sigma_x=T(1e-4), sigma_px=T(3e-5), cor_x=T(1e-9), mu_x=T(1e-5), energy=T(5e7), dtype=DT)
        return base.transformed_to(**kw)
    if ctor == "particle.transformed_to":
        ps = torch.randn(N, 7, generator=g, dtype=DT) * T([1e-4, 2e-5, 3e-4, 1e-5, 2e-5, 1e-3, 0.0])
        ps[:, 6] = 1.0
        base = cheetah.ParticleBeam(ps, T(5e7), particle_charges=torch.full((N,), 1e-12, dtype=DT), dtype=DT)
        return base.transformed_to(**kw)
    if ctor == "particle.from_xyz_pxpypz":
        # SI coordinates of a vectorised cloud (element [i, j] scaled by its own sigma_x / sigma_px / offset mu_y), energies per element
        z = torch.randn(N, 7, generator=g, dtype=DT)
        sx, spx, my, en = (T(spec["params"][k]).broadcast_to(full) for k in ("sigma_x", "sigma_px", "mu_y", "energy"))
        ps = torch.ones(*full, N, 7, dtype=DT)
        ps[..., 0] = z[:, 0] * sx.unsqueeze(-1)
        ps[..., 1] = z[:, 1] * spx.unsqueeze(-1)
        ps[..., 2] = z[:, 2] * 1e-4 + my.unsqueeze(-1)
        ps[..., 3] = z[:, 3] * 1e-5
        ps[..., 4] = z[:, 4] * 1e-5
        ps[..., 5] = z[:, 5] * 1e-3
        src = cheetah.ParticleBeam(ps, en, dtype=DT)
        xyz = src.to_xyz_pxpypz()
        if index is None:
            return cheetah.ParticleBeam.from_xyz_pxpypz(xyz, T(spec["params"]["energy"]), dtype=DT), src
        return cheetah.ParticleBeam.from_xyz_pxpypz(xyz[index].clone(), en[index].clone(), dtype=DT), src
    raise ValueError(ctor)


def vc_expected(spec, index):
    """requested value of every reported quantity for element `index`: {getter: (value, kind, aux)}"""
    full = tuple(spec["shape"])
    p = {k: float(T(v).broadcast_to(full)[index]) for k, v in spec["params"].items()}
    ctor, out = spec["ctor"], {}
    if ctor.endswith("from_twiss"):
        for pl in "xy":
            a = p["alpha_" + pl]
            out["beta_" + pl] = (p["beta_" + pl], "twiss", a)
            out["alpha_" + pl] = (a, "twiss_alpha", a)
            out["emittance_" + pl] = (p["emittance_" + pl], "twiss", a)
        for k in ("sigma_tau", "sigma_p"):
            out[k] = (p[k], "sigma", None)
    elif ctor.endswith("uniform_3d_ellipsoid"):
        for c in ("x", "y", "tau"):
            out["sigma_" + c] = (p["radius_" + c] / math.sqrt(5.0), "sigma", None)
        for k in ("sigma_px", "sigma_py", "sigma_p"):
            out[k] = (p[k], "sigma", None)
    elif ctor.endswith("make_linspaced"):
        n = spec["N"]
        for k in VC_MOMENTS:
            out[k] = (p[k] * (math.sqrt(n * (n + 1) / 3.0) / (n - 1) if k.startswith("sigma") else 1.0), "sigma" if k.startswith("sigma") else "mean", None)
    elif ctor.endswith("from_xyz_pxpypz"):
        pass
    else:
        for k in VC_MOMENTS:
            if k in p:
                out[k] = (p[k], "sigma" if k.startswith("sigma") else "mean", p.get("sigma_" + k[3:]))
        if "cor_x" in p:
            out["sigma_xpx"] = (p["cor_x"], "cov", p["sigma_x"] * p["sigma_px"])
            out["sigma_ypy"] = (p["cor_y"], "cov", p["sigma_y"] * p["sigma_py"])
    for k in ("energy", "total_charge"):
        if k in p:
            out[k] = (p[k], "exact", None)
    return out


def vc_tol(kind, want, aux, N, random_):
    if kind == "exact" or not random_:
        return 1e-9 * abs(want) + (1e-9 * abs(aux) if kind in ("mean", "cov") and aux else 0.0) + 1e-300
    sd = math.sqrt(2.0 / N)
    if kind == "mean":
        return 6 * aux / math.sqrt(N)
    if kind == "sigma":
        return 5 * sd * abs(want)
    if kind == "cov":
        return 5 * sd * (abs(aux) + abs(want))
    if kind == "twiss":
        return 5 * sd * (1 + abs(aux)) * 2 * abs(want)
    if kind == "twiss_alpha":
        return 5 * sd * (1 + abs(aux)) * 2 * (1 + abs(aux))
    raise ValueError(kind)


def check_vector_ctor(spec):
    """Returns the list of failures for one vectorised constructor call."""
    import itertools
    kind, names, random_, N = VC_CTORS[spec["ctor"]]
    full = tuple(spec["shape"])
    try:
        b = vc_call(spec)
    except Exception as ex:
        return [{"what": "the vectorised call raised", "error": f"{type(ex).__name__}: {ex}"[:300]}]
    src = None
    if isinstance(b, tuple):
        b, src = b
    bad = []
    got_shape = tuple(b.particles.shape[:-2]) if kind == "particle" else tuple(torch.broadcast_shapes(b._mu.shape[:-1], b._cov.shape[:-2]))
    if got_shape != full:
        return [{"what": f"vector shape of the beam is {got_shape}, the parameters broadcast to {full}"}]
    cache = {}

    def reported(g):
        if g not in cache:
            cache[g] = torch.as_tensor(getattr(b, g)).broadcast_to(full)
        return cache[g]
    for index in itertools.product(*[range(n) for n in full]):
        for g, (want, knd, aux) in vc_expected(spec, index).items():
            got = float(reported(g)[index])
            tol = vc_tol(knd, want, aux, N, random_)
            if not abs(got - want) <= tol:
                bad.append({"element": list(index), "getter": g, "reported": got, "requested_for_this_element": want, "tolerance": tol})
        if bad:
            break
        # ... and the same constructor on the scalar parameters of this element
        try:
            e = vc_call(spec, index)
        except Exception as ex:
            bad.append({"element": list(index), "what": "the scalar call for this element raised", "error": f"{type(ex).__name__}: {ex}"[:200]})
            break
        if isinstance(e, tuple):
            e = e[0]
        if not random_:
            pairs = [("particles", b.particles[index], e.particles)] if kind == "particle" else [("_mu", b._mu.broadcast_to(full + (7,))[index], e._mu), ("_cov", b._cov.broadcast_to(full + (7, 7))[index], e._cov)]
            if src is not None:
                pairs.append(("particles vs the beam the SI coordinates came from", b.particles[index], src.particles[index]))
            pairs.append(("energy", b.energy.broadcast_to(full)[index], e.energy))
            for nm, x, y in pairs:
                rt = 1e-6 if nm.startswith("particles vs") else 1e-11
                if x.shape != y.shape or not float((x - y).abs().max()) <= rt * max(float(y.abs().max()), 1e-300):
                    bad.append({"element": list(index), "buffer": nm, "max_abs_difference_from_the_scalar_call":
                                None if x.shape != y.shape else float((x - y).abs().max()), "scale": float(y.abs().max())})
        else:
            for g, (want, knd, aux) in vc_expected(spec, index).items():
                got = float(reported(g)[index])
                ref = float(getattr(e, g))
                tol = 1.5 * vc_tol(knd, want, aux, N, random_)
                if not abs(got - ref) <= tol:
                    bad.append({"element": list(index), "getter": g, "reported": got, "scalar_call_reports": ref, "tolerance": tol})
        if bad:
            break
    return bad


def vector_ctor_oracle(run, n_rounds, impl_bad):
    for r in range(n_rounds):
        dims = run.rng.sample([2, 3, 4], 3)
        A, B, C = dims
        for ctor in VC_CTORS:
            for shape in ((A,), (A, B), (A, 1), (1, B), (A, B, C) if r % 2 == 0 else (C, A, B)):
                for mode in ("full", "split"):
                    if mode == "split" and (len(shape) == 1 or ctor in VC_SAME_SHAPE or 1 in shape):
                        continue
                    spec = gen_vc_spec(run.rng, ctor, shape, mode)
                    run.add_case(["vector_ctor", spec], len([n for n in shape if n > 1]) >= 2)
                    run.count("vector_ctor_" + ctor)
                    run.count("vector_ctor_ndim_%d_%s" % (len(shape), mode))
                    bad = check_vector_ctor(spec)
                    if bad:
                        impl_bad.append({"kind": "vector_constructor", "spec": spec, "diffs": bad[:6]})


def degenerate_note(run):
    """F19: a perfectly correlated beam is clamped; the identity does not hold there (scoped by hypothesis, not a finding line)"""
    import cheetah
    cov = torch.zeros(7, 7, dtype=DT)
    cov[0, 0], cov[0, 1], cov[1, 0], cov[1, 1] = 1e-6, 1e-6, 1e-6, 1e-6
    cov[2, 2], cov[3, 3] = 1e-8, 1e-8
    b = cheetah.ParameterBeam(T([0, 0, 0, 0, 0, 0, 1.0]), cov, T(1e8), dtype=DT)
    try:
        val = float(b.beta_x * (b.sigma_px ** 2 / b.emittance_x) - b.alpha_x ** 2)     # tensor arithmetic: inf/nan instead of OverflowError
    except Exception as ex:
        val = "exception " + repr(ex)[:120]
    run.cov["degenerate_beam_identity_value"] = val
    run.notes.append(F19_NOTE + f"; observed beta*gamma-alpha^2 = {val!r} for a perfectly correlated ParameterBeam")


def main(tier, replay=None):
    run = common.Run(PID, tier)
    common.setup_python_env()
    thorough = tier == "thorough"
    run.cov["rule"] = ("random non-degenerate covariance blocks (sizes 1e-7..3e-3, correlations up to 0.99, cross-plane coupling, scalar and vectorised "
                       "ParameterBeams) and 3-6 particle sets with survival-weight patterns (all 1 / fractional / lost): Twiss getters, sigma/mu getters and "
                       "from_twiss covariance entries of the real code vs the Coq model via interval (tolerance 1e-12 x condition number of D); plus "
                       "implementation-only oracles: identities, from_twiss round trip, permutation/shift/scale/ones, transport through Drift/Quadrupole, "
                       "ParticleBeam.from_twiss within 5 sigma; zero-emittance (clamped) beams of all constructors in float32/float64 for the clauses claimed for every "
                       "beam (numbers, emittance >= 0, beta > 0); float32/float64 particle beams 30..1e7 sigma off axis vs exact rational statistics; "
                       "VECTORISED transport (quadrupole / drift / drift-quadrupole-drift segment with vectorised k1 -- scans through an exact zero, mixed signs -- "
                       "vectorised lengths and vectorised incoming beams of both types, also with survival weights): every batch entry vs the matrix law of its "
                       "own textbook block and vs tracking the entry alone; survival-WEIGHTED statistics (0/1 masks, fractional, vectorised masks, float32/64): "
                       "all six mu_*, all six sigma_*, both covariances vs the exact rational reference (and vs the ordinary statistics of the beam with the lost "
                       "particles deleted), translation and scaling of each coordinate, permutation, Twiss identity; from_twiss particle beams with random "
                       "survival.  EVERY CONSTRUCTOR VECTORISED ALONG SEVERAL DIMENSIONS (ParticleBeam.from_parameters / from_twiss / uniform_3d_ellipsoid / "
                       "make_linspaced / transformed_to / from_xyz_pxpypz, ParameterBeam.from_parameters / from_twiss / transformed_to) with vector shapes (A,), "
                       "(A,B), (A,1), (1,B), (A,B,C), A, B, C pairwise different, every parameter value distinct per element, parameters of full shape or "
                       "each varying along ONE dimension only ((A,1) against (B,)): every element's reported moments / Twiss parameters / energy / charge vs the "
                       "values requested for THAT element (5-6 sigma of the sampling error for the random constructors, 1e-9 for the deterministic ones) and vs "
                       "the same constructor called with that element's scalar parameters (buffers at 1e-11 for deterministic constructors, statistically "
                       "otherwise). Distinct by content.")
    if replay:
        return do_replay(run, replay)
    proof_ok = run.proof_stage()
    # second tie: the beam statistics / Twiss getters / aperture mask are re-translated from REPO's source and proved equal to the
    # hand-written models (Gen/StatsGenEquiv.v)
    import translate_stage
    tr_stats = translate_stage.translator_obligation_stats(run)
    if tr_stats["status"] != "ok":
        run.notes.append("translator obligation (stats): " + json.dumps(translate_stage.replay_fields_stats(tr_stats))[:600])
    if not proof_ok:
        run.notes.append(run.proof_problem)
    ok_aux, log = common.coq_build("theories/Beam/TwCorr.vo")
    if not ok_aux:
        proof_ok = False
        run.proof_problem = "coq build of Beam/TwCorr.v failed: " + log[-1200:]
        run.notes.append(run.proof_problem)
    goals, meta, impl_bad = [], [], []
    del NONFINITE_OBS[:]
    stage_errors = []

    def stage(name, fn, *args):
        """an exception escaping a stage (raised by the implementation, or by arithmetic on a value it returned) is an observation"""
        try:
            fn(*args)
        except Exception as ex:
            import traceback
            stage_errors.append({"kind": "exception", "stage": name, "error": repr(ex)[:300], "traceback": traceback.format_exc()[-1500:]})
    stage("param_goals", param_goals, run, 60 if thorough else 6, goals, meta, impl_bad)
    stage("part_goals", part_goals, run, 60 if thorough else 6, goals, meta, impl_bad)
    stage("from_twiss_goals", from_twiss_goals, run, 100 if thorough else 8, goals, meta, impl_bad)
    stage("from_twiss_statistical", from_twiss_statistical, run, 12 if thorough else 3, impl_bad)
    stage("wstats_oracle", wstats_oracle, run, 400 if thorough else 60, impl_bad)
    stage("transport_oracle", transport_oracle, run, 400 if thorough else 60, impl_bad)

    # identities on many more beams (oracle only)
    def more_identities():
        for i in range(2000 if thorough else 200):
            b, E = gen_param_beam(run.rng, run.rng.choice([None, 3]))
            run.add_case(["identity", b._cov.tolist()], True)
            run.count("identity_oracle_param")
            bad = identity_oracle(b)
            if bad:
                impl_bad.append({"kind": "param_identity", "mu": b._mu.tolist(), "cov": b._cov.tolist(), "energy": E, "diffs": bad})
    stage("identity_oracle", more_identities)
    # (run after the older stages so that those see the same random stream as before)
    stage("degenerate_oracle", degenerate_oracle, run, 400 if thorough else 40, impl_bad)
    stage("offaxis_oracle", offaxis_oracle, run, 400 if thorough else 40, impl_bad)
    stage("transport_vec_oracle", transport_vec_oracle, run, 1500 if thorough else 150, impl_bad)
    stage("weighted6_oracle", weighted6_oracle, run, 1200 if thorough else 120, impl_bad)
    stage("vector_ctor_oracle", vector_ctor_oracle, run, 6 if thorough else 1, impl_bad)
    stage("degenerate_note", degenerate_note, run)
    failing, errs = common.run_real_goals(PID, "twiss", PRE, goals, shard=10)
    run.cov["traces_validated_against_impl"] += len(goals)
    run.cov["tested_only"] = ["ParticleBeam.from_twiss agrees with the requested Twiss parameters statistically (5 sigma of the sampling error, N=20000)",
                              "Twiss transport of real Drift/Quadrupole elements (the 2x2 blocks come from the code; the law itself is proved)",
                              "permutation/shift/scale/ones of the ParticleBeam getters in float64 (the real-number statements are proved)",
                              "zero-emittance beams (make_linspaced / linspaced, two survivors, |correlation| = 1 ParameterBeams also after drift+quadrupole+"
                              "drift; float32 and float64, vectorised): emittance, beta, alpha are numbers, emittance >= 0, beta > 0 (not the Twiss identity: F19)",
                              "beams far off axis (offset 30..1e4 sigma in float32, 1e3..1e7 sigma in float64): getters vs the exact rational statistics of the "
                              "stored coordinates and translation invariance, tolerance = rounding bound of the two-pass formulas in the dtype",
                              "vectorised transport: per-entry matrix law with the textbook blocks (cos/sin, cosh/sinh, drift; an exactly zero strength may be "
                              "tracked as k1 = 1e-12, the documented guard of base_rmatrix) at 1e-9 x condition; the per-entry law itself is proved "
                              "(C17_twiss_transport_vectorised, C17_quad_block_det)",
                              "survival-weighted statistics of all coordinates vs exact rational arithmetic (tolerance: 4 x the rounding bound of the two-pass "
                              "formulas); the real-number statements are proved per coordinate (C17_stats_*_every_coordinate, C17_stats_lost_particles_absent); "
                              "mu/sigma of px, py, tau, p are also compared with the Coq model by interval"]
    run.cov["tested_only"].append("vectorised constructors: element-by-element agreement with the requested parameters and with the scalar call (the model is "
                                  "per element; that the implementation labels the vector elements correctly is tested, not modelled)")
    if NONFINITE_OBS and not impl_bad:
        impl_bad.append({"kind": "nonfinite_observation", "case": NONFINITE_OBS[0], "n": len(NONFINITE_OBS),
                         "diffs": "a Twiss / moment getter returned NaN or inf for a non-degenerate beam"})
    if impl_bad:
        run.violation(dict(impl_bad[0], relation="Twiss/moment consistency (C17) on the implementation"))
    elif stage_errors:
        run.violation(dict(stage_errors[0], relation="the implementation (or arithmetic on a value it returned) raised while the C17 oracles ran"),
                      no_input=True)
    elif failing:
        i = failing[0]
        run.violation({"kind": "correspondence", "broken": "Coq model (Beam/Twiss.v, Beam/WStats.v) disagrees with the implementation", "case": meta[i],
                       "goal": goals[i][0][:600], "error": errs.get(i, "")[-300:]}, no_input=True)
    elif tr_stats["status"] != "ok":
        # the source no longer translates to the proved model and none of this run's oracles found a failing input
        run.violation(translate_stage.replay_fields_stats(tr_stats), no_input=True)
    elif not proof_ok:
        run.violation({"kind": "proof", "broken": run.proof_problem}, no_input=True)
    return run.finish("proof")


def do_replay(run, path):
    import cheetah
    r = json.loads(open(path).read())
    kind = r.get("kind")
    bad = []
    if kind == "param_identity":
        b = cheetah.ParameterBeam(T(r["mu"]), T(r["cov"]), T(r["energy"]), dtype=DT)
        bad = identity_oracle(b)
    elif kind == "particle_identity":
        bad = identity_oracle(build_pb(r["particles"], r["survival"]))
    elif kind == "from_twiss_roundtrip":
        b = cheetah.ParameterBeam.from_twiss(beta_x=T(r["beta"]), alpha_x=T(r["alpha"]), emittance_x=T(r["eps"]), dtype=DT)
        for nm, want in (("beta_x", r["beta"]), ("alpha_x", r["alpha"]), ("emittance_x", r["eps"])):
            if abs(float(getattr(b, nm)) - want) > 1e-10 * (1 + r["alpha"] ** 2) * max(abs(want), 1e-300) + (1e-12 if want == 0 else 0):
                bad.append((nm, float(getattr(b, nm)), want))
    elif kind == "degenerate":
        bad = check_degenerate(r["spec"])
    elif kind == "offaxis_statistics":
        bad = check_offaxis(r["spec"])[0]
    elif kind == "transport_vectorised":
        bad = check_transport_vec(r["spec"])
    elif kind == "weighted_statistics":
        bad = check_weighted6(r["spec"])
    elif kind == "vector_constructor":
        bad = check_vector_ctor(r["spec"])
    else:
        print("replay: re-run the check to reproduce kind", kind)
        return 0
    print("replay:", "property holds on this input" if not bad else f"property FAILS on this input: {bad}")
    return 1 if bad else 0
