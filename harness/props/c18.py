"""C18 -- Coordinate conversions are mutually inverse and match the documented definitions.

proof stage      : Props/C18.v (models Bmadx/Coords.v, Beam/SI.v)
correspondence   : the real conversion functions (cheetah.utils.bmadx.cheetah_to_bmad_z_pz / bmad_to_cheetah_z_pz, the full-coordinate
                   wrappers cheetah_to_bmad_coords / bmad_to_cheetah_coords,
                   ParticleBeam.to_xyz_pxpypz / from_xyz_pxpypz / energies / momenta / p0c / relativistic_*) are called on
                   sampled particles in float64 and float32; inputs and observed outputs become exact dyadic literals and
                   `Rabs (model - observed) <= tol` is closed by `interval`.
oracle           : round trips and the documented definitions evaluated in 60-digit decimal arithmetic, directly on the
                   implementation; for the full-coordinate wrappers also: shapes, dtype preserved (float32 and float64), transverse
                   coordinates copied bit for bit, agreement with the *_z_pz helpers, vectorised == per sample, input not modified.
                   An exception raised by the implementation is an observation (a failing input), never a crash of the check.
"""
import json
import math
from decimal import Decimal, getcontext

import torch

import common
from common import dyadic

PID = "C18"
common.AXIOM_WHITELIST.add("Axioms")   # header line of back-to-back `Print Assumptions` blocks (common.parse_assumptions reads it as a name)
getcontext().prec = 60
PRE = """From Coq Require Import Reals Lra.
From Interval Require Import Tactic.
From Cheetah Require Import Bmadx.Coords Beam.SI Beam.SIProofs.
Open Scope R_scope."""
T_CB = "unfold cb_z, cb_pz, cb_beta, cb_p, cb_energy, cb_p0c, Rsqr; interval with (i_prec 80)."
T_BC = "unfold bc_tau, bc_delta, bc_beta, bc_energy, bc_p, bc_refE, Rsqr; interval with (i_prec 80)."
T_SI = ("unfold fr_delta, fr_gamma, fr_p, fr_px, fr_tau, to_pz, to_px, to_z, momenta, energies, beam_p0c, si_mom, si_beta, si_gamma, si_p0; "
        "rewrite ?(beta0_unfold {E0} {m}) by lra; unfold si_gamma0, Rsqr; interval with (i_prec 80).")

REL = {"float64": 2.0 ** -40, "float32": 2.0 ** -18}
ORACLE_REL = {"float64": 1e-12, "float32": 1e-5}
DT = {"float64": torch.float64, "float32": torch.float32}


def f(x):
    return float(x)


def cond_of(E, m):
    """condition number of sqrt(E^2 - m^2) and of beta w.r.t. round-off in E (>= 1)."""
    return E * E / (E * E - m * m)


def goal(expr, v, tol):
    tol = tol + 2.0 ** -1000      # observed exact zeros: the model must be zero to within 2^-1000
    return f"Rabs ({expr} - {dyadic(v)}) <= {dyadic(tol)}"


def consts():
    from cheetah.particles import particle_beam as pb
    meV = float(pb.electron_mass_eV)
    mkg = float(pb.electron_mass)          # the module constant as the code holds it (a float32 tensor at present)
    c = float(pb.speed_of_light)
    mc = float(pb.electron_mass * pb.speed_of_light)   # the sub-expression of from_xyz_pxpypz, in the dtype torch gives it
    return meV, mkg, c, mc


# ------------------------------------------------------------------------------------------------ generators
def gen_energy(rng):
    k = rng.random()
    if k < 0.15:
        return rng.choice([6.0e5, 7.5e5, 1.0e6, 2.0e6])     # just above the rest energy (0.511 MeV)
    return round(10 ** rng.uniform(6.3, 10.3), -3)


def gen_delta(rng):
    k = rng.random()
    if k < 0.1:
        return 0.0
    if k < 0.2:
        return rng.choice([1e-9, -1e-9, 1e-6, -1e-6])
    if k < 0.8:
        return rng.uniform(-0.05, 0.05)
    return rng.uniform(-0.3, 0.3)


def gen_tau(rng):
    return rng.choice([0.0, rng.uniform(-1e-2, 1e-2), rng.uniform(-1e-5, 1e-5), rng.uniform(-1.0, 1.0)])


def gen_bmad_case(rng, dtype):
    m = consts()[0]
    while True:
        E0 = gen_energy(rng)
        n = rng.randint(1, 4)
        taus = [gen_tau(rng) for _ in range(n)]
        deltas = [gen_delta(rng) for _ in range(n)]
        t = DT[dtype]
        E0 = f(torch.tensor(E0, dtype=t))
        taus = [f(x) for x in torch.tensor(taus, dtype=t)]
        deltas = [f(x) for x in torch.tensor(deltas, dtype=t)]
        p0 = math.sqrt(E0 * E0 - m * m)
        if all(E0 + d * p0 > 1.15 * m for d in deltas):     # physical particles only (total energy above rest energy, with margin)
            return {"kind": "bmad", "dtype": dtype, "E0": E0, "tau": taus, "delta": deltas}


def gen_si_case(rng, dtype):
    m = consts()[0]
    t = DT[dtype]
    while True:
        E0 = f(torch.tensor(gen_energy(rng), dtype=t))
        n = rng.randint(1, 3)
        parts = []
        for _ in range(n):
            parts.append([rng.uniform(-2e-3, 2e-3), rng.choice([0.0, rng.uniform(-2e-3, 2e-3)]), rng.uniform(-2e-3, 2e-3),
                          rng.uniform(-2e-3, 2e-3), gen_tau(rng), gen_delta(rng), 1.0])
        parts = torch.tensor(parts, dtype=t).tolist()
        p0 = math.sqrt(E0 * E0 - m * m)
        if all(E0 + p[5] * p0 > 1.15 * m for p in parts):
            return {"kind": "si", "dtype": dtype, "E0": E0, "particles": parts}


def gen_coords_case(rng, dtype):
    """full 7-dimensional Cheetah coordinates for cheetah_to_bmad_coords / bmad_to_cheetah_coords"""
    m = consts()[0]
    t = DT[dtype]
    while True:
        E0 = f(torch.tensor(gen_energy(rng), dtype=t))
        n = rng.randint(1, 4)
        parts = []
        for _ in range(n):
            parts.append([rng.uniform(-5e-3, 5e-3), rng.choice([0.0, rng.uniform(-2e-3, 2e-3)]), rng.uniform(-5e-3, 5e-3),
                          rng.uniform(-2e-3, 2e-3), gen_tau(rng), gen_delta(rng), 1.0])
        parts = torch.tensor(parts, dtype=t).tolist()
        p0 = math.sqrt(E0 * E0 - m * m)
        if all(E0 + p[5] * p0 > 1.15 * m for p in parts):
            return {"kind": "coords", "dtype": dtype, "E0": E0, "particles": parts}


# ------------------------------------------------------------------------------------------------ observation
def observe_bmad(case):
    from cheetah.utils import bmadx
    m = consts()[0]
    t = DT[case["dtype"]]
    tau = torch.tensor(case["tau"], dtype=t)
    delta = torch.tensor(case["delta"], dtype=t)
    E0 = torch.tensor(case["E0"], dtype=t)
    z, pz, p0c = bmadx.cheetah_to_bmad_z_pz(tau, delta, E0, m)
    tau2, delta2, E02 = bmadx.bmad_to_cheetah_z_pz(z, pz, p0c, m)
    obs = {"z": z.tolist(), "pz": pz.tolist(), "p0c": f(p0c), "tau2": tau2.tolist(), "delta2": delta2.tolist(), "E02": f(E02),
           "dtypes": [str(x.dtype) for x in (z, pz, p0c, tau2, delta2, E02)]}
    # and forward again from the backward result (Bmad -> Cheetah -> Bmad)
    z3, pz3, p0c3 = bmadx.cheetah_to_bmad_z_pz(tau2, delta2, E02, m)
    obs.update({"z3": z3.tolist(), "pz3": pz3.tolist(), "p0c3": f(p0c3)})
    return obs


def observe_coords(case):
    """the full-coordinate wrappers: Cheetah -> Bmad -> Cheetah -> Bmad, the *_z_pz helpers on the same inputs, and a vectorised call"""
    from cheetah.utils import bmadx
    m = consts()[0]
    t = DT[case["dtype"]]
    coords = torch.tensor(case["particles"], dtype=t)
    keep = coords.clone()
    E0 = torch.tensor(case["E0"], dtype=t)
    bm, p0c = bmadx.cheetah_to_bmad_coords(coords, E0, m)
    bm_keep = bm.clone()
    back, E02 = bmadx.bmad_to_cheetah_coords(bm, p0c, m)
    bm3, p0c3 = bmadx.cheetah_to_bmad_coords(back, E02, m)
    zh, pzh, p0h = bmadx.cheetah_to_bmad_z_pz(coords[..., 4], coords[..., 5], E0, m)
    th, dh, Eh = bmadx.bmad_to_cheetah_z_pz(bm[..., 4], bm[..., 5], p0c, m)
    obs = {"bmad": bm.tolist(), "p0c": f(p0c), "back": back.tolist(), "E02": f(E02), "bmad3": bm3.tolist(), "p0c3": f(p0c3),
           "helper": {"z": zh.tolist(), "pz": pzh.tolist(), "p0c": f(p0h), "tau": th.tolist(), "delta": dh.tolist(), "E0": f(Eh)},
           "shapes": [list(bm.shape), list(p0c.shape), list(back.shape), list(E02.shape)],
           "dtypes": [str(x.dtype) for x in (bm, p0c, back, E02, bm3, p0c3)],
           "input_modified": not (torch.equal(coords, keep) and torch.equal(bm, bm_keep))}
    # vectorised call: two settings (different coordinates and reference energies) at once == one by one
    cv = torch.stack([coords, 0.5 * coords])
    cv[..., 6] = 1
    Ev = torch.stack([E0, 1.5 * E0])
    bv, pv = bmadx.cheetah_to_bmad_coords(cv, Ev, m)
    kv, ev = bmadx.bmad_to_cheetah_coords(bv, pv, m)
    vec = {"shapes": [list(bv.shape), list(pv.shape), list(kv.shape), list(ev.shape)], "dtypes": [str(x.dtype) for x in (bv, pv, kv, ev)]}
    same = vec["shapes"] == [[2, len(coords), 6], [2], [2, len(coords), 7], [2]]
    for k in range(2):
        if not same:
            break
        b1, p1 = bmadx.cheetah_to_bmad_coords(cv[k], Ev[k], m)
        k1, e1 = bmadx.bmad_to_cheetah_coords(bv[k], pv[k], m)
        same = all(a.dtype == b.dtype and torch.equal(a, b) for a, b in ((b1, bv[k]), (p1, pv[k]), (k1, kv[k]), (e1, ev[k])))
    vec["equals_per_sample"] = bool(same)
    obs["vectorised"] = vec
    return obs


def make_beam(case):
    import cheetah
    t = DT[case["dtype"]]
    return cheetah.ParticleBeam(torch.tensor(case["particles"], dtype=t), torch.tensor(case["E0"], dtype=t), dtype=t)


def observe_si(case):
    return observe_si_beam(make_beam(case), DT[case["dtype"]])


def observe_si_beam(b, t):
    """every SI conversion / definition observable of C18 on the given (non-vectorised) beam OBJECT"""
    import cheetah
    xyz = b.to_xyz_pxpypz()
    b2 = cheetah.ParticleBeam.from_xyz_pxpypz(xyz, b.energy, dtype=t)
    return {"xyz": xyz.tolist(), "back": b2.particles.tolist(), "back_energy": f(b2.energy), "energies": b.energies.tolist(),
            "momenta": b.momenta.tolist(), "p0c": f(b.p0c), "gamma0": f(b.relativistic_gamma), "beta0": f(b.relativistic_beta),
            "dtypes": [str(xyz.dtype), str(b2.particles.dtype), str(b.energies.dtype)]}


# ------------------------------------------------------------------------------------------------ stateful sequences on ONE beam object
# A beam is an object with assignable state (energy, particles, charges, the coordinate setters x..p, .to(dtype)); every conversion and
# definition of C18 is a function of its CURRENT state.  A stateful case = initial beam + a sequence of steps (use = read the derived
# properties / convert; set_* / imul_energy / to / clone / index = change the state or replace the object by a derived one); at the
# end every SI observable is taken on the object that went through the history and judged (a) by the documented definitions for the
# FINAL values, (b) against a freshly constructed beam holding the final values, (c) by the Coq model (interval goals).  The final
# values are computed by a mirror that uses plain torch tensors only (no cheetah code).
USES = ["relativistic_beta", "relativistic_gamma", "p0c", "energies", "momenta", "to_xyz", "roundtrip", "bmad"]
COORDS = ["x", "px", "y", "py", "tau", "p"]


def _round_to(v, dtype):
    return torch.tensor(v, dtype=DT[dtype]).tolist()


def gen_particles(rng, n):
    return [[rng.uniform(-2e-3, 2e-3), rng.choice([0.0, rng.uniform(-2e-3, 2e-3)]), rng.uniform(-2e-3, 2e-3), rng.uniform(-2e-3, 2e-3),
             gen_tau(rng), gen_delta(rng), 1.0] for _ in range(n)]


def mirror(case, upto=None):
    """(dtype, E, P, charges) after the first `upto` steps (all by default), by plain tensor arithmetic; E is a float or, for a
    vectorised beam, a list; P the matching nested list"""
    dtype, E, P = case["dtype"], case["E0"], case["particles"]
    for st in case["steps"][:upto]:
        op = st["op"]
        if op == "set_energy":
            E = _round_to(st["value"], dtype)
        elif op == "imul_energy":
            E = (torch.tensor(E, dtype=DT[dtype]) * st["value"]).tolist()
        elif op == "set_particles":
            P = _round_to(st["value"], dtype)
        elif op == "set_coord":
            t = torch.tensor(P, dtype=DT[dtype])
            t[..., COORDS.index(st["name"])] = torch.tensor(st["value"], dtype=DT[dtype])
            P = t.tolist()
        elif op == "to":
            dtype = st["dtype"]
            E, P = _round_to(E, dtype), _round_to(P, dtype)
        elif op == "index":
            E, P = E[st["k"]], P[st["k"]]
    return dtype, E, P


def physical(E, P, m):
    if isinstance(E, list):
        return all(physical(e, p, m) for e, p in zip(E, P))
    if not E > 1.15 * m:
        return False
    p0 = math.sqrt(E * E - m * m)
    return all(E + q[5] * p0 > 1.15 * m for q in P)


def gen_stateful_case(rng, dtype):
    m = consts()[0]
    while True:
        B = rng.choice([None, None, 2, 3])
        n = rng.randint(1, 3)
        if B is None:
            E0, P0 = gen_energy(rng), gen_particles(rng, n)
        else:
            E0, P0 = [gen_energy(rng) for _ in range(B)], [gen_particles(rng, n) for _ in range(B)]
        case = {"kind": "stateful", "dtype": dtype, "E0": _round_to(E0, dtype), "particles": _round_to(P0, dtype), "steps": []}
        vec = B
        steps = case["steps"]
        steps.append({"op": "use", "what": rng.sample(USES, rng.randint(1, len(USES)))})
        changed = False
        for _ in range(rng.randint(1, 6)):
            k = rng.random()
            cur_dtype = mirror(case)[0]
            if k < 0.25:
                steps.append({"op": "use", "what": rng.sample(USES, rng.randint(1, 4))})
                continue
            if k < 0.5:
                steps.append({"op": "set_energy", "value": gen_energy(rng) if vec is None else [gen_energy(rng) for _ in range(vec)]})
            elif k < 0.57:
                steps.append({"op": "imul_energy", "value": rng.choice([0.5, 1.5, 2.0, 3.0, 10.0])})
            elif k < 0.67:
                steps.append({"op": "set_particles", "value": gen_particles(rng, n) if vec is None else [gen_particles(rng, n) for _ in range(vec)]})
            elif k < 0.77:
                c = rng.choice(COORDS)
                g = {"tau": gen_tau, "p": gen_delta}.get(c, lambda r: r.uniform(-2e-3, 2e-3))
                steps.append({"op": "set_coord", "name": c, "value": [g(rng) for _ in range(n)] if vec is None else [[g(rng) for _ in range(n)] for _ in range(vec)]})
            elif k < 0.87:
                steps.append({"op": "to", "dtype": "float64" if cur_dtype == "float32" else rng.choice(["float32", "float64"])})
            elif k < 0.93:
                steps.append({"op": "clone"})
            elif vec is not None:
                steps.append({"op": "index", "k": rng.randrange(vec)})
                vec = None
            else:
                steps.append({"op": "set_charges", "value": [rng.choice([0.0, 1e-12, 2e-12]) for _ in range(n)]})
            changed = True
        if not changed:
            continue
        # the values held at every `use` and at the end must be physical (the conversions are unspecified otherwise)
        ok = True
        for i, st in enumerate(steps + [{"op": "use"}]):
            if st["op"] == "use":
                _, E, P = mirror(case, i)
                ok = ok and physical(E, P, m)
        if ok:
            return case


def run_stateful(case):
    """executes the steps on one real beam object; returns (beam, final dtype name)"""
    import cheetah
    from cheetah.utils import bmadx
    m = consts()[0]
    dtype = case["dtype"]
    t = DT[dtype]
    b = cheetah.ParticleBeam(torch.tensor(case["particles"], dtype=t), torch.tensor(case["E0"], dtype=t), dtype=t)
    for st in case["steps"]:
        op = st["op"]
        t = DT[dtype]
        if op == "use":
            for w in st["what"]:
                if w == "to_xyz":
                    b.to_xyz_pxpypz()
                elif w == "roundtrip":
                    cheetah.ParticleBeam.from_xyz_pxpypz(b.to_xyz_pxpypz(), b.energy, dtype=t)
                elif w == "bmad":
                    bmadx.bmad_to_cheetah_coords(*bmadx.cheetah_to_bmad_coords(b.particles, b.energy, m), m)
                else:
                    getattr(b, w)
        elif op == "set_energy":
            b.energy = torch.tensor(st["value"], dtype=t)
        elif op == "imul_energy":
            b.energy *= st["value"]
        elif op == "set_particles":
            b.particles = torch.tensor(st["value"], dtype=t)
        elif op == "set_coord":
            setattr(b, st["name"], torch.tensor(st["value"], dtype=t))
        elif op == "set_charges":
            b.particle_charges = torch.tensor(st["value"], dtype=t)
        elif op == "to":
            dtype = st["dtype"]
            r = b.to(DT[dtype])
            b = r if r is not None else b
        elif op == "clone":
            b = b.clone()
        elif op == "index":
            b = b[st["k"]]
    return b, dtype


def observe_stateful(case):
    """per-sample observations on the beam object after the history + the same on freshly built beams holding the final values"""
    import cheetah
    b, dtype = run_stateful(case)
    mdtype, E, P = mirror(case)
    t = DT[mdtype]
    vec = isinstance(E, list)
    out = {"final": {"dtype": mdtype, "E0": E, "particles": P}, "beam_dtype": [str(b.particles.dtype), str(b.energy.dtype)],
           "state_matches": bool(b.particles.dtype == t and b.energy.dtype == t and torch.equal(b.particles, torch.tensor(P, dtype=t))
                                 and torch.equal(b.energy, torch.tensor(E, dtype=t))),
           "state": {"energy": b.energy.tolist(), "particles": b.particles.tolist()}, "samples": []}
    if not vec:
        fc = {"kind": "si", "dtype": mdtype, "E0": E, "particles": P}
        out["samples"].append({"case": fc, "obs": observe_si_beam(b, t), "fresh": observe_si(fc), "coords": observe_coords(dict(fc, kind="coords"))})
        return out
    # a vectorised beam object: observe once on the object, slice per setting
    xyz = b.to_xyz_pxpypz()
    b2 = cheetah.ParticleBeam.from_xyz_pxpypz(xyz, b.energy, dtype=t)
    en, mo, p0c, g0, b0 = b.energies, b.momenta, b.p0c, b.relativistic_gamma, b.relativistic_beta
    for k in range(len(E)):
        fc = {"kind": "si", "dtype": mdtype, "E0": E[k], "particles": P[k]}
        obs = {"xyz": xyz[k].tolist(), "back": b2.particles[k].tolist(), "back_energy": f(b2.energy[k]), "energies": en[k].tolist(),
               "momenta": mo[k].tolist(), "p0c": f(p0c[k]), "gamma0": f(g0[k]), "beta0": f(b0[k]),
               "dtypes": [str(xyz.dtype), str(b2.particles.dtype), str(en.dtype)]}
        out["samples"].append({"case": fc, "obs": obs, "fresh": observe_si(fc), "coords": None})
    return out


def flat(x):
    if isinstance(x, list):
        for y in x:
            yield from flat(y)
    else:
        yield x


def oracle_stateful(case, so):
    """[(final si case of the sample, failure item)]: the assigned state is what the object holds; every definition / round trip of
    oracle_si for the FINAL values; the object with a history agrees with a freshly built beam to a few units of round-off"""
    bad = []
    fin = so["final"]
    want = "torch." + fin["dtype"]
    if not so["state_matches"]:
        bad.append((None, {"what": "after the assignments the beam does not hold the assigned values / dtype (energy, particles)",
                           "observed": {"dtype": so["beam_dtype"], **so["state"]}, "expected": fin}))
        return bad
    eps = 2.0 ** -52 if fin["dtype"] == "float64" else 2.0 ** -23
    meV = consts()[0]
    for smp in so["samples"]:
        fc, obs, fresh = smp["case"], smp["obs"], smp["fresh"]
        if any(d != want for d in obs["dtypes"]):
            bad.append((fc, {"what": "dtype of a conversion result differs from the beam's current dtype", "observed": obs["dtypes"], "expected": want}))
        for b in oracle_si(fc, obs):
            bad.append((fc, dict(b, after_history=True)))
        cm = cond_of(fc["E0"], meV)
        p0 = math.sqrt(fc["E0"] ** 2 - meV ** 2)
        cnd = max([cm] + [cond_of(fc["E0"] + q[5] * p0, meV) for q in fc["particles"]])
        for key in ("xyz", "back", "energies", "momenta", "p0c", "gamma0", "beta0", "back_energy"):
            # columnwise scale: a coordinate that is 0 on the fresh beam must be 0 after the history too (delta: scale 1)
            for j, (u, v) in enumerate(zip(flat(obs[key]), flat(fresh[key]))):
                scale = abs(v) + (1.0 if key == "back" and j % 7 == 5 else 0.0)
                tol = 64 * eps * cnd * scale
                if key in ("xyz", "back") and fc["dtype"] == "float32":
                    tol = None            # float32 SI momenta squared are subnormal (F22): judged by oracle_si / classify_si only
                if tol is not None and not (math.isfinite(u) and abs(u - v) <= tol):
                    bad.append((fc, {"what": f"{key}[{j}] on a beam object with a history of uses and assignments differs from the same "
                                             f"quantity on a freshly built beam holding the same values", "observed": u, "expected": v,
                                     "tol": tol, "dev": abs(u - v), "fresh_differs": True}))
                    break
        if smp["coords"] is not None:
            for b in oracle_coords(dict(fc, kind="coords"), smp["coords"]):
                bad.append((fc, dict(b, after_history=True)))
    return bad


# ------------------------------------------------------------------------------------------------ Coq goals
def bmad_goals(case, obs):
    m = consts()[0]
    rel = REL[case["dtype"]]
    E0 = case["E0"]
    M, E0l = dyadic(m), dyadic(E0)
    p0 = math.sqrt(E0 * E0 - m * m)
    gs = [(goal(f"cb_p0c {E0l} {M}", obs["p0c"], rel * cond_of(E0, m) * abs(obs["p0c"])), T_CB, "p0c")]
    gs.append((goal(f"bc_refE {dyadic(obs['p0c'])} {M}", obs["E02"], rel * abs(obs["E02"])), T_BC, "ref_energy"))
    for i, (tau, d) in enumerate(zip(case["tau"], case["delta"])):
        E = E0 + d * p0
        cnd = max(cond_of(E0, m), cond_of(E, m))
        tl, dl = dyadic(tau), dyadic(d)
        gs.append((goal(f"cb_z {tl} {dl} {E0l} {M}", obs["z"][i], rel * cnd * abs(obs["z"][i])), T_CB, "z"))
        gs.append((goal(f"cb_pz {dl} {E0l} {M}", obs["pz"][i], rel * cnd * (abs(obs["pz"][i]) + 1.0)), T_CB, "pz"))
        # backward conversion on its actual inputs (the observed z, pz, p0c)
        zl, pzl, p0l = dyadic(obs["z"][i]), dyadic(obs["pz"][i]), dyadic(obs["p0c"])
        gs.append((goal(f"bc_tau {zl} {pzl} {p0l} {M}", obs["tau2"][i], rel * cnd * abs(obs["tau2"][i])), T_BC, "tau"))
        gs.append((goal(f"bc_delta {pzl} {p0l} {M}", obs["delta2"][i], rel * cnd * (abs(obs["delta2"][i]) + 1.0)), T_BC, "delta"))
    return gs


def coords_goals(case, obs):
    """the wrappers' longitudinal outputs against the same Coq model as the helpers (the transverse columns are copies: oracle)"""
    m = consts()[0]
    rel = REL[case["dtype"]]
    E0 = case["E0"]
    M, E0l = dyadic(m), dyadic(E0)
    p0 = math.sqrt(E0 * E0 - m * m)
    gs = [(goal(f"cb_p0c {E0l} {M}", obs["p0c"], rel * cond_of(E0, m) * abs(obs["p0c"])), T_CB, "coords_p0c"),
          (goal(f"bc_refE {dyadic(obs['p0c'])} {M}", obs["E02"], rel * abs(obs["E02"])), T_BC, "coords_ref_energy")]
    for i, p in enumerate(case["particles"]):
        E = E0 + p[5] * p0
        cnd = max(cond_of(E0, m), cond_of(E, m))
        tl, dl = dyadic(p[4]), dyadic(p[5])
        z, pz = obs["bmad"][i][4], obs["bmad"][i][5]
        gs.append((goal(f"cb_z {tl} {dl} {E0l} {M}", z, rel * cnd * abs(z)), T_CB, "coords_z"))
        gs.append((goal(f"cb_pz {dl} {E0l} {M}", pz, rel * cnd * (abs(pz) + 1.0)), T_CB, "coords_pz"))
        zl, pzl, p0l = dyadic(z), dyadic(pz), dyadic(obs["p0c"])
        tau2, d2 = obs["back"][i][4], obs["back"][i][5]
        gs.append((goal(f"bc_tau {zl} {pzl} {p0l} {M}", tau2, rel * cnd * abs(tau2)), T_BC, "coords_tau"))
        gs.append((goal(f"bc_delta {pzl} {p0l} {M}", d2, rel * cnd * (abs(d2) + 1.0)), T_BC, "coords_delta"))
    return gs


def si_goals(case, obs):
    meV, mkg, c, mc = consts()
    rel = REL[case["dtype"]]
    E0 = case["E0"]
    p0eV = math.sqrt(E0 * E0 - meV * meV)
    E0l, M, K, C, MC = dyadic(E0), dyadic(meV), dyadic(mkg), dyadic(c), dyadic(mc)
    T = T_SI.replace("{E0}", E0l).replace("{m}", M)
    gs = []
    c0 = cond_of(E0, meV)
    gs.append((goal(f"beam_p0c {E0l} {M}", obs["p0c"], rel * c0 * abs(obs["p0c"])), T, "p0c"))
    for i, p in enumerate(case["particles"]):
        E = E0 + p[5] * p0eV
        cnd = max(c0, cond_of(E, meV))
        x = obs["xyz"][i]
        pxl, pyl, tl, dl = dyadic(p[1]), dyadic(p[3]), dyadic(p[4]), dyadic(p[5])
        gs.append((goal(f"energies {dl} {E0l} {M}", obs["energies"][i], rel * c0 * abs(obs["energies"][i])), T, "energies"))
        gs.append((goal(f"momenta {dl} {E0l} {M}", obs["momenta"][i], rel * cnd * abs(obs["momenta"][i])), T, "momenta"))
        if case["dtype"] == "float32":
            continue   # float32 beams: SI momenta squared (~1e-42) are subnormal in float32 -> not round-off of a real formula; oracle only
        gs.append((goal(f"to_px {pxl} {E0l} {M} {K} {C}", x[1], rel * c0 * abs(x[1])), T, "px_SI"))
        gs.append((goal(f"to_px {pyl} {E0l} {M} {K} {C}", x[3], rel * c0 * abs(x[3])), T, "py_SI"))
        gs.append((goal(f"to_z {tl} {E0l} {M}", x[4], rel * c0 * abs(x[4])), T, "z_SI"))
        gs.append((goal(f"to_pz {pxl} {pyl} {dl} {E0l} {M} {K} {C}", x[5], rel * cnd * abs(x[5])), T, "pz_SI"))
        # from_xyz on its actual inputs
        X = [dyadic(v) for v in x]
        bk = obs["back"][i]
        gs.append((goal(f"fr_px {X[1]} {E0l} {M} {K} {C}", bk[1], rel * c0 * abs(bk[1])), T, "px_back"))
        gs.append((goal(f"fr_tau {X[4]} {E0l} {M}", bk[4], rel * c0 * abs(bk[4])), T, "tau_back"))
        gs.append((goal(f"fr_delta {X[1]} {X[3]} {X[5]} {E0l} {M} {MC}", bk[5], rel * cnd * (abs(bk[5]) + 1.0)), T, "delta_back"))
    return gs


# ------------------------------------------------------------------------------------------------ oracles (implementation alone)
def D(x):
    return Decimal(float(x))


def close(a, b, tol):
    return abs(float(a) - float(b)) <= tol


def oracle_bmad(case, obs):
    """documented definitions in 60-digit arithmetic + both round trips; returns list of (what, observed, expected, tol)"""
    m = D(consts()[0])
    rel = ORACLE_REL[case["dtype"]]
    E0 = D(case["E0"])
    p0 = (E0 * E0 - m * m).sqrt()
    bad = []
    cm = cond_of(case["E0"], float(m))

    def chk(what, o, e, tol):
        if not (math.isfinite(o) and close(o, e, tol)):
            bad.append({"what": what, "observed": o, "expected": float(e), "tol": tol})
    chk("p0c = sqrt(E0^2 - m^2)", obs["p0c"], p0, rel * cm * float(p0))
    chk("returned ref_energy = E0", obs["E02"], E0, rel * cm * float(E0))
    chk("returned p0c after Bmad->Cheetah->Bmad", obs["p0c3"], D(obs["p0c"]), rel * cm * float(p0))
    for i, (tau, d) in enumerate(zip(case["tau"], case["delta"])):
        E = E0 + D(d) * p0                  # delta = (E - E0)/(p0 c)
        p = (E * E - m * m).sqrt()
        beta = p / E
        cnd = max(cm, cond_of(float(E), float(m)))
        chk("z = -beta*tau", obs["z"][i], -beta * D(tau), rel * cnd * abs(tau))
        chk("pz = (p - p0)/p0", obs["pz"][i], (p - p0) / p0, rel * cnd * (1 + abs(float((p - p0) / p0))))
        chk("tau after Cheetah->Bmad->Cheetah", obs["tau2"][i], D(tau), 4 * rel * cnd * abs(tau))
        chk("delta after Cheetah->Bmad->Cheetah", obs["delta2"][i], D(d), 4 * rel * cnd * (1 + abs(d)))
        chk("z after Bmad->Cheetah->Bmad", obs["z3"][i], D(obs["z"][i]), 4 * rel * cnd * abs(obs["z"][i]))
        chk("pz after Bmad->Cheetah->Bmad", obs["pz3"][i], D(obs["pz"][i]), 4 * rel * cnd * (1 + abs(obs["pz"][i])))
    return bad


def oracle_coords(case, obs):
    """cheetah_to_bmad_coords / bmad_to_cheetah_coords: shapes, working dtype kept, transverse coordinates and the constant 1 copied
    bit for bit, longitudinal pair = documented definitions = what the *_z_pz helpers return, both round trips to round-off."""
    m = D(consts()[0])
    rel = ORACLE_REL[case["dtype"]]
    E0 = D(case["E0"])
    p0 = (E0 * E0 - m * m).sqrt()
    cm = cond_of(case["E0"], float(m))
    n = len(case["particles"])
    bad = []

    def chk(what, o, e, tol):
        if not (math.isfinite(o) and close(o, e, tol)):
            bad.append({"what": what, "observed": o, "expected": float(e), "tol": tol, "dev": abs(o - float(e))})

    def same(what, o, e):
        if not (o == e):
            bad.append({"what": what, "observed": o, "expected": e})
    want = "torch." + case["dtype"]
    if any(d != want for d in obs["dtypes"]):
        bad.append({"what": "dtype of a full-coordinate conversion result differs from the input dtype "
                            "(order: bmad_coords, p0c, cheetah_coords, ref_energy, bmad_coords again, p0c again)",
                    "observed": obs["dtypes"], "expected": want})
    if obs["shapes"] != [[n, 6], [], [n, 7], []]:
        bad.append({"what": "shapes of (bmad_coords, p0c, cheetah_coords, ref_energy)", "observed": obs["shapes"], "expected": [[n, 6], [], [n, 7], []]})
        return bad
    if obs["input_modified"]:
        bad.append({"what": "a conversion modified its input tensor in place", "observed": True, "expected": False})
    v = obs["vectorised"]
    if any(d != want for d in v["dtypes"]) or not v["equals_per_sample"]:
        bad.append({"what": "vectorised conversion (2 settings) differs from the per-setting conversions (shape, dtype or value)",
                    "observed": v, "expected": {"equals_per_sample": True, "dtype": want}})
    h = obs["helper"]
    chk("p0c = sqrt(E0^2 - m^2)", obs["p0c"], p0, rel * cm * float(p0))
    chk("p0c of the wrapper = p0c of cheetah_to_bmad_z_pz", obs["p0c"], D(h["p0c"]), rel * cm * float(p0))
    chk("returned ref_energy = E0", obs["E02"], E0, rel * cm * float(E0))
    chk("ref_energy of the wrapper = ref_energy of bmad_to_cheetah_z_pz", obs["E02"], D(h["E0"]), rel * cm * float(E0))
    chk("returned p0c after Bmad->Cheetah->Bmad", obs["p0c3"], D(obs["p0c"]), rel * cm * float(p0))
    names = ["x", "px", "y", "py"]
    for i, p in enumerate(case["particles"]):
        bm, bk, b3 = obs["bmad"][i], obs["back"][i], obs["bmad3"][i]
        tau, d = p[4], p[5]
        E = E0 + D(d) * p0
        pc = (E * E - m * m).sqrt()
        beta = pc / E
        cnd = max(cm, cond_of(float(E), float(m)))
        for j in range(4):
            same(f"{names[j]} copied unchanged Cheetah->Bmad", bm[j], p[j])
            same(f"{names[j]} copied unchanged Cheetah->Bmad->Cheetah", bk[j], p[j])
            same(f"{names[j]} copied unchanged Bmad->Cheetah->Bmad", b3[j], p[j])
        same("seventh Cheetah coordinate is 1", bk[6], 1.0)
        chk("z = -beta*tau", bm[4], -beta * D(tau), rel * cnd * abs(tau))
        chk("pz = (p - p0)/p0", bm[5], (pc - p0) / p0, rel * cnd * (1 + abs(float((pc - p0) / p0))))
        chk("z of the wrapper = z of cheetah_to_bmad_z_pz", bm[4], D(h["z"][i]), rel * cnd * abs(tau))
        chk("pz of the wrapper = pz of cheetah_to_bmad_z_pz", bm[5], D(h["pz"][i]), rel * cnd * (1 + abs(bm[5])))
        chk("tau of the wrapper = tau of bmad_to_cheetah_z_pz", bk[4], D(h["tau"][i]), rel * cnd * abs(tau))
        chk("delta of the wrapper = delta of bmad_to_cheetah_z_pz", bk[5], D(h["delta"][i]), rel * cnd * (1 + abs(d)))
        chk("tau after Cheetah->Bmad->Cheetah (full coordinates)", bk[4], D(tau), 4 * rel * cnd * abs(tau))
        chk("delta after Cheetah->Bmad->Cheetah (full coordinates)", bk[5], D(d), 4 * rel * cnd * (1 + abs(d)))
        chk("z after Bmad->Cheetah->Bmad (full coordinates)", b3[4], D(bm[4]), 4 * rel * cnd * abs(bm[4]))
        chk("pz after Bmad->Cheetah->Bmad (full coordinates)", b3[5], D(bm[5]), 4 * rel * cnd * (1 + abs(bm[5])))
    return bad


def oracle_si(case, obs):
    meV, mkg, c, mc = consts()
    rel = ORACLE_REL[case["dtype"]]
    m = D(meV)
    E0 = D(case["E0"])
    p0 = (E0 * E0 - m * m).sqrt()
    g0 = E0 / m
    b0 = p0 / E0
    p0si = g0 * b0 * D(mkg) * D(c)
    cm = cond_of(case["E0"], meV)
    bad = []

    def chk(what, o, e, tol, **kw):
        if not (math.isfinite(o) and close(o, e, tol)):
            bad.append(dict({"what": what, "observed": o, "expected": float(e), "tol": tol, "dev": abs(o - float(e))}, **kw))
    chk("p0c = beta0*gamma0*m = sqrt(E0^2-m^2)", obs["p0c"], p0, rel * cm * float(p0))
    chk("relativistic_gamma = E0/m", obs["gamma0"], g0, rel * float(g0))
    chk("relativistic_beta = p0c/E0", obs["beta0"], b0, rel * cm)
    chk("from_xyz keeps the reference energy", obs["back_energy"], E0, rel * float(E0))
    for i, p in enumerate(case["particles"]):
        E = E0 + D(p[5]) * p0
        pc = (E * E - m * m).sqrt()
        cnd = max(cm, cond_of(float(E), meV))
        chk("energies = E0 + delta*p0c", obs["energies"][i], E, rel * cm * float(E))
        chk("momenta^2 + m^2 = energies^2", obs["momenta"][i], (D(obs["energies"][i]) ** 2 - m * m).sqrt(), rel * cnd * float(pc))
        x = obs["xyz"][i]
        psi = pc / m * D(mkg) * D(c)         # |p| in SI = gamma beta m c
        chk("px_SI = px*p0", x[1], D(p[1]) * p0si, rel * cm * abs(float(D(p[1]) * p0si)))
        chk("py_SI = py*p0", x[3], D(p[3]) * p0si, rel * cm * abs(float(D(p[3]) * p0si)))
        chk("z_SI = -beta0*tau", x[4], -b0 * D(p[4]), rel * cm * abs(p[4]))
        if case["dtype"] == "float64":
            chk("px^2+py^2+pz^2 = (gamma beta m c)^2", math.sqrt(x[1] ** 2 + x[3] ** 2 + x[5] ** 2), psi, rel * cnd * float(psi))
        for j, nm in enumerate(["x", "px", "y", "py", "tau", "delta"]):
            scale = abs(p[j]) + (1.0 if j == 5 else 0.0)
            # momentum^2 of the to_xyz formula for the subnormal bound of the float32 signature
            chk(f"{nm} after Cheetah->SI->Cheetah", obs["back"][i][j], D(p[j]), 4 * rel * cnd * scale,
                coord=nm, psi2=float(psi * psi), roundtrip=True)
    return bad


def classify_si(case, item):
    """known-finding signatures for failures of the SI round trip; anything else is a new violation"""
    meV, mkg, c, mc = consts()
    if not item.get("roundtrip") or item.get("coord") != "delta":
        return None
    eps_c = abs(mc / (mkg * c) - 1.0)        # mismatch of the constant product between from_xyz and to_xyz
    if case["dtype"] == "float64" and eps_c > 0 and item["dev"] <= 2.5 * eps_c + 1e-12:
        return "F16"
    # float32: momentum**2 (~1e-42 kg^2 m^2/s^2) falls into float32's subnormal range (spacing 1.4e-45)
    if case["dtype"] == "float32" and item["dev"] <= 4 * (1.5e-45 / item["psi2"]) + 4 * 1.2e-7 + 1e-5 and 1.5e-45 / item["psi2"] > 1e-6:
        return "F22"
    return None


def oracle_vectorised(run):
    """F17: energies of a vectorised beam vs the per-setting beams"""
    import cheetah
    out = []
    for (B, n) in [(2, 2), (3, 3), (2, 3), (1, 3)]:
        g = torch.Generator().manual_seed(B * 10 + n)
        parts = torch.randn(B, n, 7, generator=g, dtype=torch.float64) * 1e-2
        parts[..., 6] = 1
        en = torch.tensor([1e7 * (k + 1) for k in range(B)], dtype=torch.float64)
        bv = cheetah.ParticleBeam(parts, en, dtype=torch.float64)
        exp = torch.stack([cheetah.ParticleBeam(parts[k], en[k], dtype=torch.float64).energies for k in range(B)])
        try:
            got = bv.energies
            ok = got.shape == exp.shape and torch.allclose(got, exp, rtol=1e-12, atol=0)
            res = "ok" if ok else "wrong values"
        except Exception as ex:  # noqa
            res = "raises: " + str(ex)[:60]
        out.append({"batch": B, "n": n, "result": res})
        run.count("vectorised_energies_" + res.split(":")[0].replace(" ", "_"))
    return out


# ------------------------------------------------------------------------------------------------ main
def main(tier, replay=None):
    run = common.Run(PID, tier)
    common.setup_python_env()
    thorough = tier == "thorough"
    run.cov["rule"] = ("reference energies log-uniform in [0.6 MeV, 20 GeV] (15% just above the rest energy), delta in +-0.05 (60%), +-0.3, 0 and "
                       "+-1e-9/1e-6, tau in {0, +-1e-5, +-1e-2, +-1}, transverse momenta +-2e-3, float64 and float32; every case calls the real "
                       "conversion functions (kinds: bmad = *_z_pz helpers, coords = full-coordinate wrappers *_coords, si = ParticleBeam SI conversions); non-trivial = at least one particle with delta != 0 and tau != 0; distinct by full input; "
                       "stateful = one ParticleBeam object (scalar or vectorised, float32/float64) taken through 2-7 steps (use, set energy / "
                       "particles / a coordinate / charges, energy *= f, .to(dtype), clone, index), all values physical at every use")
    if replay:
        return do_replay(run, replay)
    proof_ok = run.proof_stage()
    # second tie (Bmad-X / conversions): re-translated from REPO's source and proved equal to Bmadx/*.v, Beam/SI.v (Gen/BmadxGenEquiv.v)
    import translate_stage
    trx = translate_stage.translator_obligation_bmadx(run)
    if trx["status"] != "ok":
        run.notes.append("translator obligation (bmadx): " + json.dumps(translate_stage.replay_fields_bmadx(trx))[:600])
    if not proof_ok:
        run.notes.append(run.proof_problem)
    meV, mkg, c, mc = consts()
    run.cov["constants"] = {"electron_mass_eV": meV, "electron_mass": mkg, "speed_of_light": c, "electron_mass*speed_of_light": mc}

    n_b = 240 if thorough else 18
    n_s = 160 if thorough else 12
    n_c = 80 if thorough else 10
    cases, goals, owner, bad_new, known_hits = [], [], [], [], {}
    for k in range(n_b + n_s + n_c):
        dtype = "float64" if k % 3 != 2 else "float32"
        case = gen_bmad_case(run.rng, dtype) if k < n_b else gen_si_case(run.rng, dtype) if k < n_b + n_s else gen_coords_case(run.rng, dtype)
        observe, mk_goals, oracle = {"bmad": (observe_bmad, bmad_goals, oracle_bmad), "si": (observe_si, si_goals, oracle_si),
                                     "coords": (observe_coords, coords_goals, oracle_coords)}[case["kind"]]
        if case["kind"] == "bmad":
            nontriv = any(t != 0 and d != 0 for t, d in zip(case["tau"], case["delta"]))
        else:
            nontriv = any(p[4] != 0 and p[5] != 0 for p in case["particles"])
        try:
            obs = observe(case)
        except Exception as ex:  # noqa -- an exception of the implementation on a valid input is an observation
            run.add_case(case, nontriv)
            run.count(f"{case['kind']}_{dtype}")
            run.count("implementation_raises")
            bad_new.append({"case": case, "failure": {"what": "the conversion raises on a physical input", "observed": repr(ex)[:300]}})
            continue
        try:
            gs = mk_goals(case, obs)
            bad = oracle(case, obs)
        except Exception as ex:  # noqa -- malformed results (wrong shape/type) of the implementation
            gs = []
            bad = [{"what": "the results of the conversion cannot be evaluated (wrong shape or type)", "observed": repr(ex)[:300]}]
        want = "torch." + dtype
        if case["kind"] != "coords" and any(d != want for d in obs["dtypes"]):
            bad.append({"what": "dtype of a conversion result differs from the input dtype", "observed": obs["dtypes"], "expected": want})
        run.add_case(case, nontriv)
        run.count(f"{case['kind']}_{dtype}")
        run.count("energy_decade_1e%d" % int(math.log10(case["E0"])))
        run.sample({"case": case, "observed": obs})
        for b in bad:
            tag = classify_si(case, b) if case["kind"] == "si" else None
            if tag:
                known_hits.setdefault(tag, []).append({"case": case, "item": b})
            else:
                bad_new.append({"case": case, "failure": b, "observed": obs})
        cases.append((case, obs))
        for g in gs:
            goals.append((g[0], g[1]))
            owner.append((len(cases) - 1, g[2]))
    # ---- stateful sequences on one beam object (uses, assignments, .to, clone, indexing; then every conversion again)
    n_h = 400 if thorough else 36
    n_h_goals = 60 if thorough else 10
    for k in range(n_h):
        dtype = "float64" if k % 3 != 2 else "float32"
        case = gen_stateful_case(run.rng, dtype)
        run.add_case(case, True)
        run.count(f"stateful_{dtype}")
        for st in case["steps"]:
            run.count("stateful_step_" + st["op"])
        run.count("stateful_vectorised_start" if isinstance(case["E0"], list) else "stateful_scalar_start")
        try:
            so = observe_stateful(case)
            sbad = oracle_stateful(case, so)
        except Exception as ex:  # noqa -- an exception of the implementation on a valid sequence is an observation
            run.count("implementation_raises")
            bad_new.append({"case": case, "failure": {"what": "a step of the sequence / a conversion after it raises", "observed": repr(ex)[:300]}})
            continue
        run.count("stateful_final_" + so["final"]["dtype"] + ("_vectorised" if isinstance(so["final"]["E0"], list) else ""))
        for fc, b in sbad:
            tag = classify_si(fc, b) if fc is not None else None
            if tag:
                known_hits.setdefault(tag, []).append({"case": fc, "item": b})
            else:
                bad_new.append({"case": case, "failure": b, "final_values": fc, "observed": so["state"]})
        if k < n_h_goals:
            smp = so["samples"][0]
            try:
                gs = si_goals(smp["case"], smp["obs"])
            except Exception:  # noqa -- malformed observation: reported by the oracle above
                gs = []
            cases.append((dict(case, final_values=smp["case"]), smp["obs"]))
            for g in gs:
                goals.append((g[0], g[1]))
                owner.append((len(cases) - 1, "after a history: " + g[2]))
    failing, errs = common.run_real_goals(PID, "conv", PRE, goals)
    run.cov["traces_validated_against_impl"] += len(cases)
    run.cov["interval_goals"] = len(goals)
    vect = oracle_vectorised(run)
    run.cov["tested_only"] = ["float32 SI conversions (only the oracle; the model is a real-number formula and float32 squares of SI momenta underflow)",
                              "dtype preservation of conversion results",
                              "stateful sequences on one beam object (read derived properties / convert, assign energy, particles, charges, "
                              "coordinate setters, energy *= f, .to(dtype), clone, index a vectorised beam, then convert again): the object "
                              "holds the assigned values; every SI definition / round trip holds for the FINAL values (60-digit oracle); the "
                              "object agrees with a freshly built beam of the final values to 64 ulp x conditioning; the first sequences also "
                              "go through the Coq model by interval goals",
                              "full-coordinate wrappers cheetah_to_bmad_coords / bmad_to_cheetah_coords: transverse columns copied bit for bit, "
                              "shapes, vectorised == per setting, inputs not modified (their longitudinal outputs are also checked against the Coq model)", "vectorised ParticleBeam.energies (F17)"]

    # ---- known findings: replay the stored inputs, classify
    listed = {f["id"]: f for f in common.load_known_findings(PID) if f.get("status") == "known"}
    for fid, fnd in listed.items():
        r = fnd["replay"]
        if r.get("kind") == "si":
            try:
                hit = [b for b in oracle_si(r, observe_si(r)) if classify_si(r, b) == fid]
            except Exception as ex:  # noqa -- not the listed signature; the generated cases report an implementation that raises
                hit = []
                run.notes.append(f"replay of known finding {fid} raises: {repr(ex)[:200]}")
            if hit:
                run.known(fnd["what"])
            else:
                run.cov["known_findings_not_reproduced"].append(fid)
        elif r.get("kind") == "vectorised_energies":
            if any(v["result"] != "ok" for v in vect):
                run.known(fnd["what"])
            else:
                run.cov["known_findings_not_reproduced"].append(fid)
    for tag, items in known_hits.items():
        if tag in listed:
            run.known(listed[tag]["what"])
            run.count("known_" + tag, len(items))
        else:
            bad_new += [{"case": it["case"], "failure": it["item"]} for it in items]
    if any(v["result"] != "ok" for v in vect) and "F17" not in listed:
        bad_new.append({"case": {"kind": "vectorised_energies"}, "failure": vect})

    # ---- verdict
    if bad_new:
        b = bad_new[0]
        run.violation({"kind": "oracle", "case": b["case"], "failure": b["failure"],
                       "relation": "round trip / documented definition evaluated on the implementation"})
    elif failing:
        i = failing[0]
        ci, what = owner[i]
        run.violation({"kind": "correspondence", "broken": f"Coq model of the conversion ({what}) disagrees with the implementation",
                       "case": cases[ci][0], "observed": cases[ci][1], "goal": goals[i][0], "coq_error": errs.get(i, "")[-400:],
                       "n_failing_goals": len(failing)}, no_input=True)
    elif trx["status"] != "ok":
        # the Bmad-X / conversion source no longer translates to the proved model; none of this run's oracles found a failing input
        run.violation(translate_stage.replay_fields_bmadx(trx), no_input=True)
    elif not proof_ok:
        run.violation({"kind": "proof", "broken": run.proof_problem}, no_input=True)
    return run.finish("proof")


def guarded(fn):
    try:
        return fn()
    except Exception as ex:  # noqa
        return [{"what": "the conversion raises on this input", "observed": repr(ex)[:300]}]


def do_replay(run, path):
    r = json.loads(open(path).read())
    case = r["case"]
    if case.get("kind") == "bmad":
        bad = guarded(lambda: oracle_bmad(case, observe_bmad(case)))
    elif case.get("kind") == "coords":
        bad = guarded(lambda: oracle_coords(case, observe_coords(case)))
    elif case.get("kind") == "si":
        bad = guarded(lambda: [b for b in oracle_si(case, observe_si(case)) if not classify_si(case, b)])
    elif case.get("kind") == "stateful":
        bad = guarded(lambda: [b for fc, b in oracle_stateful(case, observe_stateful(case)) if fc is None or not classify_si(fc, b)])
    else:
        bad = [v for v in oracle_vectorised(run) if v["result"] != "ok"]
    print("replay:", "property holds on this input" if not bad else f"property FAILS on this input: {json.dumps(bad[:3])}")
    return 1 if bad else 0
