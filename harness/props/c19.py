"""C19 -- Space-charge kicks change momenta only and scale with charge and length.   (level: partial)

proof stage      : Props/C19.v.  Part 1 (model SpaceCharge/Cic.v, proofs CicProofs.v): cloud-in-cell weights, deposition, gathering and
                   the kick algebra with the field solve as an arbitrary linear grid operator.  Part 2 (model SpaceCharge/Hockney.v, proofs
                   HockneyProofs.v): the structure of the field solve -- zero padding, mirrored doubled Green array, cyclic convolution, crop,
                   central differences, -1/gamma^2: cropped cyclic convolution == open-boundary sum (1-D, 3-D), linearity (instance of the
                   hypotheses of part 1), mirror symmetry, Newton's third law on the grid.  Part 3 (SpaceCharge/Igf.v, reals): the
                   _integrated_potential formula is odd per argument, G_values depends on |offsets| only; 1/gamma^2 cancellation.
correspondence   : the real SpaceChargeKick._deposit_charge_on_grid is called on dyadic inputs (float64: every value exact) and the
                   whole returned grid is compared with the Q model by vm_compute; the real _compute_forces is called with
                   _E_plus_vB_field replaced by a known integer-valued grid and the gathered forces are compared with the model
                   (tolerance 1e-12 relative: the factor e is not dyadic).
                   Hockney layer (HockneyCheck.v): on small grids, batches with anisotropic cells and different energies,
                   (a) every entry of the real _integrated_green_function array sits where green3 says (exact; G := its own first octant),
                   (b) the real _solve_poisson_equation on integer densities (deposition replaced by known data; _array_rho, Green array,
                       rfftn/irfftn, crop real) == the model's cyclic convolution with that G (1e-9 of k0 max|G| sum|rho|),
                   (c) the real _E_plus_vB_field on a known integer potential == the model's stencil (1e-12),
                   (d) the real _E_plus_vB_field on a known density == hsolve, the object the theorems speak about.
oracle           : metamorphic relations on full SpaceChargeKick.track runs (float64): untouched positions/charges/survival/energy,
                   dp ~ charge, dp ~ effect_length, permutation equivariance, zero charge, lost particles, vectorised == loop,
                   outward push; thorough tier: uniformly charged sphere vs the analytic field.
                   Hockney layer: independent numpy references (mirror layout, 8-corner antiderivative sum for the Green values, direct
                   open-boundary summation, central differences) give a concrete failing input (kind "hockney", replayable).
                   hidden state: ONE element instance tracks a sequence of different beams (same coordinates at other energies, other
                   charges, other sizes, a vectorised beam, the first beam again); every result must equal what a freshly constructed
                   element with the same parameters returns (1e-12 of the kick), and the element's parameters must not change.
                   Exceptions raised by the implementation are observations (clause "raises"), never a crash of the check.
"""
import json
import math

import torch

import common
from common import coq_list, qlit, zlit

PID = "C19"
PRE = """From Coq Require Import List Bool ZArith QArith.
From Cheetah Require Import SpaceCharge.Cic SpaceCharge.CicCheck.
Import ListNotations. Open Scope Q_scope."""
D = torch.float64
THIRD_LAW = 0.25   # |sum w dp| / sum |w dp|: not exactly zero (zero-gradient boundary rows, particles outside the grid); calibrated
REL = 1e-6          # relative tolerance of the metamorphic relations (float32 module constants: finding F16 of C12/C18)


def qz(x):
    return "0" if x == 0 else qlit(float(x))


def q3(v):
    return f"({qz(v[0])}, {qz(v[1])}, {qz(v[2])})"


def z3(v):
    return f"({zlit(v[0])}, {zlit(v[1])}, {zlit(v[2])})%Z"


def coq_spart(p):
    return f"(mksp {qz(p['x'])} 0 {qz(p['y'])} 0 {qz(p['z'])} 0 {qz(p['q'])} {qz(p['s'])})"


def coq_geom(gm):
    return f"(mkgeom {q3(gm['gd'])} {q3(gm['cell'])} {z3(gm['shape'])})"


# ------------------------------------------------------------------------------------------------ exact layer: deposit / gather
def gen_geom(rng, thorough):
    hi = 8 if thorough else 6
    shape = [rng.randrange(4, hi + 1) for _ in range(3)]
    cell = [2.0 ** rng.randrange(-3, 2) for _ in range(3)]
    gd = [shape[i] * cell[i] / 2 for i in range(3)]
    return dict(shape=shape, cell=cell, gd=gd)


def gen_sparts(rng, gm, n):
    parts = []
    for _ in range(n):
        pos = []
        for a in range(3):
            # multiples of cell/8, reaching half a cell beyond the grid on both sides
            k = rng.randrange(-4 * gm["shape"][a] - 4, 4 * gm["shape"][a] + 5)
            pos.append(k * gm["cell"][a] / 8)
        parts.append(dict(x=pos[0], y=pos[1], z=pos[2], q=rng.randrange(1, 9) / 4, s=rng.choice([1.0, 1.0, 0.5, 0.25, 0.0])))
    return parts


def mk_kick(shape, L=0.125):
    import cheetah
    return cheetah.SpaceChargeKick(effect_length=torch.tensor(L, dtype=D), num_grid_points_x=shape[0], num_grid_points_y=shape[1],
                                   num_grid_points_tau=shape[2], dtype=D)


def mk_vbeam(batches):
    """a vectorised (B, n) ParticleBeam carrying only what _deposit_charge_on_grid/_compute_forces read from it."""
    import cheetah
    B, n = len(batches), len(batches[0])
    P = torch.zeros((B, n, 7), dtype=D)
    P[..., 6] = 1
    q = torch.tensor([[p["q"] for p in b] for b in batches], dtype=D)
    s = torch.tensor([[p["s"] for p in b] for b in batches], dtype=D)
    return cheetah.ParticleBeam(particles=P, energy=torch.full((B,), 1e8, dtype=D), particle_charges=q, survival_probabilities=s)


def xp_of(batches):
    B, n = len(batches), len(batches[0])
    xp = torch.zeros((B, n, 7), dtype=D)
    xp[..., 6] = 1
    for k, b in enumerate(batches):
        for i, p in enumerate(b):
            xp[k, i, 0], xp[k, i, 2], xp[k, i, 4] = p["x"], p["y"], p["z"]
    return xp


def observe_deposit(shape, geoms, batches):
    """geoms: per batch entry cell/gd (same shape).  Returns per batch entry the list of non-zero grid entries."""
    el = mk_kick(shape)
    cell = torch.tensor([g["cell"] for g in geoms], dtype=D)
    gd = torch.tensor([g["gd"] for g in geoms], dtype=D)
    rho = el._deposit_charge_on_grid(mk_vbeam(batches), xp_of(batches), cell, gd)
    assert tuple(rho.shape) == (len(batches), *shape), f"deposit grid has shape {tuple(rho.shape)}"
    out = []
    for k in range(len(batches)):
        nz = rho[k].nonzero().tolist()
        out.append([(tuple(ix), float(rho[k][tuple(ix)])) for ix in nz])
    return out


FIELD = dict(a=3, b=5, c=7, d=1, m=23, h=11)


def field_tensor(shape, comp):
    i, j, k = torch.meshgrid(torch.arange(shape[0]), torch.arange(shape[1]), torch.arange(shape[2]), indexing="ij")
    f = (FIELD["a"] * i + FIELD["b"] * j + FIELD["c"] * k + FIELD["d"] * i * j * k + comp) % FIELD["m"] - FIELD["h"]
    return f.to(D)


def observe_gather(shape, geoms, batches):
    el = mk_kick(shape)
    B = len(batches)
    grids = tuple(field_tensor(shape, c).unsqueeze(0).repeat(B, 1, 1, 1) for c in range(3))
    el._E_plus_vB_field = lambda *a, **k: grids          # the field solve replaced by a known grid
    cell = torch.tensor([g["cell"] for g in geoms], dtype=D)
    gd = torch.tensor([g["gd"] for g in geoms], dtype=D)
    f = el._compute_forces(mk_vbeam(batches), xp_of(batches), cell, gd)
    assert tuple(f.shape) == (B, len(batches[0]), 3), f"forces have shape {tuple(f.shape)}"
    return f.tolist()


def cic_one(gm, parts):
    from scipy.constants import elementary_charge
    bad = []
    inp = dict(geom=gm, particles=parts)
    try:
        obs = observe_deposit(gm["shape"], [gm], [parts])[0]
        tot = sum(v for _, v in obs) * gm["cell"][0] * gm["cell"][1] * gm["cell"][2]
        want = sum(p["q"] * p["s"] for p in parts)
        if tot != want:
            bad.append(dict(kind="cic", clause="deposit_conserves_charge", detail={"deposited": tot, "charge_times_survival": want}, **inp))
        el = mk_kick(gm["shape"])
        consts = [3.0, -2.0, 5.0]
        grids = tuple(torch.full((1, *gm["shape"]), c, dtype=D) for c in consts)
        el._E_plus_vB_field = lambda *a, **k: grids
        f = el._compute_forces(mk_vbeam([parts]), xp_of([parts]), torch.tensor([gm["cell"]], dtype=D), torch.tensor([gm["gd"]], dtype=D))
        dev = float((f[0] / elementary_charge - torch.tensor(consts, dtype=D)).abs().max())
        if dev > 1e-12:
            bad.append(dict(kind="cic", clause="gather_uniform_field", detail={"max_dev": dev}, **inp))
    except Exception as ex:  # noqa
        bad.append(dict(kind="cic", clause="raises", detail=repr(ex)[:300], **inp))
    return bad


def oracle_cic(run, thorough):
    """on the implementation alone: particles whose 8 surrounding grid points all exist deposit exactly their charge * survival
    (sum(rho) * cell volume), and gather a uniform force field without distortion (force = e * f)."""
    from scipy.constants import elementary_charge
    bad = []
    rng = run.rng
    for _ in range(40 if thorough else 10):
        gm = gen_geom(rng, thorough)
        n = rng.randrange(1, 12)
        parts = []
        for _i in range(n):
            pos = [(-gm["gd"][a] + rng.randrange(0, 8 * (gm["shape"][a] - 1)) * gm["cell"][a] / 8) for a in range(3)]
            parts.append(dict(x=pos[0], y=pos[1], z=pos[2], q=rng.randrange(1, 9) / 4, s=rng.choice([1.0, 0.5, 0.25, 0.0])))
        bad += cic_one(gm, parts)
        run.add_case(["cic", gm, parts], True)
        run.count("cic_oracle_cases")
    return bad


def exact_layer(run, n_cases, thorough):
    from scipy.constants import elementary_charge
    dterms, gterms, dcases, gcases, errors = [], [], [], [], []
    for _ in range(n_cases):
        rng = run.rng
        B = rng.choice([1, 1, 2])
        g0 = gen_geom(rng, thorough)
        geoms = [g0] + [dict(shape=g0["shape"], cell=[2.0 ** rng.randrange(-3, 2) for _ in range(3)], gd=None) for _ in range(B - 1)]
        for g in geoms:
            g["gd"] = [g["shape"][i] * g["cell"][i] / 2 for i in range(3)]
        n = rng.randrange(2, 31 if thorough else 13)
        batches = [gen_sparts(rng, g, n) for g in geoms]
        try:
            obs = observe_deposit(g0["shape"], geoms, batches)
            fobs = observe_gather(g0["shape"], geoms, batches)
        except Exception as ex:  # noqa
            errors.append(dict(kind="exact", clause="raises", detail=repr(ex)[:300], geoms=geoms, batches=batches))
            continue
        for k in range(B):
            inside = sum(1 for p in batches[k] if all(abs(p[c]) < geoms[k]["gd"][i] for i, c in enumerate("xyz")))
            run.add_case(["deposit", geoms[k], batches[k]], inside > 0 and any(p["q"] * p["s"] != 0 for p in batches[k]))
            run.count("deposit_grid_%dx%dx%d" % tuple(g0["shape"]))
            run.count("deposit_particles_inside", inside)
            run.count("deposit_particles_outside_or_edge", n - inside)
            ob = coq_list([f"({z3(ix)}, {qz(v)})" for ix, v in obs[k]])
            dterms.append(f"mkc19 {coq_geom(geoms[k])} {coq_list([coq_spart(p) for p in batches[k]])} {ob}")
            dcases.append(dict(geom=geoms[k], particles=batches[k], observed_nonzero=[[list(ix), v] for ix, v in obs[k]]))
            tol = 1e-12 * elementary_charge * FIELD["m"]
            fo = coq_list([f"({qz(v[0])}, {qz(v[1])}, {qz(v[2])})" for v in fobs[k]])
            coef = f"({FIELD['a']}, {FIELD['b']}, {FIELD['c']}, {FIELD['d']}, {FIELD['m']}, {FIELD['h']})%Z"
            gterms.append(f"mkc19g {coq_geom(geoms[k])} {coq_list([coq_spart(p) for p in batches[k]])} {qlit(elementary_charge)} {coef} {fo} {qlit(tol)}")
            gcases.append(dict(geom=geoms[k], particles=batches[k], observed_forces=fobs[k]))
    if dcases:
        run.sample({"deposit_case": dcases[0]})
    return dterms, gterms, dcases, gcases, errors


# ------------------------------------------------------------------------------------------------ Hockney field solve
PRE_H = """From Coq Require Import List Bool Arith ZArith QArith.
From Cheetah Require Import SpaceCharge.Cic SpaceCharge.Hockney SpaceCharge.HockneyCheck.
Import ListNotations. Open Scope Q_scope."""
ME_EV = 510998.95            # eV; only used to choose beam energies (the gamma the code derives is read back from the beam)
H_FIXED_SHAPES = [(2, 3, 4), (4, 4, 4), (3, 5, 2)]
H_REL_FFT = 1e-9             # FFT round-off: relative to k0 * max|G| * sum|rho|
H_REL_FIELD = 1e-12          # stencil round-off (1/cell, 1/gamma^2 are rounded floats): relative to max|phi| * igamma2 / cell


def arr3(a):
    return coq_list([coq_list([coq_list([qz(v) for v in row]) for row in pl]) for pl in a])


def sh3(shape):
    return f"({shape[0]}, {shape[1]}, {shape[2]})%nat"


def gen_hshape(rng, k, thorough):
    if k < len(H_FIXED_SHAPES):
        return list(H_FIXED_SHAPES[k])
    hi = 6 if thorough else 5
    while True:
        sh = [rng.choice([1, 2, 3, 3, 4, 4, 5, hi]) for _ in range(3)]
        if sh[0] * sh[1] * sh[2] <= (125 if thorough else 64):
            return sh


def gen_density(rng, shape, kind):
    nx, ny, nz = shape
    rho = [[[0 for _ in range(nz)] for _ in range(ny)] for _ in range(nx)]
    cells = [(i, j, k) for i in range(nx) for j in range(ny) for k in range(nz)]
    if kind == "delta":
        pick = [rng.choice(cells)]
    elif kind == "corners":      # cells on the faces of the grid: where a wrap-around image would be felt first
        face = [c for c in cells if any(c[a] in (0, shape[a] - 1) for a in range(3))]
        pick = rng.sample(face, min(len(face), rng.randrange(1, 5)))
    elif kind == "sparse":
        pick = rng.sample(cells, max(1, len(cells) // 4))
    else:
        pick = cells
    for (i, j, k) in pick:
        rho[i][j][k] = rng.choice([-5, -3, -2, -1, 1, 1, 2, 3, 4, 7])
    return rho


def gen_hcase(rng, k, thorough):
    shape = gen_hshape(rng, k, thorough)
    B = rng.choice([1, 1, 2, 3])
    kinds = ["delta", "corners", "sparse", "dense"]
    return dict(shape=shape, B=B,
                cell=[[rng.choice([1.0, 0.5, 2.0, 0.3, 1.7, 0.04]) * 10 ** rng.uniform(-5, -3) for _ in range(3)] for _ in range(B)],
                gamma_target=[10 ** rng.uniform(0.2, 3.3) for _ in range(B)],
                kind=[kinds[(k + b) % 4] for b in range(B)],
                rho=[gen_density(rng, shape, kinds[(k + b) % 4]) for b in range(B)],
                phi=[[[[rng.randrange(-20, 21) for _ in range(shape[2])] for _ in range(shape[1])] for _ in range(shape[0])] for _ in range(B)])


def h_beam(case):
    import cheetah
    B = case["B"]
    P = torch.zeros((B, 1, 7), dtype=D)
    P[..., 6] = 1
    en = torch.tensor([g * ME_EV for g in case["gamma_target"]], dtype=D)
    return cheetah.ParticleBeam(particles=P, energy=en, particle_charges=torch.ones((B, 1), dtype=D)), P.clone()


def ipot_np(x, y, t):
    import numpy as np
    r = np.sqrt(x * x + y * y + t * t)
    return (-0.5 * t * t * np.arctan(x * y / (t * r)) - 0.5 * y * y * np.arctan(x * t / (y * r)) - 0.5 * x * x * np.arctan(y * t / (x * r))
            + y * t * np.arcsinh(x / np.sqrt(y * y + t * t)) + x * t * np.arcsinh(y / np.sqrt(x * x + t * t))
            + x * y * np.arcsinh(t / np.sqrt(x * x + y * y)))


def igf_reference(shape, cell, gamma):
    """the integrated Green function of the first octant, written independently: the integral of 1/r over one cell centred at
    (i dx, j dy, k dtau gamma) = alternating sum of the antiderivative over the 8 cell corners."""
    import numpy as np
    dx, dy, dt = cell[0], cell[1], cell[2] * gamma
    i, j, k = np.meshgrid(np.arange(shape[0], dtype=float), np.arange(shape[1], dtype=float), np.arange(shape[2], dtype=float), indexing="ij")
    G = np.zeros(tuple(shape))
    for sx in (1, -1):
        for sy in (1, -1):
            for st in (1, -1):
                G += sx * sy * st * ipot_np((i + 0.5 * sx) * dx, (j + 0.5 * sy) * dy, (k + 0.5 * st) * dt)
    return G


def mirror_reference(G):
    """the doubled array Hockney's method needs, built independently of the code's slicing: entry m of an axis with n points
    holds G[m] (m < n), nothing (m = n), G[2n - m] (m > n)."""
    import numpy as np
    n = G.shape
    out = np.zeros(tuple(2 * v for v in n))
    src = [[m if m < v else (None if m == v else 2 * v - m) for m in range(2 * v)] for v in n]
    for a, ia in enumerate(src[0]):
        for b, ib in enumerate(src[1]):
            for c, ic in enumerate(src[2]):
                if ia is not None and ib is not None and ic is not None:
                    out[a, b, c] = G[ia, ib, ic]
    return out


def open_sum_reference(G, rho):
    """phi(i,j,k) = sum over the physical grid of G(|i-i'|,|j-j'|,|k-k'|) rho(i',j',k') by direct summation."""
    import numpy as np
    n = rho.shape
    out = np.zeros(n)
    ii = [np.abs(np.arange(v)[:, None] - np.arange(v)[None, :]) for v in n]
    for i in range(n[0]):
        for j in range(n[1]):
            for k in range(n[2]):
                out[i, j, k] = (G[ii[0][i][:, None, None], ii[1][j][None, :, None], ii[2][k][None, None, :]] * rho).sum()
    return out


def field_reference(phi, cell, ig2):
    import numpy as np
    out = []
    for ax in range(3):
        g = np.zeros(phi.shape)
        if phi.shape[ax] >= 3:
            sl = [slice(None)] * 3
            hi, lo, mid = list(sl), list(sl), list(sl)
            hi[ax], lo[ax], mid[ax] = slice(2, None), slice(None, -2), slice(1, -1)
            g[tuple(mid)] = (phi[tuple(hi)] - phi[tuple(lo)]) * 0.5 / cell[ax]
        out.append(-ig2 * g)
    return out


def h_observe(case, stages=("green", "potential", "field", "solve")):
    """drive the real code.  Only the deposition (for potential/solve) resp. the Poisson solve (for field) is replaced by known data."""
    from scipy.constants import epsilon_0
    shape = case["shape"]
    beam, xp = h_beam(case)
    cell = torch.tensor(case["cell"], dtype=D)
    gd = cell * torch.tensor(shape, dtype=D) / 2
    rho = torch.tensor(case["rho"], dtype=D)
    phi = torch.tensor(case["phi"], dtype=D)
    obs = dict(gamma=[float(g) for g in beam.relativistic_gamma], k0=float(1 / (4 * torch.pi * epsilon_0)))
    if "green" in stages:
        obs["green"] = mk_kick(shape)._integrated_green_function(beam, cell).tolist()
    if "potential" in stages:
        el = mk_kick(shape)
        el._deposit_charge_on_grid = lambda *a, **k: rho.clone()
        obs["potential"] = el._solve_poisson_equation(beam, xp, cell, gd).tolist()
    if "field" in stages:
        el = mk_kick(shape)
        el._solve_poisson_equation = lambda *a, **k: phi.clone()
        obs["field"] = [t.tolist() for t in el._E_plus_vB_field(beam, xp, cell, gd)]
    if "solve" in stages:
        el = mk_kick(shape)
        el._deposit_charge_on_grid = lambda *a, **k: rho.clone()
        obs["solve"] = [t.tolist() for t in el._E_plus_vB_field(beam, xp, cell, gd)]
    return obs


def h_oracle(case, obs):
    """differential oracle on the implementation alone (numpy, float64): returns a list of (clause, detail)."""
    import numpy as np
    bad = []
    shape = tuple(case["shape"])
    dshape = tuple(2 * v for v in shape)
    for b in range(case["B"]):
        cell, gamma, k0 = case["cell"][b], obs["gamma"][b], obs["k0"]
        ig2 = 0.0 if gamma == 0 else 1 / gamma ** 2
        rho, phi = np.array(case["rho"][b], dtype=float), np.array(case["phi"][b], dtype=float)
        green = np.array(obs["green"][b])
        if green.shape != dshape:
            bad.append(("green_function_shape", {"sample": b, "shape": list(green.shape), "expected": list(dshape)}))
            continue
        G = green[: shape[0], : shape[1], : shape[2]]
        want = mirror_reference(G)
        if not np.array_equal(green, want):
            ix = [int(v) for v in np.argwhere(green != want)[0]]
            bad.append(("green_function_layout", {"sample": b, "doubled_index": ix, "observed": float(green[tuple(ix)]), "expected": float(want[tuple(ix)]),
                                                   "expected_is": "G[m] for m < n, 0 at m = n, G[2n - m] for m > n, per axis, G = the array's own first octant"}))
        Gref = igf_reference(shape, cell, gamma)
        dev = float(np.abs(G - Gref).max())
        if not dev <= 1e-9 * float(np.abs(Gref).max()):
            ix = [int(v) for v in np.unravel_index(np.abs(G - Gref).argmax(), shape)]
            bad.append(("green_function_values", {"sample": b, "index": ix, "observed": float(G[tuple(ix)]), "expected": float(Gref[tuple(ix)]),
                                                   "expected_is": "integral of 1/r over the cell (8-corner sum of the antiderivative), tau scaled by gamma"}))
        if "potential" in obs:
            pot = np.array(obs["potential"][b])
            wantp = k0 * open_sum_reference(G, rho)
            tol = H_REL_FFT * k0 * float(np.abs(G).max()) * float(np.abs(rho).sum())
            if pot.shape != shape or not float(np.abs(pot - wantp).max()) <= tol:
                ix = [int(v) for v in np.unravel_index(np.abs(pot - wantp).argmax(), shape)] if pot.shape == shape else None
                bad.append(("potential_is_open_boundary_sum", {"sample": b, "index": ix, "observed": float(pot[tuple(ix)]) if ix else list(pot.shape),
                                                                "expected": float(wantp[tuple(ix)]) if ix else list(shape), "tolerance": tol,
                                                                "expected_is": "k0 * sum_{cells'} G(|i-i'|,|j-j'|,|k-k'|) rho(cell'), G = first octant of the code's own Green array"}))
        if "field" in obs:
            wantf = field_reference(phi, cell, ig2)
            for c in range(3):
                f = np.array(obs["field"][c][b])
                tol = H_REL_FIELD * ig2 * float(np.abs(phi).max()) / cell[c]
                if f.shape != shape or not float(np.abs(f - wantf[c]).max()) <= tol:
                    ix = [int(v) for v in np.unravel_index(np.abs(f - wantf[c]).argmax(), shape)] if f.shape == shape else None
                    bad.append(("field_is_central_difference", {"sample": b, "component": c, "index": ix, "observed": float(f[tuple(ix)]) if ix else list(f.shape),
                                                                 "expected": float(wantf[c][tuple(ix)]) if ix else list(shape), "tolerance": tol,
                                                                 "expected_is": "-(1/gamma^2) (phi[i+1] - phi[i-1]) / (2 cell) on [1:-1], 0 on the two boundary planes"}))
        if "solve" in obs:
            wants = field_reference(k0 * open_sum_reference(G, rho), cell, ig2)
            for c in range(3):
                f = np.array(obs["solve"][c][b])
                tol = H_REL_FFT * k0 * float(np.abs(G).max()) * float(np.abs(rho).sum()) * ig2 / cell[c]
                if f.shape != shape or not float(np.abs(f - wants[c]).max()) <= tol:
                    ix = [int(v) for v in np.unravel_index(np.abs(f - wants[c]).argmax(), shape)] if f.shape == shape else None
                    bad.append(("force_is_difference_of_open_boundary_sum", {"sample": b, "component": c, "index": ix,
                                                                              "observed": float(f[tuple(ix)]) if ix else list(f.shape),
                                                                              "expected": float(wants[c][tuple(ix)]) if ix else list(shape), "tolerance": tol}))
    return bad


def h_terms(case, obs):
    """Coq case terms (one per sample of the batch) for the four checkers of HockneyCheck.v."""
    import numpy as np
    shape = case["shape"]
    N = shape[0] * shape[1] * shape[2]
    out = dict(green=[], potential=[], potential_open=[], field=[], solve=[])
    for b in range(case["B"]):
        cell, gamma, k0 = case["cell"][b], obs["gamma"][b], obs["k0"]
        ig2 = 0.0 if gamma == 0 else 1 / gamma ** 2
        green = np.array(obs["green"][b])
        G = green[: shape[0], : shape[1], : shape[2]]
        if green.shape != tuple(2 * v for v in shape):
            out["green"].append("mkhg (0, 0, 0)%nat [[[1]]]")          # wrong shape: a case that fails
            continue
        out["green"].append(f"mkhg {sh3(shape)} {arr3(green.tolist())}")
        sabs = float(np.abs(G).max()) * float(np.abs(np.array(case["rho"][b])).sum())
        tolp = H_REL_FFT * k0 * sabs
        pterm = f"mkhp {sh3(shape)} {qlit(k0)} {arr3(G.tolist())} {arr3(case['rho'][b])} {arr3(obs['potential'][b])} {qlit(tolp)}"
        (out["potential"] if N <= 64 else out["potential_open"]).append(pterm)
        maxphi = float(np.abs(np.array(case["phi"][b])).max())
        tolf = "(" + ", ".join(qlit(H_REL_FIELD * ig2 * maxphi / cell[c]) for c in range(3)) + ")"
        fo = "(" + ", ".join(arr3(obs["field"][c][b]) for c in range(3)) + ")"
        out["field"].append(f"mkhf {sh3(shape)} {q3(cell)} {qlit(gamma)} {arr3(case['phi'][b])} {fo} {tolf}")
        if N <= 36:
            tols = "(" + ", ".join(qlit(H_REL_FFT * k0 * sabs * ig2 / cell[c]) for c in range(3)) + ")"
            so = "(" + ", ".join(arr3(obs["solve"][c][b]) for c in range(3)) + ")"
            out["solve"].append(f"mkhs {sh3(shape)} {q3(cell)} {qlit(k0)} {qlit(gamma)} {arr3(G.tolist())} {arr3(case['rho'][b])} {so} {tols}")
    return out


def hockney_layer(run, n_cases, thorough):
    """returns (oracle failures, Coq terms per checker, the cases each term came from)."""
    bad, terms, origin = [], dict(green=[], potential=[], potential_open=[], field=[], solve=[]), dict(green=[], potential=[], potential_open=[], field=[], solve=[])
    for k in range(n_cases):
        case = gen_hcase(run.rng, k, thorough)
        run.add_case(["hockney", case], any(v != 0 for b in case["rho"] for pl in b for row in pl for v in row))
        run.count("hockney_grid_%dx%dx%d" % tuple(case["shape"]))
        run.count("hockney_batch_%d" % case["B"])
        run.count("hockney_grid_cubic" if len(set(case["shape"])) == 1 else "hockney_grid_non_cubic")
        for b in range(case["B"]):
            run.count("hockney_density_" + case["kind"][b])
            c = case["cell"][b]
            run.count("hockney_cell_anisotropy_gt_3" if max(c) / min(c) > 3 else "hockney_cell_anisotropy_le_3")
            run.count("hockney_gamma_lt_10" if case["gamma_target"][b] < 10 else "hockney_gamma_ge_10")
        try:
            obs = h_observe(case)
            items = h_oracle(case, obs)
            t = h_terms(case, obs)
        except Exception as ex:  # noqa
            bad.append(dict(kind="hockney", clause="raises", detail=repr(ex)[:300], case=case))
            continue
        for clause, detail in items:
            bad.append(dict(kind="hockney", clause=clause, detail=detail, case=case))
        for name in terms:
            terms[name] += t[name]
            origin[name] += [case] * len(t[name])
        if k == 0:
            run.sample({"hockney_case": dict(shape=case["shape"], cell=case["cell"], gamma=obs["gamma"], rho=case["rho"][0],
                                             observed_potential=obs["potential"][0])})
    return bad, terms, origin


# ------------------------------------------------------------------------------------------------ full kicks
def gen_beam_spec(rng, thorough):
    n = rng.randrange(40, 400 if thorough else 160)
    sig = [10 ** rng.uniform(-4.3, -3), 10 ** rng.uniform(-4.3, -3), 10 ** rng.uniform(-4.5, -3.3)]
    # the grid is centred on the axis (finding F50): most bunches are centred, some are displaced by up to 2 sigma
    off = rng.random() < 0.3
    mu_sig = [rng.uniform(-2, 2), rng.uniform(-2, 2)] if off else [rng.uniform(-0.05, 0.05), rng.uniform(-0.05, 0.05)]
    return dict(n=n, seed=rng.randrange(1 << 30), sig=sig, mu_in_sigma=mu_sig,
                sigp=[10 ** rng.uniform(-6, -4), 10 ** rng.uniform(-6, -4), 10 ** rng.uniform(-5, -3)],
                mu=[mu_sig[0] * sig[0], mu_sig[1] * sig[1]],
                energy=10 ** rng.uniform(6.7, 9), charge=10 ** rng.uniform(-11, -9) * rng.choice([1, 1, -1]),
                grid=[rng.choice([8, 10, 12, 16]) for _ in range(3)], L=10 ** rng.uniform(-2, 0), extend=rng.choice([3, 3, 4, 2.5]),
                partial_survival=rng.random() < 0.4)


def build_beam(spec):
    import cheetah
    g = torch.Generator().manual_seed(spec["seed"])
    n = spec["n"]
    P = torch.zeros((n, 7), dtype=D)
    P[:, 6] = 1
    r = torch.randn((n, 6), generator=g, dtype=D)
    P[:, 0] = spec["mu"][0] + r[:, 0] * spec["sig"][0]
    P[:, 2] = spec["mu"][1] + r[:, 2] * spec["sig"][1]
    P[:, 4] = r[:, 4] * spec["sig"][2]
    P[:, 1] = r[:, 1] * spec["sigp"][0]
    P[:, 3] = r[:, 3] * spec["sigp"][1]
    P[:, 5] = r[:, 5] * spec["sigp"][2]
    q = torch.full((n,), spec["charge"] / n, dtype=D) * (0.5 + torch.rand((n,), generator=g, dtype=D))
    s = torch.ones((n,), dtype=D)
    if spec["partial_survival"]:
        s = torch.where(torch.rand((n,), generator=g, dtype=D) < 0.3, torch.rand((n,), generator=g, dtype=D), s)
    return cheetah.ParticleBeam(particles=P, energy=torch.tensor(spec["energy"], dtype=D), particle_charges=q, survival_probabilities=s)


def build_kick(spec, L=None):
    import cheetah
    return cheetah.SpaceChargeKick(effect_length=torch.tensor(spec["L"] if L is None else L, dtype=D), num_grid_points_x=spec["grid"][0],
                                   num_grid_points_y=spec["grid"][1], num_grid_points_tau=spec["grid"][2], grid_extend_x=spec["extend"],
                                   grid_extend_y=spec["extend"], grid_extend_tau=spec["extend"], dtype=D)


def with_(beam, **kw):
    import cheetah
    a = dict(particles=beam.particles, energy=beam.energy, particle_charges=beam.particle_charges, survival_probabilities=beam.survival_probabilities)
    a.update(kw)
    return cheetah.ParticleBeam(**a)


def roundtrip(beam):
    """cheetah -> SI -> cheetah without any kick: the baseline the kick is measured against (its own accuracy is C18's subject)."""
    import cheetah
    return cheetah.ParticleBeam.from_xyz_pxpypz(beam.to_xyz_pxpypz(), energy=beam.energy, particle_charges=beam.particle_charges,
                                                survival_probabilities=beam.survival_probabilities, dtype=beam.particles.dtype)


def delta_of(el, beam):
    out = el.track(beam)
    return out, out.particles - roundtrip(beam).particles


def relerr(a, b, scale):
    return float((a - b).abs().max()) / max(scale, 1e-300)


def floor_of(beam, i):
    """absolute round-off floor of coordinate i after the SI round trip: px, py are products/quotients (few ulp of the value);
    delta is (gamma' - gamma0)/(beta0 gamma0), a difference of numbers of size gamma: few ulp of 1 + |delta|."""
    m = float(beam.particles[..., i].abs().max())
    return 2e-14 * (1.0 + m) if i == 5 else 2e-15 * m + 1e-300


def oracle_full(run, spec):
    """all metamorphic clauses on one beam; returns list of (clause, detail)."""
    bad = []
    beam = build_beam(spec)
    el = build_kick(spec)
    before = beam.particles.clone()
    out, d = delta_of(el, beam)
    scale = [float(d[:, i].abs().max()) for i in (1, 3, 5)]
    run.count("kick_nonzero" if min(scale[0], scale[1]) > 0 else "kick_zero")
    if not torch.isfinite(out.particles).all():
        return [("finite", {"nonfinite_entries": int((~torch.isfinite(out.particles)).sum())})]
    # --- momenta only
    if not torch.equal(beam.particles, before):
        bad.append(("incoming_modified", "track modified the incoming beam in place"))
    if not (torch.equal(out.particles[:, 0], beam.particles[:, 0]) and torch.equal(out.particles[:, 2], beam.particles[:, 2])):
        bad.append(("positions_unchanged", {"max_dx": float((out.particles[:, 0] - beam.particles[:, 0]).abs().max()),
                                             "max_dy": float((out.particles[:, 2] - beam.particles[:, 2]).abs().max())}))
    dtau = (out.particles[:, 4] - beam.particles[:, 4]).abs()
    if bool((dtau > 4e-16 * beam.particles[:, 4].abs()).any()):
        bad.append(("tau_unchanged", {"max_dtau": float(dtau.max())}))
    if not torch.equal(out.particles[:, 6], beam.particles[:, 6]):
        bad.append(("ones_column", "last column changed"))
    if not (torch.equal(out.particle_charges, beam.particle_charges) and torch.equal(out.survival_probabilities, beam.survival_probabilities)
            and torch.equal(out.energy, beam.energy)):
        bad.append(("charges_surv_energy_unchanged", "charges, survival probabilities or energy changed"))
    if min(scale[0], scale[1]) == 0:
        bad.append(("kick_nonzero", "a charged bunch received no transverse kick at all"))
        return bad
    # --- Newton's third law: deposition and gathering share the weights, so the bunch exerts (almost) no net force on itself
    w = (beam.particle_charges * beam.survival_probabilities).abs()
    third = [float((w * d[:, i]).sum().abs() / ((w * d[:, i].abs()).sum() + 1e-300)) for i in (1, 3)]
    key = "third_law_max_net_over_gross_" + ("displaced" if max(abs(m) for m in spec.get("mu_in_sigma", [1, 1])) > 0.3 else "centred")
    run.cov[key] = max(run.cov.get(key, 0.0), max(third))
    if max(third) > THIRD_LAW:
        sx, sy = float(beam.sigma_x), float(beam.sigma_y)
        displaced = abs(float(beam.mu_x)) > 0.3 * sx or abs(float(beam.mu_y)) > 0.3 * sy
        bad.append(("net_self_force_F50" if displaced else "net_self_force",
                    {"net_over_gross_px_py": third, "mu_over_sigma": [float(beam.mu_x) / sx, float(beam.mu_y) / sy]}))
    # --- proportional to the bunch charge
    a = 2.0 if spec["seed"] % 2 else 0.375
    _, d2 = delta_of(el, with_(beam, particle_charges=beam.particle_charges * a))
    for j, i in enumerate((1, 3)):
        if relerr(d2[:, i], a * d[:, i], a * scale[j]) > REL + floor_of(beam, i) / (a * scale[j]):
            bad.append(("kick_linear_in_charge", {"coordinate": i, "factor": a, "rel_dev": relerr(d2[:, i], a * d[:, i], a * scale[j])}))
    if relerr(d2[:, 5], a * d[:, 5], a * scale[2]) > REL + 4 * max(a, 1) * scale[2] + floor_of(beam, 5) / (a * scale[2]):
        bad.append(("kick_linear_in_charge_delta_first_order", {"factor": a, "rel_dev": relerr(d2[:, 5], a * d[:, 5], a * scale[2])}))
    # --- proportional to the effect length
    _, d3 = delta_of(build_kick(spec, L=spec["L"] * a), beam)
    for j, i in enumerate((1, 3)):
        if relerr(d3[:, i], a * d[:, i], a * scale[j]) > REL + floor_of(beam, i) / (a * scale[j]):
            bad.append(("kick_linear_in_length", {"coordinate": i, "factor": a, "rel_dev": relerr(d3[:, i], a * d[:, i], a * scale[j])}))
    if relerr(d3[:, 5], a * d[:, 5], a * scale[2]) > REL + 4 * max(a, 1) * scale[2] + floor_of(beam, 5) / (a * scale[2]):
        bad.append(("kick_linear_in_length_delta_first_order", {"factor": a, "rel_dev": relerr(d3[:, 5], a * d[:, 5], a * scale[2])}))
    # --- storage order
    g = torch.Generator().manual_seed(spec["seed"] + 1)
    perm = torch.randperm(spec["n"], generator=g)
    _, d4 = delta_of(el, with_(beam, particles=beam.particles[perm], particle_charges=beam.particle_charges[perm],
                              survival_probabilities=beam.survival_probabilities[perm]))
    for j, i in enumerate((1, 3, 5)):
        if relerr(d4[:, i], d[perm, i], scale[j]) > REL + floor_of(beam, i) / scale[j]:
            bad.append(("permutation_equivariance", {"coordinate": i, "rel_dev": relerr(d4[:, i], d[perm, i], scale[j])}))
    # --- zero charge: exactly the SI round trip
    out0, d0 = delta_of(el, with_(beam, particle_charges=torch.zeros_like(beam.particle_charges)))
    if float(d0.abs().max()) != 0.0:
        bad.append(("zero_charge_no_kick", {"max_change": float(d0.abs().max())}))
    for i in (1, 3):
        if relerr(out0.particles[:, i], beam.particles[:, i], float(beam.particles[:, i].abs().max())) > 1e-12:
            bad.append(("zero_charge_px_restored", {"coordinate": i}))
    # ... and against the INCOMING beam (not only against the SI round trip, which shares from_xyz_pxpypz with track): without
    # charge the element must hand back px, py and delta to round-off (measured on the present code: <= 0.1 floor_of)
    for i in (1, 3, 5):
        dev = float((out0.particles[:, i] - beam.particles[:, i]).abs().max())
        if dev > 4 * floor_of(beam, i):
            bad.append(("zero_charge_restores_px_py_delta", {"coordinate": i, "max_abs_change": dev, "round_off_floor": 4 * floor_of(beam, i)}))
    # --- lost particles are not sources: append lost particles (inside the bunch and far away); the others' kicks stay
    k = 5
    extra = beam.particles[:k].clone()
    extra[:, 0] += torch.tensor([0.0, 1.0, -2.0, 30.0, 0.5], dtype=D) * spec["sig"][0]
    extra[:, 4] += torch.tensor([0.0, -1.0, 0.3, 0.0, 50.0], dtype=D) * spec["sig"][2]
    bl = with_(beam, particles=torch.cat([beam.particles, extra]),
               particle_charges=torch.cat([beam.particle_charges, beam.particle_charges[:k] * 7]),
               survival_probabilities=torch.cat([beam.survival_probabilities, torch.zeros(k, dtype=D)]))
    _, d5 = delta_of(el, bl)
    for j, i in enumerate((1, 3, 5)):
        if relerr(d5[: spec["n"], i], d[:, i], scale[j]) > REL + floor_of(beam, i) / scale[j]:
            bad.append(("lost_particles_not_sources", {"coordinate": i, "rel_dev": relerr(d5[: spec["n"], i], d[:, i], scale[j])}))
    # --- setting the survival of some particles to zero == removing them (as far as the others are concerned)
    keep = torch.ones(spec["n"], dtype=torch.bool)
    keep[:: 7] = False
    sz = beam.survival_probabilities.clone()
    sz[~keep] = 0
    _, d6 = delta_of(el, with_(beam, survival_probabilities=sz))
    _, d7 = delta_of(el, with_(beam, particles=beam.particles[keep], particle_charges=beam.particle_charges[keep],
                              survival_probabilities=beam.survival_probabilities[keep]))
    sc7 = [float(d7[:, i].abs().max()) for i in (1, 3, 5)]
    for j, i in enumerate((1, 3, 5)):
        if relerr(d6[keep, i], d7[:, i], sc7[j]) > REL + floor_of(beam, i) / max(sc7[j], 1e-300):
            bad.append(("lost_equals_removed", {"coordinate": i, "rel_dev": relerr(d6[keep, i], d7[:, i], sc7[j])}))
    return bad


def oracle_vectorised(run, spec):
    """a vectorised beam (different charges and energies per sample) == the samples tracked one by one."""
    bad = []
    beam = build_beam(spec)
    B = 3
    fac = torch.tensor([1.0, 2.5, 0.5], dtype=D)
    en = torch.tensor([1.0, 0.6, 3.0], dtype=D) * beam.energy
    Pv = beam.particles.unsqueeze(0).repeat(B, 1, 1).clone()
    Pv[..., :6] *= torch.tensor([1.0, 1.5, 0.75], dtype=D)[:, None, None]
    vb = with_(beam, particles=Pv, energy=en, particle_charges=beam.particle_charges.unsqueeze(0) * fac[:, None],
               survival_probabilities=beam.survival_probabilities.unsqueeze(0).repeat(B, 1))
    el = build_kick(spec)
    out = el.track(vb)
    if tuple(out.particles.shape) != (B, spec["n"], 7):
        return [("vectorised_shape", {"shape": tuple(out.particles.shape)})]
    for k in range(B):
        sb = with_(beam, particles=vb.particles[k], energy=en[k], particle_charges=vb.particle_charges[k])
        o1 = el.track(sb)
        dk = o1.particles - sb.particles
        for i in (1, 3, 5):
            sc = float(dk[:, i].abs().max())
            if relerr(out.particles[k][:, i] - sb.particles[:, i], dk[:, i], sc) > REL + floor_of(sb, i) / max(sc, 1e-300):
                bad.append(("vectorised_equals_loop", {"sample": k, "coordinate": i,
                                                       "rel_dev": relerr(out.particles[k][:, i] - sb.particles[:, i], dk[:, i], sc)}))
    return bad


HISTORY_REL = 1e-12   # reused element vs fresh element: the same arithmetic on the same numbers (bit-equal on the present code)


def history_beams(spec):
    """the sequence of beams one element instance sees: (label, beam).  Same particle coordinates (hence the same sigma-based grid
    geometry) at other reference energies, other charges, other sizes, a vectorised beam, and the first beam again."""
    beam = build_beam(spec)
    P = beam.particles
    wide = P.clone()
    wide[:, :6] *= torch.tensor([1.5, 1.0, 0.75, 1.0, 2.0, 1.0], dtype=D)
    B = 2
    vb = with_(beam, particles=P.unsqueeze(0).repeat(B, 1, 1), energy=torch.tensor([1.0, 2.0], dtype=D) * beam.energy,
               particle_charges=beam.particle_charges.unsqueeze(0).repeat(B, 1),
               survival_probabilities=beam.survival_probabilities.unsqueeze(0).repeat(B, 1))
    return [("first beam", beam),
            ("same coordinates, energy x 3.7", with_(beam, energy=beam.energy * 3.7)),
            ("same coordinates, energy x 0.31", with_(beam, energy=beam.energy * 0.31)),
            ("same coordinates and energy, charges x 2.5", with_(beam, particle_charges=beam.particle_charges * 2.5)),
            ("same coordinates, energy x 1.9, charges x -0.5", with_(beam, energy=beam.energy * 1.9, particle_charges=beam.particle_charges * -0.5)),
            ("other bunch sizes (x 1.5, y 0.75, tau 2)", with_(beam, particles=wide)),
            ("vectorised beam: same coordinates at energies x 1 and x 2", vb),
            ("same coordinates, energy x 2 (after the vectorised beam)", with_(beam, energy=beam.energy * 2.0)),
            ("first beam again", beam)]


def oracle_history(run, spec):
    """no hidden state: what an element returns depends on its parameters and the incoming beam only, not on the beams it has
    tracked before.  One instance tracks the whole sequence; each result is compared with a freshly constructed element's."""
    bad = []
    el = build_kick(spec)
    feats0 = {k: getattr(el, k) for k in ("grid_shape", "grid_extend_x", "grid_extend_y", "grid_extend_tau") if hasattr(el, k)}
    first = None
    for step, (label, beam) in enumerate(history_beams(spec)):
        before = beam.particles.clone()
        got = el.track(beam)
        want = build_kick(spec).track(beam)
        run.count("history_steps")
        if not torch.equal(beam.particles, before):
            bad.append(("history_incoming_modified", {"step": step, "beam": label}))
        if got.particles.shape != want.particles.shape or not torch.isfinite(got.particles).all():
            bad.append(("history_reused_element_equals_fresh_element", {"step": step, "beam": label, "shape": list(got.particles.shape),
                                                                         "finite": bool(torch.isfinite(got.particles).all())}))
            continue
        kick = want.particles - beam.particles
        for i in (0, 1, 2, 3, 4, 5, 6):
            sc = float(kick[..., i].abs().max())
            dev = float((got.particles[..., i] - want.particles[..., i]).abs().max())
            if dev > HISTORY_REL * sc + floor_of(beam, i):
                bad.append(("history_reused_element_equals_fresh_element",
                            {"step": step, "beam": label, "coordinate": i, "max_abs_dev": dev, "max_abs_kick_of_fresh_element": sc,
                             "rel_dev": dev / max(sc, 1e-300), "bit_equal": False}))
        if not (torch.equal(got.energy, want.energy) and torch.equal(got.particle_charges, want.particle_charges)
                and torch.equal(got.survival_probabilities, want.survival_probabilities)):
            bad.append(("history_reused_element_equals_fresh_element", {"step": step, "beam": label, "what": "energy, charges or survival differ"}))
        if step == 0:
            first = got.particles.clone()
        elif label == "first beam again":
            # idempotence: tracking the same beam twice through the same element gives the same result
            for i in (1, 3, 5):
                sc = float(kick[..., i].abs().max())
                dev = float((got.particles[..., i] - first[..., i]).abs().max())
                if dev > HISTORY_REL * sc + floor_of(beam, i):
                    bad.append(("history_same_beam_twice_same_result", {"coordinate": i, "max_abs_dev": dev, "rel_dev": dev / max(sc, 1e-300)}))
    if not torch.equal(el.effect_length, build_kick(spec).effect_length) or any(getattr(el, k) != v for k, v in feats0.items()):
        bad.append(("history_element_parameters_changed", {"effect_length": el.effect_length.tolist()}))
    return bad


def oracle_outward(run, seed, n=3000):
    """like charges repel: in a symmetric Gaussian bunch the momentum change points away from the centre (statistically)."""
    import cheetah
    spec = dict(n=n, seed=seed, sig=[2e-4, 3e-4, 1e-4], sigp=[1e-6, 1e-6, 1e-5], mu=[0.0, 0.0], energy=4e7, charge=1e-9,
                grid=[16, 16, 16], L=0.1, extend=3, partial_survival=False)
    beam = build_beam(spec)
    _, d = delta_of(build_kick(spec), beam)
    res = {}
    bad = []
    for name, ci, di, sign in (("x", 0, 1, 1.0), ("y", 2, 3, 1.0), ("tau", 4, 5, -1.0)):
        pos = beam.particles[:, ci] - beam.particles[:, ci].mean()
        agree = float(((torch.sign(d[:, di]) == torch.sign(sign * pos)).double()).mean())
        corr = float((d[:, di] * sign * pos).sum() / (d[:, di].norm() * pos.norm() + 1e-300))
        res[name] = dict(sign_agreement=agree, correlation=corr)
        if agree < 0.8 or corr < 0.5:
            bad.append(("outward_push", {"axis": name, "sign_agreement": agree, "correlation": corr}))
    return res, bad


def oracle_offaxis(run, shift_sigma=10.0):
    """a charged bunch displaced from the axis must still be pushed apart (the property quantifies over all distributions).
    Returns (reproduces_F50, details): F50 = the bunch lies off the axis-centred grid and receives exactly no kick."""
    spec = dict(n=500, seed=11, sig=[1e-4, 1e-4, 1e-4], sigp=[1e-6, 1e-6, 1e-6], mu=[shift_sigma * 1e-4, 0.0], energy=1e8, charge=1e-10,
                grid=[12, 12, 12], L=0.1, extend=3, partial_survival=False)
    beam = build_beam(spec)
    _, d = delta_of(build_kick(spec), beam)
    pos = beam.particles[:, 0] - beam.mu_x
    corr = float((d[:, 1] * pos).sum() / (d[:, 1].norm() * pos.norm() + 1e-300))
    res = dict(shift_in_sigma=shift_sigma, max_abs_dpx=float(d[:, 1].abs().max()), outward_correlation=corr)
    return float(d.abs().max()) == 0.0, corr >= 0.5, res


def oracle_mirror(run, pairs=4000, grid=12, seed=3):
    """a bunch that is exactly mirror symmetric in x (every particle has a partner at -x, -px) must receive mirror-antisymmetric kicks:
    dpx(x) + dpx(-x) = 0 up to discretisation.  Returns (reproduces_F51, fails_otherwise, details).  F51: the grid nodes run from
    -grid_dimensions to +grid_dimensions - cell_size, so partners in the top/bottom cell of the grid are treated differently."""
    import cheetah
    g = torch.Generator().manual_seed(seed)
    r = torch.randn((pairs, 6), generator=g, dtype=D)
    half = r * torch.tensor([2e-4, 1e-6, 3e-4, 1e-6, 1e-4, 1e-5], dtype=D)
    P = torch.zeros((2 * pairs, 7), dtype=D)
    P[:, 6] = 1
    P[:pairs, :6], P[pairs:, :6] = half, half
    P[pairs:, 0] *= -1
    P[pairs:, 1] *= -1
    beam = cheetah.ParticleBeam(particles=P, energy=torch.tensor(4e7, dtype=D), particle_charges=torch.full((2 * pairs,), 1e-9 / (2 * pairs), dtype=D))
    el = cheetah.SpaceChargeKick(effect_length=torch.tensor(0.1, dtype=D), num_grid_points_x=grid, num_grid_points_y=grid, num_grid_points_tau=grid, dtype=D)
    d = el.track(beam).particles - beam.particles
    sx = float(beam.sigma_x)
    gd, cell = 3 * sx, 6 * sx / grid
    a = (d[:pairs, 1] + d[pairs:, 1]).abs() / float(d[:, 1].abs().max())
    x = P[:pairs, 0].abs()
    inside = (P[:pairs, 2].abs() < 2 * float(beam.sigma_y)) & (P[:pairs, 4].abs() < 2 * float(beam.sigma_tau))
    edge, core = inside & (x > gd - cell) & (x < gd), inside & (x < 2 * sx)
    res = dict(pairs=pairs, grid=grid, seed=seed, pairs_in_outermost_cell=int(edge.sum()),
               max_antisymmetry_defect_outermost_cell=float(a[edge].max()) if bool(edge.any()) else 0.0,
               max_antisymmetry_defect_core=float(a[core].max()), unit="max |dpx(x) + dpx(-x)| / max |dpx|")
    f51 = res["max_antisymmetry_defect_outermost_cell"] > 0.1 and res["max_antisymmetry_defect_core"] <= 0.05
    return f51, res["max_antisymmetry_defect_core"] > 0.05, res


def oracle_sphere(run, seed=7, n=200000):
    """uniformly charged sphere in its rest frame vs the analytic field: dpx = e Q x / (4 pi eps0 R^3 gamma) dt, tested only."""
    import cheetah
    from scipy.constants import elementary_charge as e, epsilon_0, speed_of_light as c, electron_mass as me
    R, E, Qt, L = 1e-3, 5e6, 1e-9, 0.05
    gamma = E / (me * c * c / e)
    beta = math.sqrt(1 - 1 / gamma ** 2)
    g = torch.Generator().manual_seed(seed)
    u = torch.rand((3 * n, 3), generator=g, dtype=D) * 2 - 1
    u = u[(u ** 2).sum(dim=1) <= 1][:n]
    n = u.shape[0]
    P = torch.zeros((n, 7), dtype=D)
    P[:, 6] = 1
    P[:, 0], P[:, 2], P[:, 4] = u[:, 0] * R, u[:, 1] * R, u[:, 2] * R / gamma
    beam = cheetah.ParticleBeam(particles=P, energy=torch.tensor(E, dtype=D), particle_charges=torch.full((n,), Qt / n, dtype=D))
    el = cheetah.SpaceChargeKick(effect_length=torch.tensor(L, dtype=D), num_grid_points_x=32, num_grid_points_y=32, num_grid_points_tau=32, dtype=D)
    _, d = delta_of(el, beam)
    p0 = gamma * beta * me * c
    dt = L / (beta * c)
    k_perp = e * Qt / (4 * math.pi * epsilon_0 * R ** 3 * gamma) * dt / p0       # dpx = k_perp * x (cheetah px = p_x / p0)
    core = (u ** 2).sum(dim=1) <= 0.6 ** 2
    res = {}
    bad = []
    for name, ci, di in (("x", 0, 1), ("y", 2, 3)):
        x = P[core, ci]
        slope = float((d[core, di] * x).sum() / (x * x).sum())
        res[name] = slope / k_perp
        if not 0.85 <= slope / k_perp <= 1.15:
            bad.append(("uniform_sphere", {"axis": name, "slope_over_analytic": slope / k_perp}))
    return res, bad


# ------------------------------------------------------------------------------------------------ main
def main(tier, replay=None):
    run = common.Run(PID, tier)
    common.setup_python_env()
    thorough = tier == "thorough"
    run.cov["rule"] = ("(a) exact layer: random grids 4^3..8^3 with power-of-two cell sizes, 2..30 particles on a dyadic lattice reaching 1.5 cells "
                       "beyond the grid, dyadic charges and survival values incl. 0, batch of 1 or 2: _deposit_charge_on_grid (whole grid, exact) and "
                       "_compute_forces with a known integer force grid (1e-12) vs the Coq model; non-trivial = some particle with non-zero weight "
                       "inside the grid. (b) full kicks in float64 on random Gaussian bunches (40..400 particles, gamma 10..2000, grids 8..16 per "
                       "axis, partial survival in 40%): metamorphic relations, and the same bunch re-used in a 9-step history on one element instance. "
                       "(c) Hockney field solve on small grids (2x3x4, 4x4x4, 3x5x2, then random 1..6 points per axis, cubic and non-cubic), batches of "
                       "1..3 samples with anisotropic cell sizes (ratios up to 50) and gamma 1.6..2000, integer densities (one cell / face cells / sparse / "
                       "dense) and integer potentials: the real _integrated_green_function (every entry of the doubled array, exact), "
                       "_solve_poisson_equation (1e-9), _E_plus_vB_field on a known potential (1e-12) and on a known density (whole solve) vs the Coq "
                       "model Hockney.v with G := the code's own first octant, and vs independent numpy references; non-trivial = density not zero.")
    if replay:
        return do_replay(run, replay)
    proof_ok = run.proof_stage()
    # second tie (space-charge formulas): re-translated from REPO's source text and proved equal to SpaceCharge/{Igf,Cic,Hockney}.v (Gen/ScGenEquiv.v)
    import translate_stage_sc
    trx = translate_stage_sc.translator_obligation_sc(run)
    if trx["status"] != "ok":
        run.notes.append("translator obligation (space charge): " + json.dumps(translate_stage_sc.replay_fields_sc(trx))[:600])
    if proof_ok:
        for tgt in ("theories/SpaceCharge/CicCheck.vo", "theories/SpaceCharge/HockneyCheck.vo"):
            ok, log = common.coq_build(tgt)
            if not ok:
                proof_ok = False
                run.proof_problem = f"coq build of {tgt} failed: " + log[-800:]
    if not proof_ok:
        run.notes.append(run.proof_problem)

    new_bad = []
    dterms, gterms, dcases, gcases, errors = exact_layer(run, 150 if thorough else 40, thorough)
    new_bad += errors
    new_bad += oracle_cic(run, thorough)
    dfail, gfail, corr_err = [], [], None
    try:
        dfail = common.run_shards(PID, "deposit", PRE, dterms, "c19_check", shard=20)
        gfail = common.run_shards(PID, "gather", PRE, gterms, "c19_gcheck", shard=40)
        run.cov["traces_validated_against_impl"] += len(dterms) + len(gterms)
    except RuntimeError as ex:
        corr_err = str(ex)

    # ---- the Hockney field solve: layout of the doubled Green array, potential, field stencil, whole solve
    import time
    t_h = time.time()
    hbad, hterms, horigin = hockney_layer(run, 40 if thorough else 12, thorough)
    new_bad += hbad
    hfail = {}
    try:
        from concurrent.futures import ThreadPoolExecutor
        stages = [(n, c, sh) for n, c, sh in (("green", "hg_check", 10), ("potential", "hp_check", 4), ("potential_open", "hp_check_open", 10),
                                              ("field", "hf_check", 10), ("solve", "hs_check", 3)) if hterms[n]]
        with ThreadPoolExecutor(max_workers=5) as ex:      # the stages side by side; each shards its cases over several coqc processes
            futs = [(n, ex.submit(common.run_shards, PID, "hockney_" + n, PRE_H, hterms[n], c, shard=sh)) for n, c, sh in stages]
            for n, fu in futs:
                f = fu.result()
                run.count("hockney_coq_cases_" + n, len(hterms[n]))
                run.cov["traces_validated_against_impl"] += len(hterms[n])
                if f:
                    hfail[n] = f
    except RuntimeError as ex:
        corr_err = (corr_err or "") + str(ex)
    run.cov["hockney_layer_wall_s"] = round(time.time() - t_h, 1)

    # ---- metamorphic oracles on full kicks
    seen_f50 = []
    for k in range(60 if thorough else 8):
        spec = gen_beam_spec(run.rng, thorough)
        spec["partial_survival"] = k % 2 == 1
        run.add_case(["kick", spec], True)
        run.count("kick_grid_%d" % max(spec["grid"]))
        run.count("kick_partial_survival" if spec["partial_survival"] else "kick_full_survival")
        try:
            items = oracle_full(run, spec)
            if k % 2 == 0:
                items += oracle_vectorised(run, spec)
        except Exception as ex:  # noqa
            items = [("raises", repr(ex)[:300])]
        for clause, detail in items:
            if clause == "net_self_force_F50":
                seen_f50.append(detail)
            else:
                new_bad.append(dict(kind="kick", clause=clause, detail=detail, spec=spec))
        try:
            items = oracle_history(run, spec)
        except Exception as ex:  # noqa
            items = [("raises", repr(ex)[:300])]
        for clause, detail in items:
            new_bad.append(dict(kind="history", clause=clause, detail=detail, spec=spec))
    try:
        oseed, on = run.rng.randrange(1 << 30), (6000 if thorough else 2500)
        res, bad = oracle_outward(run, seed=oseed, n=on)
        run.cov["outward_push"] = res
        for clause, detail in bad:
            new_bad.append(dict(kind="outward", clause=clause, detail=detail, seed=oseed, n=on))
        if thorough:
            res, bad = oracle_sphere(run)
            run.cov["uniform_sphere_slope_over_analytic"] = res
            for clause, detail in bad:
                new_bad.append(dict(kind="sphere", clause=clause, detail=detail))
    except Exception as ex:  # noqa
        new_bad.append(dict(kind="outward", clause="raises", detail=repr(ex)[:300]))

    # ---- known finding F50: the grid is centred on the axis, not on the bunch
    listed = [f for f in common.load_known_findings(PID) if f.get("status") == "known" and f["id"] == "F50"]
    try:
        zero_kick, pushed_apart, res = oracle_offaxis(run, listed[0]["replay"]["shift_in_sigma"] if listed else 10.0)
    except Exception as ex:  # noqa
        zero_kick, pushed_apart, res = False, False, {"raises": repr(ex)[:300]}
    run.cov["offaxis_bunch"] = res
    if zero_kick or seen_f50:
        if listed:
            run.known(listed[0]["what"])
        else:
            new_bad.append(dict(kind="offaxis", clause="offaxis_bunch_not_kicked", detail=res))
    else:
        if listed:
            run.cov["known_findings_not_reproduced"].append("F50")
        if not pushed_apart:
            new_bad.append(dict(kind="offaxis", clause="offaxis_bunch_not_pushed_apart", detail=res))

    # ---- known finding F51: the grid nodes are not mirror symmetric about the axis (cell_size = 2 gd / n instead of 2 gd / (n - 1))
    listed51 = [f for f in common.load_known_findings(PID) if f.get("status") == "known" and f["id"] == "F51"]
    rp = (listed51[0].get("replay") or {}) if listed51 else {}
    try:
        f51, core_bad, res = oracle_mirror(run, pairs=rp.get("pairs", 4000), grid=rp.get("grid", 12), seed=rp.get("seed", 3))
    except Exception as ex:  # noqa
        f51, core_bad, res = False, True, {"raises": repr(ex)[:300]}
    run.cov["mirror_symmetric_bunch"] = res
    if core_bad:
        new_bad.append(dict(kind="mirror", clause="mirror_symmetric_bunch_antisymmetric_kick_core", detail=res))
    elif f51:
        if listed51:
            run.known(listed51[0]["what"])
        else:
            new_bad.append(dict(kind="mirror", clause="mirror_symmetric_bunch_antisymmetric_kick_outermost_cell", detail=res))
    elif listed51:
        run.cov["known_findings_not_reproduced"].append("F51")

    run.cov["tested_only"] = ["irfftn(rfftn(a) * rfftn(b)) == cyclic convolution (the convolution theorem for torch's FFT): modelled, not verified; tied to "
                              "the code by _solve_poisson_equation vs the model's cyclic convolution on small grids (1e-9 of k0 max|G| sum|rho|)",
                              "the integrated-Green-function VALUES (first octant) are data in the model; compared with an independent numpy evaluation "
                              "of the 8-corner antiderivative sum (1e-9 of max|G|); the float evaluation of the formula proved odd over R is not modelled",
                              "linearity of the float64 FFT field solve on full-size grids: charge-scaling relation on full kicks, 1e-6 (the model's solve is "
                              "proved linear)",
                              "invariance of the sigma-based grid geometry under permutation, charge scaling, lost particles (enters the same relations)",
                              "delta: proportional to charge and length to first order (second-order remainder bounded by 4*max|ddelta|^2)",
                              "outward push (sign agreement >= 0.8, correlation >= 0.5 on a Gaussian bunch)",
                              "uniformly charged sphere vs analytic field, slope within 15% (thorough tier only; measured 1.2%)",
                              "vectorised beam == per-sample tracking (1e-6)",
                              "no hidden state: one element instance tracking 9 different beams in a row (other energies at equal coordinates, other "
                              "charges, other sizes, vectorised, first beam again) == freshly constructed elements (1e-12 of the kick); same beam twice",
                              "vectorised effect_length with a non-vectorised beam raises (finding F21 of C04): not generated"]

    if new_bad:
        run.violation(dict(new_bad[0], relation="see clause; momentum changes are measured against the SI round trip of the same beam"))
    elif dfail or gfail or corr_err or hfail:
        if hfail:
            name = sorted(hfail)[0]
            rep = dict(kind="correspondence", broken=f"Coq model SpaceCharge/Hockney.v disagrees with the real field solve (stage {name}) on this input",
                       case=horigin[name][hfail[name][0]])
        elif dfail:
            rep = dict(kind="correspondence", broken="Coq model SpaceCharge/Cic.v (rho) disagrees with _deposit_charge_on_grid on this input", case=dcases[dfail[0]])
        elif gfail:
            rep = dict(kind="correspondence", broken="Coq model SpaceCharge/Cic.v (gather) disagrees with _compute_forces on this input", case=gcases[gfail[0]])
        else:
            rep = dict(kind="correspondence", broken="case file did not compile: " + corr_err[-600:])
        run.violation(rep, no_input=True)
    elif trx["status"] != "ok":
        run.violation(translate_stage_sc.replay_fields_sc(trx), no_input=True)
    elif not proof_ok:
        run.violation({"kind": "proof", "broken": run.proof_problem}, no_input=True)
    return run.finish("partial")


def guarded(fn):
    try:
        return fn()
    except Exception as ex:  # noqa
        return [("raises", repr(ex)[:300])]


def do_replay(run, path):
    r = json.loads(open(path).read())
    kind = r.get("kind")
    if kind == "hockney":
        items = guarded(lambda: h_oracle(r["case"], h_observe(r["case"])))
        print("replay:", "property holds on this input" if not items else f"property FAILS on this input: {items[:2]}")
        return 1 if items else 0
    if kind == "cic":
        items = [(b["clause"], b["detail"]) for b in cic_one(r["geom"], r["particles"])]
        print("replay:", "property holds on this input" if not items else f"property FAILS on this input: {items[:2]}")
        return 1 if items else 0
    if kind == "kick":
        items = guarded(lambda: oracle_full(run, r["spec"]) + oracle_vectorised(run, r["spec"]))
    elif kind == "history":
        items = guarded(lambda: oracle_history(run, r["spec"]))
    elif kind == "offaxis":
        zero_kick, pushed_apart, res = oracle_offaxis(run, r["detail"].get("shift_in_sigma", 10.0))
        items = [] if pushed_apart else [("offaxis", res)]
    elif kind == "mirror":
        dd = r.get("detail", {})
        f51, core_bad, res = oracle_mirror(run, pairs=dd.get("pairs", 4000), grid=dd.get("grid", 12), seed=dd.get("seed", 3))
        items = [("mirror", res)] if (f51 or core_bad) else []
    elif kind == "outward":
        _, items = oracle_outward(run, seed=r["seed"], n=r["n"])
    elif kind == "sphere":
        _, items = oracle_sphere(run)
    else:
        print("replay: this replay file records a broken model/proof, not a failing input")
        return 0
    print("replay:", "property holds on this input" if not items else f"property FAILS on this input: {items[:2]}")
    return 1 if items else 0
