"""C20 -- Screen and BPM readings show the beam that passed them.

proof stage      : Props/C20.v  (model Diag/Screen.v, proofs Diag/ScreenProofs.v)
correspondence   : real Screen / BPM objects (float32, small dyadic numbers => every value is an exact rational) are driven
                   on generated screens and beams; effective_resolution, pixel_bin_edges, pixel_bin_centers, extent, the read
                   beam, the returned beam and the whole histogram image are written as Coq terms and compared with the model
                   by vm_compute (Diag/ScreenCheck.v): images and beams exactly, edges to 1e-6 of the screen size.
                   ParameterBeam: image shape, arg-max pixel, read beam, returned charge.  BPM (float64): reading to round-off.
oracle           : the property itself on the implementation alone: one-hot images for single particles placed in a chosen
                   pixel of the misaligned screen, histogram sum = surviving charge inside, shapes, ParameterBeam vs ParticleBeam
                   peak pixel, vectorised KDE vs per-sample, KDE peak pixel with binning 2/4 for a particle in the upper/right part of
                   a binned pixel (== containing pixel == histogram pixel), BPM reading vs exact centroid, pass-through / blocking incl.
                   direct screen.track(beam) / screen(beam) calls for all (is_active, is_blocking) combinations and both beam types.
survival / batch  : histogram screens with fractional and zero survival probabilities on the screen (whole image exact, vm_compute);
                   KDE image vs the weighted kernel sum from its definition (float64), lost particles invisible, (q, s) ~ (q*s, 1);
                   vectorised beams (coordinates / survival) and vectorised misalignments: every sample of the reading == the un-vectorised
                   screen/beam of that sample (kde; histogram: rejected by the code or exact per sample), per-sample normalisation, BPM per sample.
known findings   : F15 (ParameterBeam image transposed, sampled at pixel edges; status known).  F14 (y-misalignment subtracted from px) is FIXED:
                   its stored input is replayed as a regression test and nothing is absorbed by it.  A deviation is absorbed only by a finding
                   with status `known` and only when the OBSERVED values equal that finding's characterised wrong values.
"""
import json
import math
from fractions import Fraction as Fr

import torch

import common
from common import coq_list, qlit, zlit

PID = "C20"
PRE = """From Coq Require Import List Bool ZArith QArith.
From Cheetah Require Import Diag.Screen Diag.ScreenCheck.
Import ListNotations. Open Scope Q_scope."""

F32 = torch.float32
F64 = torch.float64
ENERGY = 1.0e8


# ------------------------------------------------------------------------------------------------ building real objects
def mk_screen(sp, dtype=F32, method="histogram", bw=None):
    import cheetah
    return cheetah.Screen(resolution=(sp["W"], sp["H"]), pixel_size=torch.tensor([sp["px"], sp["py"]], dtype=dtype),
                          binning=sp["b"], misalignment=torch.tensor([sp["dx"], sp["dy"]], dtype=dtype), method=method,
                          kde_bandwidth=None if bw is None else torch.tensor(bw, dtype=dtype),
                          is_blocking=sp.get("blocking", False), is_active=sp.get("active", True))


def mk_pbeam(parts, dtype=F32):
    """parts: list of dicts x, px, y, py, q, s."""
    import cheetah
    n = len(parts)
    P = torch.zeros((n, 7), dtype=dtype)
    P[:, 6] = 1
    for i, p in enumerate(parts):
        P[i, 0], P[i, 1], P[i, 2], P[i, 3] = p["x"], p["px"], p["y"], p["py"]
        P[i, 4], P[i, 5] = p.get("tau", 0.0), p.get("delta", 0.0)
    return cheetah.ParticleBeam(particles=P, energy=torch.tensor(ENERGY, dtype=dtype),
                                particle_charges=torch.tensor([p["q"] for p in parts], dtype=dtype),
                                survival_probabilities=torch.tensor([p["s"] for p in parts], dtype=dtype))


def mk_parambeam(mx, my, sx, sy, q=1.0, mpx=0.0, mpy=0.0, dtype=F32):
    import cheetah
    mu = torch.tensor([mx, mpx, my, mpy, 0.0, 0.0, 1.0], dtype=dtype)
    cov = torch.zeros((7, 7), dtype=dtype)
    for i, v in enumerate([sx ** 2, 1e-8, sy ** 2, 1e-8, 1e-8, 1e-8]):
        cov[i, i] = v
    return cheetah.ParameterBeam(mu=mu, cov=cov, energy=torch.tensor(ENERGY, dtype=dtype), total_charge=torch.tensor(q, dtype=dtype))


def beam_rows(b):
    """observable particle rows of a ParticleBeam (x, px, y, py, q, s)."""
    P = b.particles
    return [dict(x=float(P[i, 0]), px=float(P[i, 1]), y=float(P[i, 2]), py=float(P[i, 3]),
                 q=float(b.particle_charges[i]), s=float(b.survival_probabilities[i])) for i in range(P.shape[0])]


# ------------------------------------------------------------------------------------------------ exact reference (property side)
def nb(sp):
    return sp["W"] // sp["b"], sp["H"] // sp["b"]


def edges(sp):
    nx, ny = nb(sp)
    hx = Fr(sp["W"]) * Fr(sp["px"]) / 2
    hy = Fr(sp["H"]) * Fr(sp["py"]) / 2
    return ([-hx + 2 * hx * i / nx for i in range(nx + 1)], [-hy + 2 * hy * j / ny for j in range(ny + 1)])


def bin_of(es, v):
    """index of the open bin containing v, None outside, 'edge' on an edge (unspecified)."""
    v = Fr(v)
    if v < es[0] or v > es[-1]:
        return None
    for e in es:
        if v == e:
            return "edge"
    for i in range(len(es) - 1):
        if es[i] < v < es[i + 1]:
            return i
    return None


def margin_ok(es, v, frac=Fr(1, 16)):
    """v is at least frac of a bin width away from every edge."""
    w = (es[-1] - es[0]) / (len(es) - 1)
    return all(abs(Fr(v) - e) >= w * frac for e in es)


def intended_pixel(sp, x, y):
    """(row, col) of the pixel of the screen centred at (dx, dy) containing (x, y); None outside."""
    ex, ey = edges(sp)
    ix, iy = bin_of(ex, Fr(x) - Fr(sp["dx"])), bin_of(ey, Fr(y) - Fr(sp["dy"]))
    if ix is None or iy is None:
        return None
    assert ix != "edge" and iy != "edge"
    return (nb(sp)[1] - 1 - iy, ix)


def expected_image(sp, parts, dy_applied=True):
    nx, ny = nb(sp)
    img = [[Fr(0)] * nx for _ in range(ny)]
    sp2 = sp if dy_applied else dict(sp, dy=0.0)
    for p in parts:
        rc = intended_pixel(sp2, p["x"], p["y"])
        if rc is not None:
            img[rc[0]][rc[1]] += Fr(p["q"]) * Fr(p["s"])
    return img


def img_equal(obs, exp):
    return len(obs) == len(exp) and all(len(a) == len(b) and all(Fr(u) == v for u, v in zip(a, b)) for a, b in zip(obs, exp))


# ------------------------------------------------------------------------------------------------ generators
SHAPES_Q = [(6, 4), (8, 8), (10, 12), (4, 6), (7, 5)]
SHAPES_T = SHAPES_Q + [(12, 8), (5, 5), (16, 4), (9, 12)]
DY = [0.5, 0.25, 0.125, 1.0, 0.0625]


def gen_screen(rng, thorough, allow_dy=True):
    W, H = rng.choice(SHAPES_T if thorough else SHAPES_Q)
    b = rng.choice([1, 1, 2, 2, 4] if thorough else [1, 1, 2, 2, 4])
    if W // b < 1 or H // b < 1:
        b = 1
    px, py = rng.choice(DY), rng.choice(DY)
    dx = rng.choice([0, 0, 1, -1, 2, -3, 5, -6]) * px / 4
    dy = rng.choice([0, 0, 0, 1, -1, 2, -3, 5]) * py / 4 if allow_dy else 0.0
    return dict(W=W, H=H, b=b, px=px, py=py, dx=dx, dy=dy, active=True, blocking=False)


def gen_coord(rng, es_list, size, pix, extra_shift):
    """a dyadic coordinate (multiple of pix/8) in [-size, size] roughly, away from every edge of each grid in es_list
    after the respective shifts in extra_shift."""
    for _ in range(200):
        k = rng.randrange(-int(size / pix * 8) - 3, int(size / pix * 8) + 4)
        v = k * pix / 8
        if all(margin_ok(es, Fr(v) - Fr(sh)) for es in es_list for sh in extra_shift):
            return v
    raise RuntimeError("no coordinate found")


def gen_particles(rng, sp, n):
    ex, ey = edges(sp)
    hx, hy = float(ex[-1]), float(ey[-1])
    parts = []
    for _ in range(n):
        x = gen_coord(rng, [ex], hx, sp["px"], [sp["dx"]])
        # y: clear of the edges both as the code sees it (y) and as the property sees it (y - dy)
        y = gen_coord(rng, [ey], hy, sp["py"], [0.0, sp["dy"]])
        parts.append(dict(x=x, y=y, px=rng.randrange(-8, 9) / 16, py=rng.randrange(-8, 9) / 16,
                          tau=rng.randrange(-4, 5) / 8, delta=rng.randrange(-4, 5) / 64,
                          q=rng.randrange(1, 9) / 4, s=rng.choice([1.0, 1.0, 0.5, 0.25, 0.0])))
    return parts


# ------------------------------------------------------------------------------------------------ Coq printing
def qz(x):
    return "0" if x == 0 else qlit(x)


def coq_particle(p):
    return f"(mkP {qz(p['x'])} {qz(p['px'])} {qz(p['y'])} {qz(p['py'])} {qz(p['q'])} {qz(p['s'])})"


def coq_screen(sp):
    return (f"(mkscreen {zlit(sp['W'])} {zlit(sp['H'])} {zlit(sp['b'])} {qz(sp['px'])} {qz(sp['py'])} {qz(sp['dx'])} {qz(sp['dy'])} "
            f"{'true' if sp['active'] else 'false'} {'true' if sp['blocking'] else 'false'})")


def qlist(xs):
    return coq_list([qz(float(x)) for x in xs])


# ------------------------------------------------------------------------------------------------ observation (histogram screen)
def observe_hist(sp, parts):
    import cheetah
    scr = mk_screen(sp)
    beam = mk_pbeam(parts)
    obs = {}
    if sp.get("pretrack"):
        # an earlier beam was recorded and read: the next reading must show the next beam, not a cached image
        scr.track(mk_pbeam([dict(x=sp["dx"] + sp["px"] / 4, px=0.0, y=sp["py"] / 4, py=0.0, q=5.0, s=1.0)]))
        _ = scr.reading
    obs["eff"] = [int(v) for v in scr.effective_resolution]
    obs["ex"], obs["ey"] = [t.tolist() for t in scr.pixel_bin_edges]
    obs["cx"], obs["cy"] = [t.tolist() for t in scr.pixel_bin_centers]
    obs["ext"] = scr.extent.tolist()
    if sp.get("via_segment"):
        # the observation point named by the property: Screen.reading / BPM.reading after Segment.track
        bpm = cheetah.BPM(is_active=True, name="bpm_after")
        out = cheetah.Segment([cheetah.Marker(name="m0"), scr, bpm]).track(beam)
        obs["bpm_after"] = [float(v) for v in bpm.reading]
        obs["bpm_expected"] = [float(out.mu_x), float(out.mu_y)]
    else:
        out = scr.track(beam)
    rb = scr.get_read_beam()
    if sp.get("pretrack") and not sp["active"]:
        rb = None        # (an inactive screen keeps nothing; not reachable: pretrack is only generated for active screens)
    obs["read"] = None if rb is None else beam_rows(rb)
    obs["img"] = scr.reading.tolist()
    obs["out"] = beam_rows(out)
    obs["in_after"] = beam_rows(beam)        # the incoming beam must not be modified
    return obs


def coq_hist_case(sp, parts, obs):
    rd = "None" if obs["read"] is None else "(Some " + coq_list([coq_particle(p) for p in obs["read"]]) + ")"
    img = coq_list([qlist(r) for r in obs["img"]])
    return (f"mkc20 {coq_screen(sp)} {coq_list([coq_particle(p) for p in parts])} ({zlit(obs['eff'][0])}%Z, {zlit(obs['eff'][1])}%Z) "
            f"{qlist(obs['ex'])} {qlist(obs['ey'])} {qlist(obs['cx'])} {qlist(obs['cy'])} {qlist(obs['ext'])} {rd} {img} "
            f"{coq_list([coq_particle(p) for p in obs['out']])}")


def probe_y_index():
    """Which coordinate does Screen.track(ParticleBeam) subtract misalignment[1] from?  (F14: 1 = px; repaired code: 2 = y)"""
    sp = dict(W=6, H=4, b=1, px=0.5, py=0.25, dx=0.0, dy=0.25, active=True, blocking=False)
    scr = mk_screen(sp)
    scr.track(mk_pbeam([dict(x=0.25, px=0.0, y=0.125, py=0.0, q=1.0, s=1.0)]))
    row = scr.get_read_beam().particles[0].tolist()
    changed = [i for i, (a, b) in enumerate(zip(row, [0.25, 0.0, 0.125, 0.0, 0.0, 0.0, 1.0])) if a != b]
    return changed


# ------------------------------------------------------------------------------------------------ oracles on the implementation alone
def oracle_hist(sp, parts, obs):
    """property clauses for a histogram screen; returns list of (clause, detail, f14_like)."""
    bad = []
    nx, ny = nb(sp)
    img = obs["img"]
    if not sp["active"]:
        if obs["read"] is not None or any(v != 0 for r in img for v in r):
            bad.append(("inactive_records", "inactive screen recorded a beam", False))
        if obs["out"] != [dict(p, **{}) for p in strip(parts)]:
            bad.append(("inactive_passthrough", {"what": "inactive screen changed the beam", "is_blocking": sp["blocking"],
                                                 "via_segment": bool(sp.get("via_segment")), "expected": strip(parts)[:3], "observed": obs["out"][:3]}, False))
        if (len(img), len(img[0]) if img else 0) != (ny, nx):
            bad.append(("image_shape", f"shape {(len(img), len(img[0]))} expected {(ny, nx)}", False))
        return bad
    if (len(img), len(img[0]) if img else 0) != (ny, nx):
        bad.append(("image_shape", f"shape {(len(img), len(img[0]) if img else 0)} expected {(ny, nx)}", False))
        return bad
    exp = expected_image(sp, parts)
    # characterised wrong value of F14 (status: see known_findings): the WHOLE image is exactly the image of the y-aligned screen
    f14 = "F14" if (sp["dy"] != 0 and not img_equal(img, exp) and img_equal(img, expected_image(sp, parts, dy_applied=False))) else False
    if not img_equal(img, exp):
        bad.append(("pixel_contains", {"expected_nonzero": nonzero(exp), "observed_nonzero": nonzero(img)}, f14))
    tot = sum(Fr(v) for r in img for v in r)
    inside = sum(Fr(p["q"]) * Fr(p["s"]) for p in parts if intended_pixel(sp, p["x"], p["y"]) is not None)
    if tot != inside:
        bad.append(("hist_sum", {"sum": float(tot), "surviving_charge_inside": float(inside),
                                 "charge_inside_counting_every_particle_with_survival_gt_0_fully":
                                     float(sum(Fr(p["q"]) for p in parts if p["s"] > 0 and intended_pixel(sp, p["x"], p["y"]) is not None))}, f14))
    # the returned beam: unchanged, or survival zeroed when blocking
    want = [dict(p, s=0.0) if sp["blocking"] else p for p in strip(parts)]
    if obs["out"] != want:
        bad.append(("outgoing_beam", {"expected": want[:3], "observed": obs["out"][:3]}, False))
    if obs["in_after"] != strip(parts):
        bad.append(("incoming_modified", "Screen.track modified the incoming beam in place", False))
    if "bpm_after" in obs and obs["bpm_after"] != obs["bpm_expected"] and not any(math.isnan(v) for v in obs["bpm_expected"]):
        bad.append(("bpm_after_screen", {"reading": obs["bpm_after"], "mu_of_outgoing_beam": obs["bpm_expected"]}, False))
    return bad


def strip(parts):
    return [dict(x=p["x"], px=p["px"], y=p["y"], py=p["py"], q=p["q"], s=p["s"]) for p in parts]


def nonzero(img):
    return [[r, c, float(v)] for r, row in enumerate(img) for c, v in enumerate(row) if v != 0]


def argmax2(t):
    """unique arg-max (row, col) of a 2-d tensor, None if not unique or all equal."""
    m = t.max()
    idx = (t == m).nonzero()
    if idx.shape[0] != 1:
        return None
    return (int(idx[0, 0]), int(idx[0, 1]))


def param_peak_model(sp, mx, my):
    """python replica of Screen.v param_peak (edge-sampled, (x, flipped y) indexing) -- the F15 signature."""
    def cdiv(a, b):
        return -((-a) // b)
    nxp, nyp = cdiv(sp["W"], sp["b"]), cdiv(sp["H"], sp["b"])
    lo_x, lo_y = -Fr(sp["W"]) * Fr(sp["px"]) / 2, -Fr(sp["H"]) * Fr(sp["py"]) / 2
    hs, vs = Fr(sp["px"]) * sp["b"], Fr(sp["py"]) * sp["b"]
    i = min(range(nxp), key=lambda k: (abs(lo_x + k * hs - Fr(mx)), k))
    j = min(range(nyp), key=lambda k: (abs(lo_y + k * vs - Fr(my)), k))
    return (nxp, nyp), (i, nyp - 1 - j)


def oracle_param_vs_particle(run, sp, mx, my):
    """ParameterBeam and ParticleBeam images of the same narrow distribution: same shape, same peak pixel, which is the pixel
    of the misaligned screen that contains the mean."""
    nx, ny = nb(sp)
    sx, sy = 0.3 * sp["px"] * sp["b"], 0.3 * sp["py"] * sp["b"]
    scr = mk_screen(sp)
    scr.track(mk_parambeam(mx, my, sx, sy))
    im_par = scr.reading
    want = intended_pixel(sp, mx, my)
    # a narrow particle cloud around the same mean: 5 particles within 1/32 pixel
    ex, ey = sp["px"] / 32, sp["py"] / 32
    cloud = [dict(x=mx + a * ex, y=my + b * ey, px=0.0, py=0.0, q=1.0, s=1.0) for a, b in [(0, 0), (1, 0), (-1, 0), (0, 1), (0, -1)]]
    scr2 = mk_screen(sp)
    scr2.track(mk_pbeam(cloud))
    im_pb = scr2.reading
    res = dict(param_shape=tuple(im_par.shape), particle_shape=tuple(im_pb.shape), param_peak=argmax2(im_par), particle_peak=argmax2(im_pb), want=want)
    bad = []
    if tuple(im_pb.shape) != (ny, nx):
        bad.append(("image_shape", res, False))
    elif want is not None and res["particle_peak"] != want:
        f14 = sp["dy"] != 0 and res["particle_peak"] == intended_pixel(dict(sp, dy=0.0), mx, my)
        bad.append(("particle_peak", res, "F14" if f14 else False))
    shp_model, pk_model = param_peak_model(sp, Fr(mx) - Fr(sp["dx"]), Fr(my) - Fr(sp["dy"]))
    f15 = tuple(im_par.shape) == shp_model and res["param_peak"] == pk_model
    res["f15_signature"] = {"shape": shp_model, "peak": pk_model}
    if tuple(im_par.shape) != (ny, nx):
        bad.append(("param_image_shape", res, "F15" if f15 else False))
    elif want is not None and res["param_peak"] != want:
        bad.append(("param_peak", res, "F15" if f15 else False))
    return res, bad


def oracle_kde(run, sp, parts_batches):
    """vectorised KDE image == per-sample images; shape (B, H', W'); single-particle peak in the containing pixel."""
    import cheetah
    bad = []
    nx, ny = nb(sp)
    bw = 0.4 * min(sp["px"], sp["py"]) * sp["b"]
    B, n = len(parts_batches), len(parts_batches[0])
    P = torch.zeros((B, n, 7), dtype=F32)
    P[..., 6] = 1
    S = torch.zeros((B, n), dtype=F32)
    for k, parts in enumerate(parts_batches):
        for i, p in enumerate(parts):
            P[k, i, 0], P[k, i, 1], P[k, i, 2], P[k, i, 3] = p["x"], p["px"], p["y"], p["py"]
            S[k, i] = p["s"]
    q = torch.tensor([p["q"] for p in parts_batches[0]], dtype=F32)
    if float((S * q).sum(dim=-1).min()) <= 0:
        return bad                       # a sample without any surviving charge: 0/eps image, unspecified
    vb = cheetah.ParticleBeam(particles=P, energy=torch.tensor(ENERGY, dtype=F32), particle_charges=q, survival_probabilities=S)
    scr = mk_screen(sp, method="kde", bw=bw)
    scr.track(vb)
    R = scr.reading
    if tuple(R.shape) != (B, ny, nx):
        bad.append(("kde_shape", {"shape": tuple(R.shape), "expected": (B, ny, nx)}, False))
        return bad
    for k in range(B):
        sb = cheetah.ParticleBeam(particles=P[k], energy=torch.tensor(ENERGY, dtype=F32), particle_charges=q, survival_probabilities=S[k])
        s1 = mk_screen(sp, method="kde", bw=bw)
        s1.track(sb)
        d = float((s1.reading - R[k]).abs().max())
        if not d <= 1e-5 * max(1e-30, float(R[k].abs().max())) + 1e-12:
            bad.append(("kde_vectorised_vs_loop", {"sample": k, "maxdiff": d}, False))
            break
    return bad


def oracle_kde_peak(sp, p):
    """the KDE peak pixel of a single particle (a narrow beam) == the pixel of the misaligned screen containing (x - dx, y - dy)
    == the pixel the histogram method puts it in."""
    nx, ny = nb(sp)
    # one bandwidth serves both axes: take it from the coarser axis so that no kernel underflows to an all-zero image
    bw = 0.5 * max(sp["px"], sp["py"]) * sp["b"]
    scr = mk_screen(sp, method="kde", bw=bw)
    scr.track(mk_pbeam([p]))
    R = scr.reading
    want = intended_pixel(sp, p["x"], p["y"])
    if tuple(R.shape) != (ny, nx):
        return [("kde_shape", {"shape": tuple(R.shape), "expected": (ny, nx)}, False)]
    if want is None:
        return []
    got = argmax2(R)
    if got is None:
        return []                        # float32 tie / underflow: numerically unspecified
    sh = mk_screen(sp)
    sh.track(mk_pbeam([p]))
    hist = argmax2(sh.reading)
    if got != want:
        # F14 shifts the READ beam, hence both methods alike: KDE peak and histogram pixel are the pixel of the y-aligned screen
        w0 = intended_pixel(dict(sp, dy=0.0), p["x"], p["y"]) if sp["dy"] != 0 else None
        f14 = w0 is not None and got == w0 and hist == w0
        return [("kde_peak", {"peak": got, "expected": want, "histogram_pixel": hist}, "F14" if f14 else False)]
    if hist is not None and hist != got:
        return [("kde_vs_histogram_pixel", {"kde_peak": got, "histogram_pixel": hist, "expected": want}, False)]
    return []


KDE_SHAPES = [(8, 8), (10, 12), (6, 4), (12, 8), (16, 4)]      # every binned pixel width is dyadic for binning 2 and 4


def gen_kde_binned(rng, b, upper):
    """a screen with binning b in {2, 4} and one particle at a chosen fraction (fx, fy) of a chosen binned pixel of the misaligned
    screen; upper: at least one of fx, fy in the upper/right part (>= 13/16) of the pixel, where a grid of KDE centres that is off
    by part of a binned pixel puts the peak into the neighbouring pixel."""
    sp = gen_screen(rng, False)
    sp["W"], sp["H"] = rng.choice(KDE_SHAPES)
    sp["b"] = b
    ex, ey = edges(sp)
    nx, ny = nb(sp)
    hi, lo = [Fr(13, 16), Fr(7, 8), Fr(15, 16)], [Fr(1, 16), Fr(1, 8), Fr(1, 4), Fr(3, 8), Fr(5, 8)]
    if upper:
        fx, fy = rng.choice([(rng.choice(hi), rng.choice(lo + hi)), (rng.choice(lo + hi), rng.choice(hi)), (rng.choice(hi), rng.choice(hi))])
    else:
        fx, fy = rng.choice(lo), rng.choice(lo)
    col, rfb = rng.randrange(0, max(1, nx - 1)), rng.randrange(0, max(1, ny - 1))     # a neighbour to the right / above exists
    x = ex[col] + fx * (ex[col + 1] - ex[col]) + Fr(sp["dx"])
    y = ey[rfb] + fy * (ey[rfb + 1] - ey[rfb]) + Fr(sp["dy"])
    if not margin_ok(ey, y):
        sp["dy"], y = 0.0, y - Fr(sp["dy"])      # y must be clear of the edges also as a y-aligned screen sees it (F14 signature)
    p = dict(x=float(x), y=float(y), px=0.0, py=0.0, q=rng.randrange(1, 9) / 4, s=1.0)
    if not (Fr(p["x"]) == x and Fr(p["y"]) == y and margin_ok(ex, x - Fr(sp["dx"])) and margin_ok(ey, y - Fr(sp["dy"])) and margin_ok(ey, y)
            and intended_pixel(sp, p["x"], p["y"]) == (ny - 1 - rfb, col)):
        return None                      # (not reachable with dyadic pixel sizes: the position would not be exact)
    return sp, p, (float(fx), float(fy))


def oracle_kde_binned(sp, p):
    """binning > 1: KDE peak pixel == containing pixel == histogram pixel (see oracle_kde_peak)."""
    return oracle_kde_peak(sp, p)


# ------------------------------------------------------------------------------------------------ survival weights and vectorisation
def kde_reference(sp, parts, bw):
    """the KDE image from its definition, in float64: image[r][c] = sum_i q_i s_i g(x_i - dx - cx_c) g(y_i - dy - cy_r) normalised to 1 over the
    grid, with cx/cy the pixel CENTRES of the binned grid and row 0 at the top; None when nothing survives."""
    ex, ey = edges(sp)
    cx = torch.tensor([float((a + b) / 2) for a, b in zip(ex[:-1], ex[1:])], dtype=F64)
    cy = torch.tensor([float((a + b) / 2) for a, b in zip(ey[:-1], ey[1:])], dtype=F64)
    x = torch.tensor([p["x"] - sp["dx"] for p in parts], dtype=F64)
    y = torch.tensor([p["y"] - sp["dy"] for p in parts], dtype=F64)
    w = torch.tensor([p["q"] * p["s"] for p in parts], dtype=F64)
    if float(w.sum()) <= 0:
        return None
    gx = torch.exp(-0.5 * ((x[:, None] - cx[None, :]) / bw) ** 2)       # (n, nx)
    gy = torch.exp(-0.5 * ((y[:, None] - cy[None, :]) / bw) ** 2)       # (n, ny)
    img = torch.einsum("i,ic,ir->rc", w, gx, gy)
    tot = float(img.sum())
    if not tot > 1e-6 * float(w.sum()):
        return None                      # practically all kernel mass off the screen: the 1e-10 regulariser decides, unspecified
    return torch.flip(img / tot, dims=[0])


def kde_image(sp, parts, bw):
    scr = mk_screen(sp, method="kde", bw=bw)
    scr.track(mk_pbeam(parts))
    return scr.reading


def img_close(a, b, rel=2e-4):
    a, b = a.to(F64), b.to(F64)
    if tuple(a.shape) != tuple(b.shape):
        return False, {"shapes": [tuple(a.shape), tuple(b.shape)]}
    d = float((a - b).abs().max())
    m = float(b.abs().max())
    if not d <= rel * max(m, 1e-30):
        idx = int((a - b).abs().argmax())
        r, c = idx // a.shape[-1], idx % a.shape[-1]
        return False, {"maxdiff": d, "image_max": m, "at": [r, c], "observed": float(a.flatten()[idx]), "expected": float(b.flatten()[idx])}
    return True, None


def oracle_kde_weights(sp, parts):
    """KDE screen and survival weights: the image is the normalised kernel sum with weight charge * survival per particle (reference from the
    definition); a lost particle (survival 0) is invisible (image == image of the beam with it deleted); a particle with charge q and
    survival s shows like one with charge q*s and survival 1."""
    bad = []
    nx, ny = nb(sp)
    bw = 0.45 * max(sp["px"], sp["py"]) * sp["b"]
    ref = kde_reference(sp, parts, bw)
    if ref is None:
        return bad
    R = kde_image(sp, parts, bw)
    if tuple(R.shape) != (ny, nx):
        return [("kde_shape", {"shape": tuple(R.shape), "expected": (ny, nx)}, False)]
    ok, d = img_close(R, ref)
    if not ok:
        bad.append(("kde_weighted_image", dict(d, what="KDE image vs the kernel sum with weights charge*survival (float64 reference)"), False))
    alive = [p for p in parts if p["s"] > 0]
    if alive and len(alive) < len(parts):
        ok, d = img_close(kde_image(sp, alive, bw), R, rel=1e-5)
        if not ok:
            bad.append(("kde_lost_particles_invisible", dict(d, what="image of the beam with the lost particles deleted vs image with them present"), False))
    if any(0 < p["s"] < 1 for p in parts):
        folded = [dict(p, q=p["q"] * p["s"], s=1.0) for p in alive]
        ok, d = img_close(kde_image(sp, folded, bw), R, rel=1e-5)
        if not ok:
            bad.append(("kde_weight_is_charge_times_survival", dict(d, what="image with (q*s, 1) in place of (q, s)"), False))
    return bad


def gen_vectorised_case(rng, thorough):
    """screen x beam with a batch dimension B in the beam (coordinates and/or survival), in the screen misalignment, or both"""
    sp = gen_screen(rng, thorough)
    B = rng.choice([2, 3])
    n = rng.randrange(2, 6)
    what = rng.choice(["survival", "particles", "misalignment", "misalignment", "both"])
    mis = [[sp["dx"], sp["dy"]]]
    while len(mis) < B:
        m = [rng.choice([0, 1, -1, 2, -3, 5, -6]) * sp["px"] / 4, rng.choice([0, 1, -1, 2, -3, 5]) * sp["py"] / 4]
        if m not in mis:
            mis.append(m)
    if what in ("survival", "particles"):
        mis = [mis[0]] * B
    # particles clear of the edges under every misalignment of the batch
    ex, ey = edges(sp)
    batches = []
    for k in range(B if what in ("particles", "both") else 1):
        parts = []
        for _ in range(n):
            x = gen_coord(rng, [ex], float(ex[-1]), sp["px"], [m[0] for m in mis])
            y = gen_coord(rng, [ey], float(ey[-1]), sp["py"], [m[1] for m in mis])
            parts.append(dict(x=x, y=y, px=rng.randrange(-8, 9) / 16, py=rng.randrange(-8, 9) / 16, tau=0.0, delta=0.0,
                              q=rng.randrange(1, 9) / 4, s=1.0))
        batches.append(parts)
    if len(batches) == 1:
        batches = batches * B
    for b in batches[1:]:
        for p, p0 in zip(b, batches[0]):
            p["q"] = p0["q"]
    surv = []
    for k in range(B):
        row = [rng.choice([1.0, 1.0, 0.5, 0.25, 0.75, 0.0]) for _ in range(n)]
        row[rng.randrange(n)] = rng.choice([1.0, 0.5])
        surv.append(row)
    if what == "misalignment" and rng.random() < 0.5:
        surv = [surv[0]] * B
    return dict(screen=sp, what=what, misalignments=mis, batches=batches, survival=surv, method=rng.choice(["kde", "kde", "histogram"]),
                via_segment=rng.random() < 0.4)


def build_vectorised(case, dtype=F32):
    """the vectorised screen and beam of a case, every tensor with the smallest shape that expresses it"""
    import cheetah
    sp, B = case["screen"], len(case["survival"])
    n = len(case["batches"][0])
    same_parts = all(b == case["batches"][0] for b in case["batches"])
    same_surv = all(r == case["survival"][0] for r in case["survival"])
    same_mis = all(m == case["misalignments"][0] for m in case["misalignments"])

    def rows(parts):
        return [[p["x"], p["px"], p["y"], p["py"], 0.0, 0.0, 1.0] for p in parts]
    P = torch.tensor(rows(case["batches"][0]) if same_parts else [rows(b) for b in case["batches"]], dtype=dtype)
    S = torch.tensor(case["survival"][0] if same_surv else case["survival"], dtype=dtype)
    q = torch.tensor([p["q"] for p in case["batches"][0]], dtype=dtype)
    beam = cheetah.ParticleBeam(particles=P, energy=torch.tensor(ENERGY, dtype=dtype), particle_charges=q, survival_probabilities=S)
    mis = torch.tensor(case["misalignments"][0] if same_mis else case["misalignments"], dtype=dtype)
    bw = 0.45 * max(sp["px"], sp["py"]) * sp["b"]
    scr = cheetah.Screen(resolution=(sp["W"], sp["H"]), pixel_size=torch.tensor([sp["px"], sp["py"]], dtype=dtype), binning=sp["b"], misalignment=mis,
                         method=case["method"], kde_bandwidth=torch.tensor(bw, dtype=dtype), is_active=True, name="vscreen")
    vectorised = not (same_parts and same_surv and same_mis)
    return scr, beam, bw, vectorised


def oracle_vectorised(case):
    """a vectorised reading equals the per-sample readings, for both image methods: sample k of the batch = the screen with misalignment k
    reading the beam with coordinates k and survival k.  kde: per-sample normalisation (each image sums to 1 when charge survives on the
    screen), compared with the un-vectorised real screen and with the float64 reference.  histogram: the code either rejects vectorised input
    (NotImplementedError or an exception of histogramdd: an input the code rejects) or must give the exact per-sample weighted counts.
    BPM: reading[:, k] is the survival-weighted centroid of sample k."""
    import cheetah
    bad = []
    sp, B = case["screen"], len(case["survival"])
    nx, ny = nb(sp)
    samples = [(dict(sp, dx=m[0], dy=m[1]), [dict(p, s=s) for p, s in zip(parts, srow)])
               for m, parts, srow in zip(case["misalignments"], case["batches"], case["survival"])]
    scr, beam, bw, vectorised = build_vectorised(case)
    try:
        if case.get("via_segment"):
            cheetah.Segment([cheetah.Marker(name="vm0"), scr]).track(beam)
        else:
            scr.track(beam)
        R = scr.reading
    except Exception as ex:  # noqa
        if case["method"] == "histogram" and vectorised:
            return [("rejected", repr(ex)[:120], "rejected")]
        return [("vectorised_raises", {"exception": repr(ex)[:300]}, False)]
    want_shape = ((B,) if vectorised else ()) + (ny, nx)
    if tuple(R.shape) != want_shape:
        return [("vectorised_shape", {"shape": tuple(R.shape), "expected": want_shape}, False)]
    for k, (spk, pk) in enumerate(samples):
        Rk = R[k] if vectorised else R
        if case["method"] == "histogram":
            exp = expected_image(spk, pk)
            if not img_equal(Rk.tolist(), exp):
                bad.append(("vectorised_histogram_vs_per_sample", {"sample": k, "expected_nonzero": nonzero(exp), "observed_nonzero": nonzero(Rk.tolist())}, False))
                break
            continue
        if sum(p["q"] * p["s"] for p in pk) <= 0:
            if bool((Rk != 0).any()):
                bad.append(("kde_lost_beam_visible", {"sample": k, "max": float(Rk.abs().max())}, False))
            continue
        one = kde_image(spk, pk, bw)
        ok, d = img_close(Rk, one, rel=1e-5)
        if not ok:
            bad.append(("kde_vectorised_vs_per_sample", dict(d, sample=k, what="sample k of the vectorised reading vs the un-vectorised screen/beam k"), False))
            break
        ref = kde_reference(spk, pk, bw)
        if ref is not None:
            ok, d = img_close(Rk, ref)
            if not ok:
                bad.append(("kde_vectorised_vs_definition", dict(d, sample=k), False))
                break
            tot = float(Rk.to(F64).sum())
            if not abs(tot - 1.0) <= 1e-4:
                bad.append(("kde_per_sample_normalisation", {"sample": k, "sum": tot}, False))
                break
    # BPM on the same vectorised beam (float64): per-sample survival-weighted centroid
    try:
        _s, beam64, _bw, _v = build_vectorised(case, dtype=F64)
        bpm = cheetah.BPM(is_active=True)
        bpm.track(beam64)
        rd = bpm.reading.reshape(2, -1).tolist()
        for k, (spk, pk) in enumerate(samples):
            ssum = sum(Fr(p["s"]) for p in pk)
            if ssum == 0:
                continue
            cx = sum(Fr(p["x"]) * Fr(p["s"]) for p in pk) / ssum
            cy = sum(Fr(p["y"]) * Fr(p["s"]) for p in pk) / ssum
            kk = k if len(rd[0]) > 1 else 0
            if len(rd[0]) == 1 and (pk != samples[0][1]):
                bad.append(("bpm_vectorised_shape", {"reading_shape": [2, len(rd[0])], "samples": B}, False))
                break
            scale = max(1.0, max(abs(p["x"]) + abs(p["y"]) for p in pk))
            if abs(Fr(rd[0][kk]) - cx) > 1e-12 * scale or abs(Fr(rd[1][kk]) - cy) > 1e-12 * scale:
                bad.append(("bpm_vectorised_centroid", {"sample": k, "reading": [rd[0][kk], rd[1][kk]], "centroid": [float(cx), float(cy)]}, False))
                break
    except Exception as ex:  # noqa
        bad.append(("bpm_vectorised_raises", {"exception": repr(ex)[:300]}, False))
    return bad


# ------------------------------------------------------------------------------------------------ direct Screen.track / screen(beam)
def beam_state(b):
    return {k: v.clone() for k, v in b.named_buffers()}


def oracle_direct(sp0, parts, mx, my):
    """screen.track(beam) and screen(beam) called DIRECTLY (not through Segment.track, which skips an inactive screen) for all four
    (is_active, is_blocking) combinations and both beam types: an inactive screen lets the beam pass unchanged and records
    nothing, whether blocking or not; an active one records it and stops it exactly when blocking.  Exceptions are observations."""
    bad = []
    nx, ny = nb(sp0)
    for active in (True, False):
        for blocking in (True, False):
            sp = dict(sp0, active=active, blocking=blocking, via_segment=False, pretrack=False)
            for btype in ("particle", "parameter"):
                for call in ("track", "call"):
                    tag = dict(is_active=active, is_blocking=blocking, beam_type=btype, call="screen.track(beam)" if call == "track" else "screen(beam)")
                    try:
                        scr = mk_screen(sp)
                        beam = mk_pbeam(parts) if btype == "particle" else mk_parambeam(mx, my, 0.3 * sp["px"], 0.3 * sp["py"], q=1.5, mpx=0.125, mpy=-0.25)
                        before = beam_state(beam)
                        out = scr.track(beam) if call == "track" else scr(beam)
                        after, got = beam_state(beam), beam_state(out)
                        rb = scr.get_read_beam()
                        img = scr.reading
                    except Exception as ex:  # noqa
                        bad.append(("direct_raises", dict(tag, exception=repr(ex)[:200]), False))
                        continue
                    zeroed = "survival_probabilities" if btype == "particle" else "total_charge"
                    want = dict(before)
                    if active and blocking:
                        want[zeroed] = torch.zeros_like(before[zeroed])
                    diff = [k for k in want if k not in got or not torch.equal(got[k], want[k])] if type(out) is type(beam) else ["<beam type>"]
                    if diff:
                        k = diff[0]
                        clause = "inactive_passthrough" if not active else ("blocking_stops_beam" if blocking else "active_passthrough")
                        bad.append((clause, dict(tag, differs=diff, expected=want[k].flatten()[:6].tolist() if k in want else None,
                                                 observed=got[k].flatten()[:6].tolist() if k in got else None), False))
                    if any(not torch.equal(after[k], before[k]) for k in before):
                        bad.append(("incoming_modified", tag, False))
                    if not active and (rb is not None or bool((img != 0).any())):
                        bad.append(("inactive_records", tag, False))
                    if active and rb is None:
                        bad.append(("active_records_nothing", tag, False))
                    if btype == "particle" and tuple(img.shape) != (ny, nx):
                        bad.append(("image_shape", dict(tag, shape=tuple(img.shape), expected=(ny, nx)), False))
    return bad


def oracle_bpm(run, parts, ptype):
    """BPM.reading == (mu_x, mu_y) of the beam == exact survival-weighted centroid; beam passes unchanged, active or not."""
    import cheetah
    bad, cases = [], []
    for active in (True, False):
        bpm = cheetah.BPM(is_active=active)
        if ptype == "particle":
            beam = mk_pbeam(parts, dtype=F64)
            ssum = sum(Fr(p["s"]) for p in parts)
            ex = sum(Fr(p["x"]) * Fr(p["s"]) for p in parts) / ssum
            ey = sum(Fr(p["y"]) * Fr(p["s"]) for p in parts) / ssum
        else:
            beam = mk_parambeam(parts[0]["x"], parts[0]["y"], 0.01, 0.02, dtype=F64)
            ex, ey = Fr(parts[0]["x"]), Fr(parts[0]["y"])
        out = bpm.track(beam)
        r = bpm.reading
        rx, ry = float(r[0]), float(r[1])
        scale = max(1.0, max(abs(p["x"]) + abs(p["y"]) for p in parts))
        tol = 1e-12 * scale
        if abs(Fr(rx) - ex) > tol or abs(Fr(ry) - ey) > tol:
            bad.append(("bpm_centroid", {"reading": [rx, ry], "centroid": [float(ex), float(ey)], "active": active}, False))
        if abs(rx - float(beam.mu_x)) > tol or abs(ry - float(beam.mu_y)) > tol:
            bad.append(("bpm_mu", {"reading": [rx, ry], "mu": [float(beam.mu_x), float(beam.mu_y)]}, False))
        same = all(torch.equal(a, b) for a, b in zip(out.buffers(), beam.buffers()))
        if not same:
            bad.append(("bpm_passthrough", {"active": active}, False))
        if ptype == "particle":
            cases.append(f"mkc20b {coq_list([coq_particle(p) for p in strip(parts)])} {'true' if active else 'false'} {qlit(rx)} {qlit(ry)} {qlit(tol)}")
    return bad, cases


# ------------------------------------------------------------------------------------------------ ParameterBeam correspondence
def observe_param(sp, mx, my, q):
    sx, sy = 0.3 * sp["px"] * sp["b"], 0.3 * sp["py"] * sp["b"]
    scr = mk_screen(sp)
    beam = mk_parambeam(mx, my, sx, sy, q=q, mpx=0.125, mpy=-0.25)
    out = scr.track(beam)
    R = scr.reading
    rb = scr.get_read_beam()
    return dict(shape=[int(R.shape[0]), int(R.shape[1])], peak=argmax2(R), read=[float(v) for v in rb._mu[:4]], outq=float(out.total_charge))


def coq_param_case(sp, mx, my, q, obs):
    pk = "None" if obs["peak"] is None else f"(Some ({obs['peak'][0]}%nat, {obs['peak'][1]}%nat))"
    return (f"mkc20p {coq_screen(sp)} {qz(mx)} {qz(0.125)} {qz(my)} {qz(-0.25)} {qz(q)} ({obs['shape'][0]}%nat, {obs['shape'][1]}%nat) {pk} "
            f"{qlist(obs['read'])} {qz(obs['outq'])}")


# ------------------------------------------------------------------------------------------------ main
F14_WHAT = ("Screen.track(ParticleBeam) subtracts the y-misalignment from particles[...,1] (px) instead of particles[...,2] (y): "
            "a y-misaligned screen shows the particle beam in the rows of an aligned one and the read beam's px is shifted [F14]")
F15_WHAT = ("ParameterBeam screen image is indexed [x][flipped y] with shape (ceil(W/b), ceil(H/b)) instead of (H//b, W//b) and is sampled "
            "at the left/bottom pixel edges: wrong shape on non-square screens, transposed and half a pixel off peak otherwise [F15]")


def main(tier, replay=None):
    run = common.Run(PID, tier)
    common.setup_python_env()
    thorough = tier == "thorough"
    run.cov["rule"] = ("random screens (resolutions incl. non-square and not divisible by the binning, binning 1/2/4, dyadic pixel sizes and "
                       "misalignments, active/inactive, blocking, inactive+blocking; tracked directly or inside a Segment) x particle sets (1..8 particles on a dyadic lattice, never within 1/16 pixel of "
                       "a bin edge, inside and outside the screen, dyadic charges and survival values) in float32 so that every value is an "
                       "exact rational; whole image / read beam / returned beam compared with the Coq model by vm_compute. Non-trivial = at least "
                       "one particle with non-zero weight inside the screen; distinct by full case content. Plus: histogram screens with a fractional and "
                       "a lost particle ON the screen (survival 0, 1/8 .. 3/4, 1); KDE screens vs the weighted kernel sum; vectorised beams (coordinates and/or "
                       "survival with a batch dimension) x vectorised misalignments, both methods, directly and inside a Segment, BPM per sample.")
    if replay:
        return do_replay(run, replay)
    proof_ok = run.proof_stage()
    import translate_stage
    tr_diag = translate_stage.translator_obligation_diag(run, parts=("screen",))
    if tr_diag["status"] != "ok":
        run.notes.append("translator obligation (screen/BPM): " + json.dumps(translate_stage.replay_fields_diag(tr_diag))[:600])
    if proof_ok:
        ok, log = common.coq_build("theories/Diag/ScreenCheck.vo")
        if not ok:
            proof_ok = False
            run.proof_problem = "coq build of Diag/ScreenCheck.vo failed: " + log[-800:]
    if not proof_ok:
        run.notes.append(run.proof_problem)

    rng = run.rng
    new_bad, known = [], set()     # new_bad: list of replay dicts

    # only a finding listed with status `known` may absorb a deviation, and only when the oracle has tagged the deviation because the
    # OBSERVED values equal that finding's characterised wrong values (the tag is computed from the observation, see the oracles).
    # A finding with status `fixed` absorbs nothing: its stored input is replayed as a regression test (replay_known).
    absorbing = {f["id"] for f in common.load_known_findings(PID) if f.get("status") == "known"}

    def record(kind, inp, items):
        for clause, detail, tag in items:
            if isinstance(tag, str) and tag in absorbing:
                known.add(tag)
                continue
            item = dict(kind=kind, clause=clause, detail=detail, **inp)
            if tag:
                item["resembles_finding"] = {"id": tag if isinstance(tag, str) else "?", "note": "observed values equal the characterised wrong values of a "
                                             "finding that is not listed with status 'known' (fixed findings absorb nothing): reported as a violation"}
            new_bad.append(item)

    yidx = None
    try:
        yidx = probe_y_index()
    except Exception as ex:  # noqa
        new_bad.append(dict(kind="probe", clause="track_raises", detail=str(ex)))
    run.cov["y_misalignment_applied_to_index"] = yidx
    if yidx == [2]:
        run.notes.append("Screen.track(ParticleBeam) applies the y-misalignment to index 2 (y): F14 is repaired in this tree; "
                         "the correspondence uses the repaired variant of the model (read_particle_fixed)")

    # ---------------- histogram screens: correspondence + oracle
    n_hist = 900 if thorough else 110
    terms, cases = [], []
    for k in range(n_hist):
        sp = gen_screen(rng, thorough)
        mode = rng.random()
        if mode < 0.12:
            sp["active"] = False
            sp["blocking"] = rng.random() < 0.5      # a moved-out blocking screen: tracked directly unless via_segment
        elif mode < 0.3:
            sp["blocking"] = True
        sp["via_segment"] = rng.random() < 0.3
        sp["pretrack"] = sp["active"] and rng.random() < 0.25
        single = rng.random() < 0.35
        parts = gen_particles(rng, sp, 1 if single else rng.randrange(2, 9))
        inp = dict(screen=sp, particles=parts)
        try:
            obs = observe_hist(sp, parts)
        except Exception as ex:  # noqa
            new_bad.append(dict(kind="hist", clause="raises", detail=repr(ex)[:300], **inp))
            continue
        nontrivial = sp["active"] and any(p["q"] * p["s"] != 0 and intended_pixel(dict(sp, dy=0.0), p["x"], p["y"]) is not None for p in parts)
        run.add_case(["hist", sp, parts], nontrivial)
        run.count("screen_%dx%d_b%d" % (sp["W"], sp["H"], sp["b"]))
        run.count("misaligned_y" if sp["dy"] != 0 else "aligned_y")
        run.count(("inactive_blocking" if sp["blocking"] else "inactive") if not sp["active"] else ("blocking" if sp["blocking"] else "active"))
        run.count("particles_inside", sum(1 for p in parts if intended_pixel(sp, p["x"], p["y"]) is not None))
        run.count("particles_outside", sum(1 for p in parts if intended_pixel(sp, p["x"], p["y"]) is None))
        record("hist", inp, oracle_hist(sp, parts, obs))
        cases.append((sp, parts, obs))
        terms.append(coq_hist_case(sp, parts, obs))
    if cases:
        run.sample({"screen": cases[0][0], "particles": cases[0][1], "observed_nonzero_pixels": nonzero(cases[0][2]["img"])})
    checker = "c20_check_fixed" if yidx == [2] else "c20_check"
    corr_fail, corr_err = [], None
    try:
        corr_fail = common.run_shards(PID, "hist", PRE, terms, checker, shard=60)
        run.cov["traces_validated_against_impl"] += len(terms)
    except RuntimeError as ex:
        corr_err = str(ex)

    # ---------------- ParameterBeam: correspondence (shape, peak, read beam) + param-vs-particle oracle
    n_par = 300 if thorough else 40
    pterms, pcases = [], []
    for k in range(n_par):
        sp = gen_screen(rng, thorough)
        ex, ey = edges(sp)
        # mean on the dyadic lattice, clear of pixel edges and of pixel centres (arg-max ties of the edge-sampled image)
        for _ in range(100):
            mx = gen_coord(rng, [ex], float(ex[-1]) * 0.8, sp["px"], [sp["dx"]])
            my = gen_coord(rng, [ey], float(ey[-1]) * 0.8, sp["py"], [0.0, sp["dy"]])
            fx = (Fr(mx) - Fr(sp["dx"]) - ex[0]) / (Fr(sp["px"]) * sp["b"])
            fy = (Fr(my) - Fr(sp["dy"]) - ey[0]) / (Fr(sp["py"]) * sp["b"])
            if abs(fx % 1 - Fr(1, 2)) >= Fr(1, 16) and abs(fy % 1 - Fr(1, 2)) >= Fr(1, 16) and intended_pixel(sp, mx, my) is not None:
                break
        else:
            continue
        q = rng.randrange(1, 9) / 4
        sp["blocking"] = rng.random() < 0.3
        inp = dict(screen=sp, mu_x=mx, mu_y=my)
        try:
            obs = observe_param(sp, mx, my, q)
            res, bad = oracle_param_vs_particle(run, sp, mx, my)
        except Exception as exn:  # noqa
            new_bad.append(dict(kind="param", clause="raises", detail=repr(exn)[:300], **inp))
            continue
        want_q = 0.0 if sp["blocking"] else q
        if obs["outq"] != want_q:
            bad.append(("param_outgoing_charge", {"observed": obs["outq"], "expected": want_q}, False))
        run.add_case(["param", sp, mx, my], True)
        run.count("param_" + ("square" if nb(sp)[0] == nb(sp)[1] else "nonsquare"))
        record("param", inp, bad)
        pcases.append((sp, mx, my, q, obs))
        pterms.append(coq_param_case(sp, mx, my, q, obs))
    pcorr_fail = []
    try:
        pcorr_fail = common.run_shards(PID, "param", PRE, pterms, "c20_pcheck", shard=100)
        run.cov["traces_validated_against_impl"] += len(pterms)
    except RuntimeError as ex:
        corr_err = (corr_err or "") + str(ex)

    # ---------------- KDE (tested only) and BPM
    for k in range(60 if thorough else 8):
        sp = gen_screen(rng, thorough)
        n = rng.randrange(2, 6)
        batches = [gen_particles(rng, sp, n) for _ in range(3)]
        for b in batches[1:]:
            for p, p0 in zip(b, batches[0]):
                p["q"] = p0["q"]
        inp = dict(screen=sp, batches=batches)
        try:
            record("kde", inp, oracle_kde(run, sp, batches))
            p1 = dict(gen_particles(rng, sp, 1)[0], s=1.0)
            record("kde_peak", dict(screen=sp, particles=[p1]), oracle_kde_peak(sp, p1))
        except Exception as exn:  # noqa
            new_bad.append(dict(kind="kde", clause="raises", detail=repr(exn)[:300], **inp))
        run.add_case(["kde", sp, batches], True)
        run.count("kde_cases")
    # KDE with binning > 1: a particle in the upper/right part of a binned pixel (and a few in the lower/left part)
    for k in range(96 if thorough else 12):
        g = gen_kde_binned(rng, [2, 4][k % 2], upper=k % 6 != 5)
        if g is None:
            continue
        sp, p1, frac = g
        inp = dict(screen=sp, particles=[p1], fraction_of_binned_pixel=frac)
        try:
            record("kde_binned", inp, oracle_kde_binned(sp, p1))
        except Exception as exn:  # noqa
            new_bad.append(dict(kind="kde_binned", clause="raises", detail=repr(exn)[:300], **inp))
        run.add_case(["kde_binned", sp, p1], True)
        run.count("kde_binned_b%d" % sp["b"])
    # direct screen.track(beam) / screen(beam): all (is_active, is_blocking) combinations, both beam types
    for k in range(60 if thorough else 8):
        sp = gen_screen(rng, thorough)
        parts = gen_particles(rng, sp, rng.randrange(1, 6))
        exs, eys = edges(sp)
        mx = gen_coord(rng, [exs], float(exs[-1]) * 0.8, sp["px"], [sp["dx"]])
        my = gen_coord(rng, [eys], float(eys[-1]) * 0.8, sp["py"], [0.0, sp["dy"]])
        inp = dict(screen=sp, particles=parts, mu_x=mx, mu_y=my)
        try:
            for item in oracle_direct(sp, parts, mx, my):
                d = item[1] if isinstance(item[1], dict) else {}
                record("direct", dict(inp, screen=dict(sp, active=d.get("is_active", sp["active"]), blocking=d.get("is_blocking", sp["blocking"]))), [item])
        except Exception as exn:  # noqa
            new_bad.append(dict(kind="direct", clause="raises", detail=repr(exn)[:300], **inp))
        run.add_case(["direct", sp, parts, mx, my], True)
        run.count("direct_track_calls", 16)
    bterms = []
    for k in range(200 if thorough else 30):
        sp = gen_screen(rng, thorough)
        parts = gen_particles(rng, sp, rng.randrange(1, 9))
        if sum(p["s"] for p in parts) == 0:
            parts[0]["s"] = 1.0
        ptype = "particle" if k % 4 else "parameter"
        try:
            bad, cs = oracle_bpm(run, parts, ptype)
        except Exception as exn:  # noqa
            new_bad.append(dict(kind="bpm", clause="raises", detail=repr(exn)[:300], particles=parts, beam_type=ptype))
            continue
        record("bpm", dict(particles=parts, beam_type=ptype), bad)
        bterms += cs
        run.add_case(["bpm", parts, ptype], True)
        run.count("bpm_" + ptype)
    bcorr_fail = []
    try:
        bcorr_fail = common.run_shards(PID, "bpm", PRE, bterms, "c20_bcheck", shard=100)
        run.cov["traces_validated_against_impl"] += len(bterms)
    except RuntimeError as ex:
        corr_err = (corr_err or "") + str(ex)

    # ---------------- survival weights (fractional and zero) and vectorisation; after the older stages, which keep their random stream
    wterms, wcases = [], []
    for k in range(300 if thorough else 36):
        sp = gen_screen(rng, thorough)
        sp["via_segment"] = rng.random() < 0.3
        sp["pretrack"] = False
        parts = gen_particles(rng, sp, rng.randrange(2, 9))
        for p in parts:
            p["s"] = rng.choice([1.0, 0.75, 0.5, 0.25, 0.125, 0.0, 0.0])
        inside = [p for p in parts if intended_pixel(sp, p["x"], p["y"]) is not None]
        if inside:                        # a fractional and a lost particle ON the screen, next to a fully surviving one
            inside[0]["s"] = rng.choice([0.5, 0.25, 0.75, 0.125])
            inside[-1]["s"] = 0.0 if len(inside) > 2 else inside[-1]["s"]
            if len(inside) > 1:
                inside[1]["s"] = 1.0
        inp = dict(screen=sp, particles=parts)
        try:
            obs = observe_hist(sp, parts)
            record("hist", inp, oracle_hist(sp, parts, obs))
            wcases.append((sp, parts, obs))
            wterms.append(coq_hist_case(sp, parts, obs))
        except Exception as ex:  # noqa
            new_bad.append(dict(kind="hist", clause="raises", detail=repr(ex)[:300], **inp))
        run.add_case(["hist_weighted", sp, parts], bool(inside))
        run.count("hist_weighted_cases")
        run.count("hist_weighted_fractional_inside", sum(1 for p in inside if 0 < p["s"] < 1))
        run.count("hist_weighted_lost_inside", sum(1 for p in inside if p["s"] == 0))
        if k % 2 == 0:
            try:
                record("kde_weights", inp, oracle_kde_weights(sp, parts))
            except Exception as ex:  # noqa
                new_bad.append(dict(kind="kde_weights", clause="raises", detail=repr(ex)[:300], **inp))
            run.count("kde_weighted_cases")
    wcorr_fail = []
    try:
        wcorr_fail = common.run_shards(PID, "histw", PRE, wterms, checker, shard=60)
        run.cov["traces_validated_against_impl"] += len(wterms)
    except RuntimeError as ex:
        corr_err = (corr_err or "") + str(ex)
    if wcorr_fail and not corr_fail:
        cases, corr_fail = wcases, wcorr_fail
    for k in range(300 if thorough else 40):
        case = gen_vectorised_case(rng, thorough)
        try:
            items = oracle_vectorised(case)
        except Exception as ex:  # noqa
            items = [("raises", repr(ex)[:300], False)]
        if any(t == "rejected" for c, d, t in items):
            run.count("vectorised_histogram_rejected_by_the_code")
        else:
            run.count("vectorised_%s_%s" % (case["method"], case["what"]))
        record("vectorised", dict(case=case), [it for it in items if it[2] != "rejected"])
        run.add_case(["vectorised", case], True)

    # ---------------- known findings: replay the stored inputs
    replay_known(run, known)

    run.cov["tested_only"] = ["KDE image vs the normalised Gaussian kernel sum with weights charge*survival at the binned pixel centres (float64 reference, 2e-4 of the "
                              "image maximum); lost particles invisible; vectorised beam / survival / misalignment == per-sample images (1e-5), per-sample "
                              "normalisation; vectorised histogram input is rejected by the code (NotImplementedError, or a shape error of histogramdd when only the "
                              "survival probabilities are vectorised)",
                              "KDE image: vectorised == per-sample (1e-5 relative), shape, single-particle peak pixel (binning 2/4: particle in the "
                              "upper/right part of a binned pixel; peak == containing pixel == histogram pixel)",
                              "direct Screen.track / screen(beam) on inactive+blocking screens for ParameterBeam (the model's track_screen covers the "
                              "ParticleBeam case; Segment.track never calls an inactive screen)",
                              "ParameterBeam image values (bivariate normal density); only shape, arg-max pixel and read beam are modelled",
                              "BPM reading in float64 to 1e-12 (exact centroid in rational arithmetic)",
                              "float64 histogram screens raise (pixel_bin_edges is float32, finding F16 of C12): screens are run in float32"]

    # ---------------- verdict
    if new_bad:
        item = shrink(new_bad[0])
        run.violation(dict(item, relation="see clause; expected values computed in exact rational arithmetic from the property statement"))
    elif corr_fail or pcorr_fail or bcorr_fail or corr_err:
        if corr_fail:
            sp, parts, obs = cases[corr_fail[0]]
            rep = {"kind": "correspondence", "broken": "Coq model Diag/Screen.v (c20_check) disagrees with Screen on this histogram case",
                   "screen": sp, "particles": parts, "observed": {k: obs[k] for k in ("eff", "ex", "ey", "read", "out")}, "observed_nonzero": nonzero(obs["img"])}
        elif pcorr_fail:
            sp, mx, my, q, obs = pcases[pcorr_fail[0]]
            rep = {"kind": "correspondence", "broken": "Coq model Diag/Screen.v (c20_pcheck) disagrees with Screen on this ParameterBeam case",
                   "screen": sp, "mu_x": mx, "mu_y": my, "observed": obs}
        elif bcorr_fail:
            rep = {"kind": "correspondence", "broken": "Coq model (c20_bcheck) disagrees with BPM", "case": bterms[bcorr_fail[0]]}
        else:
            rep = {"kind": "correspondence", "broken": "case file did not compile: " + corr_err[-600:]}
        run.violation(rep, no_input=True)
    elif tr_diag["status"] != "ok":
        # the source no longer translates to the proved model; none of this run's oracles found a failing input
        run.violation(translate_stage.replay_fields_diag(tr_diag), no_input=True)
    elif not proof_ok:
        run.violation({"kind": "proof", "broken": run.proof_problem}, no_input=True)
    return run.finish("proof")


def shrink(item):
    """drop particles while the same clause keeps failing (histogram cases only)."""
    if item.get("kind") != "hist":
        return item
    sp, parts = item["screen"], list(item["particles"])

    def fails(ps):
        try:
            obs = observe_hist(sp, ps)
        except Exception:
            return item["clause"] == "raises"
        return any(c == item["clause"] for c, d in untagged(oracle_hist(sp, ps, obs)))
    changed = True
    while changed and len(parts) > 1:
        changed = False
        for i in range(len(parts)):
            ps = parts[:i] + parts[i + 1:]
            if fails(ps):
                parts, changed = ps, True
                break
    if parts != item["particles"]:
        try:
            obs = observe_hist(sp, parts)
            for c, d, t in oracle_hist(sp, parts, obs):
                if c == item["clause"]:
                    item = dict(item, particles=parts, detail=d)
        except Exception:
            item = dict(item, particles=parts)
    return item


def absorbing_ids():
    """ids of the findings that may absorb a deviation: listed for C20 with status `known` (never `fixed`)."""
    return {f["id"] for f in common.load_known_findings(PID) if f.get("status") == "known"}


def untagged(items):
    """the (clause, detail) pairs of oracle items that no KNOWN finding absorbs"""
    ab = absorbing_ids()
    return [(c, d) for c, d, t in items if not (isinstance(t, str) and t in ab)]


def replay_finding_input(run, f):
    """re-run the stored input of a finding; returns the oracle items (clause, detail, tag) that fail on the current tree"""
    r = f["replay"]
    if r.get("kind") == "hist" or f["id"] == "F14":
        obs = observe_hist(r["screen"], r["particles"])
        return oracle_hist(r["screen"], r["particles"], obs)
    if r.get("kind") == "param" or f["id"] == "F15":
        return oracle_param_vs_particle(run, r["screen"], r["mu_x"], r["mu_y"])[1]
    return replay_items(run, r)


def replay_known(run, seen):
    for f in common.load_known_findings(PID):
        if "replay" not in f:
            continue
        try:
            items = replay_finding_input(run, f)
        except Exception as ex:  # noqa
            items = [("raises", repr(ex)[:300], False)]
        if f.get("status") != "known":
            # a FIXED finding suppresses nothing: its stored input is a regression test
            if items:
                c, d, _t = items[0]
                run.violation(dict(f["replay"], clause=c, detail=d, regression_of=f["id"],
                                   relation="the stored input of a finding listed as fixed fails again"))
            continue
        still = any(t == f["id"] for c, d, t in items)
        if still or f["id"] in seen:
            run.known(f["what"])
        else:
            run.cov["known_findings_not_reproduced"].append(f["id"])
    for fid in sorted(seen - absorbing_ids()):
        # (not reachable: record() only absorbs into listed known findings)
        run.violation({"kind": "unlisted_finding", "finding": fid, "broken": "behaviour matches a finding signature that is not in known_findings"}, no_input=True)


def replay_items(run, r):
    kind = r.get("kind")
    if kind == "hist":
        return oracle_hist(r["screen"], r["particles"], observe_hist(r["screen"], r["particles"]))
    if kind == "param":
        return oracle_param_vs_particle(run, r["screen"], r["mu_x"], r["mu_y"])[1]
    if kind == "kde":
        return oracle_kde(run, r["screen"], r["batches"])
    if kind == "kde_peak":
        return oracle_kde_peak(r["screen"], r["particles"][0])
    if kind == "kde_binned":
        return oracle_kde_binned(r["screen"], r["particles"][0])
    if kind == "direct":
        return oracle_direct(r["screen"], r["particles"], r["mu_x"], r["mu_y"])
    if kind == "bpm":
        return oracle_bpm(run, r["particles"], r["beam_type"])[0]
    if kind == "kde_weights":
        return oracle_kde_weights(r["screen"], r["particles"])
    if kind == "vectorised":
        return oracle_vectorised(r["case"])
    return None


def do_replay(run, path):
    r = json.loads(open(path).read())
    items = replay_items(run, r)
    if items is None:
        print("replay: this replay file records a broken model/proof, not a failing input")
        return 0
    bad = untagged(items)
    print("replay:", "property holds on this input" if not bad else f"property FAILS on this input: {bad[:2]}")
    return 1 if bad else 0
