"""Generators of *real* cheetah elements / lattices / beams as JSON-able specs.

spec  = {"cls": "Quadrupole", "name": "q1", "kw": {"length": 0.3, "k1": 2.0, ...}}    (floats -> tensors)
      | {"cls": "Segment", "name": "s", "es": [spec, ...]}
beam  = {"type": "particle", "particles": [[7 floats]...], "energy": float, "charges": [...], "survival": [...]}
      | {"type": "parameter", "mu": [7], "cov": [[7x7]], "energy": float, "total_charge": float}
Tensor-valued keyword arguments are given as floats or (nested) lists; everything else is passed through.
"""
import math

import torch

import cheetah

TENSOR_KW = {
    "length", "k1", "misalignment", "tilt", "angle", "dipole_e1", "dipole_e2", "rbend_e1", "rbend_e2", "gap", "gap_exit",
    "fringe_integral", "fringe_integral_exit", "k", "voltage", "phase", "frequency", "x_max", "y_max", "pixel_size",
    "kde_bandwidth", "effect_length", "grid_extend_x", "grid_extend_y", "grid_extend_tau", "predefined_transfer_map",
}

CLASSES = ["Drift", "Quadrupole", "Dipole", "RBend", "Solenoid", "HorizontalCorrector", "VerticalCorrector", "Cavity",
           "Undulator", "TransverseDeflectingCavity", "Marker", "BPM", "Screen", "Aperture", "SpaceChargeKick",
           "CustomTransferMap"]


def build(spec, dtype=torch.float64):
    if spec["cls"] == "Segment":
        return cheetah.Segment([build(c, dtype) for c in spec["es"]], name=spec.get("name"))
    cls = getattr(cheetah, spec["cls"])
    kw = {}
    for k, v in spec["kw"].items():
        if k in TENSOR_KW and v is not None:
            kw[k] = torch.tensor(v, dtype=dtype)
        elif k == "resolution":
            kw[k] = tuple(v)
        else:
            kw[k] = v
    if spec["cls"] not in ("Marker", "BPM"):
        kw["dtype"] = dtype
    return cls(name=spec.get("name"), **kw)


def build_beam(b, dtype=torch.float64):
    if b["type"] == "particle":
        return cheetah.ParticleBeam(torch.tensor(b["particles"], dtype=dtype), torch.tensor(b["energy"], dtype=dtype),
                                    particle_charges=torch.tensor(b["charges"], dtype=dtype),
                                    survival_probabilities=torch.tensor(b["survival"], dtype=dtype), dtype=dtype)
    return cheetah.ParameterBeam(torch.tensor(b["mu"], dtype=dtype), torch.tensor(b["cov"], dtype=dtype),
                                 torch.tensor(b["energy"], dtype=dtype), total_charge=torch.tensor(b["total_charge"], dtype=dtype),
                                 dtype=dtype)


# ---------------------------------------------------------------- value pools
def pick(rng, pool, p_special=0.5):
    return rng.choice(pool)


def r(rng, lo, hi, digits=3):
    return round(rng.uniform(lo, hi), digits)


LEN = [0.0, 0.1, 0.25, 0.5, 1.0, 2.0]
K1 = [0.0, 0.5, -0.5, 2.0, -3.0, 10.0, -10.0, 1e-3]
ANGLE = [0.0, 0.01, -0.02, 0.1, -0.3, 0.5]
TILT = [0.0, 0.0, 0.1, -0.2, math.pi / 4, math.pi / 2]
MIS = [[0.0, 0.0], [0.0, 0.0], [1e-3, 0.0], [0.0, -2e-3], [5e-4, 3e-4]]
ENERGIES = [5e6, 2e7, 1e8, 6e9]


def gen_element(rng, cls=None, name=None, method=None, allow=None, length_pool=LEN):
    """A random real element spec.  `method`: None (random), 'cheetah' or 'bmadx'."""
    cls = cls or rng.choice(allow or CLASSES)
    L = rng.choice(length_pool)
    tm = method or rng.choice(["cheetah", "cheetah", "bmadx"])
    kw = {}
    if cls == "Drift":
        kw = dict(length=L, tracking_method=tm)
    elif cls == "Quadrupole":
        kw = dict(length=L, k1=rng.choice(K1), misalignment=rng.choice(MIS), tilt=rng.choice(TILT), num_steps=rng.choice([1, 1, 2, 5]),
                  tracking_method=tm)
    elif cls in ("Dipole", "RBend"):
        e = "dipole_e" if cls == "Dipole" else "rbend_e"
        kw = dict(length=L if L > 0 else 0.5, angle=rng.choice(ANGLE), k1=rng.choice([0.0, 0.0, 0.5, -1.0]),
                  tilt=rng.choice(TILT), gap=rng.choice([0.0, 0.02]), fringe_integral=rng.choice([0.0, 0.5]),
                  fringe_at=rng.choice(["both", "both", "neither", "entrance", "exit"]), tracking_method=tm)
        kw[e + "1"] = rng.choice([0.0, 0.05, -0.1])
        kw[e + "2"] = rng.choice([0.0, 0.05, -0.1])
        if rng.random() < 0.3:
            kw["gap_exit"] = rng.choice([0.0, 0.03])
            kw["fringe_integral_exit"] = rng.choice([0.0, 0.4])
    elif cls == "Solenoid":
        kw = dict(length=L, k=rng.choice([0.0, 0.5, -1.0, 3.0]), misalignment=rng.choice(MIS))
    elif cls in ("HorizontalCorrector", "VerticalCorrector"):
        kw = dict(length=L, angle=rng.choice([0.0, 1e-3, -2e-3, 0.01]))
    elif cls == "Cavity":
        kw = dict(length=L if L > 0 else 1.0, voltage=rng.choice([0.0, 1e6, 5e6, -1e6]), phase=rng.choice([0.0, 30.0, -20.0, 90.0]),
                  frequency=rng.choice([1.3e9, 2.998e9]))
    elif cls == "Undulator":
        kw = dict(length=L, is_active=rng.choice([False, True]))
    elif cls == "TransverseDeflectingCavity":
        kw = dict(length=L if L > 0 else 0.5, voltage=rng.choice([0.0, 1e5, 1e6]), phase=rng.choice([0.0, 45.0, 90.0]),
                  frequency=rng.choice([1e9, 2.856e9]), misalignment=rng.choice(MIS), tilt=rng.choice(TILT), num_steps=rng.choice([1, 3]))
    elif cls == "Marker":
        kw = {}
    elif cls == "BPM":
        kw = dict(is_active=rng.choice([False, True]))
    elif cls == "Screen":
        kw = dict(resolution=rng.choice([[6, 4], [8, 8], [10, 12]]), pixel_size=rng.choice([[1e-3, 1e-3], [5e-4, 1e-3]]),
                  binning=rng.choice([1, 2]), misalignment=rng.choice(MIS), is_blocking=rng.choice([False, False, True]),
                  is_active=rng.choice([False, True]))
    elif cls == "Aperture":
        kw = dict(x_max=rng.choice([1e-4, 1e-3, 1.0, float("inf")]), y_max=rng.choice([1e-4, 1e-3, 1.0, float("inf")]),
                  shape=rng.choice(["rectangular", "elliptical"]), is_active=rng.choice([True, True, False]))
    elif cls == "SpaceChargeKick":
        kw = dict(effect_length=rng.choice([0.1, 0.5]), num_grid_points_x=8, num_grid_points_y=8, num_grid_points_tau=8)
    elif cls == "CustomTransferMap":
        m = [[1.0 if i == j else 0.0 for j in range(7)] for i in range(7)]
        m[0][1] = L
        m[2][3] = L
        m[1][0] = rng.choice([0.0, -0.5, 0.25])
        m[0][6] = rng.choice([0.0, 1e-4])
        kw = dict(predefined_transfer_map=m, length=L)
    return {"cls": cls, "name": name, "kw": kw}


def gen_particle_beam(rng, n=None, energy=None, scale=1e-3, delta_scale=1e-3):
    n = n or rng.choice([1, 2, 3, 5])
    ps = []
    for _ in range(n):
        ps.append([r(rng, -scale, scale, 6), r(rng, -scale, scale, 6), r(rng, -scale, scale, 6), r(rng, -scale, scale, 6),
                   r(rng, -scale, scale, 6), r(rng, -delta_scale, delta_scale, 6), 1.0])
    return {"type": "particle", "particles": ps, "energy": energy or rng.choice(ENERGIES),
            "charges": [rng.choice([1e-12, 2e-12, 0.0]) for _ in range(n)],
            "survival": [rng.choice([1.0, 1.0, 1.0, 0.0, 0.5]) for _ in range(n)]}


def gen_parameter_beam(rng, energy=None, scale=1e-3):
    a = [[r(rng, -scale, scale, 6) for _ in range(6)] + [0.0] for _ in range(6)] + [[0.0] * 7]
    cov = [[sum(a[i][k] * a[j][k] for k in range(7)) for j in range(7)] for i in range(7)]
    return {"type": "parameter", "mu": [r(rng, -scale, scale, 6) for _ in range(6)] + [1.0], "cov": cov,
            "energy": energy or rng.choice(ENERGIES), "total_charge": rng.choice([0.0, 1e-12, 1e-10])}


def gen_lattice(rng, n_max=6, depth=2, allow=None, method=None, counter=None):
    counter = counter or [0]
    es = []
    for _ in range(rng.randrange(1, n_max + 1)):
        counter[0] += 1
        if depth > 0 and rng.random() < 0.25:
            sub_name = f"sub{counter[0]}"       # fixed before recursing, so that nested names stay unique
            sub = gen_lattice(rng, max(2, n_max // 2), depth - 1, allow, method, counter)
            sub["name"] = sub_name
            es.append(sub)
        else:
            es.append(gen_element(rng, name=f"el{counter[0]}", allow=allow, method=method))
    return {"cls": "Segment", "name": f"seg{counter[0]}", "es": es}


def beams_close(a, b, rtol=1e-12, atol=1e-15):
    """Compare two real beams attribute-wise. Returns list of (what, maxdiff) that differ (NaN-aware)."""
    diffs = []
    if type(a) is not type(b):
        return [("type", float("inf"))]
    if isinstance(a, cheetah.ParticleBeam):
        names = ["particles", "energy", "particle_charges", "survival_probabilities"]
    else:
        names = ["_mu", "_cov", "energy", "total_charge"]
    for n in names:
        x, y = getattr(a, n), getattr(b, n)
        try:
            x, y = torch.broadcast_tensors(x, y)
        except RuntimeError:
            diffs.append((n + ":shape", float("inf")))
            continue
        nanx, nany = torch.isnan(x), torch.isnan(y)
        if torch.any(nanx != nany):
            diffs.append((n + ":nan", float("inf")))
            continue
        x = torch.where(nanx, torch.zeros_like(x), x)
        y = torch.where(nany, torch.zeros_like(y), y)
        tol = atol + rtol * torch.maximum(x.abs(), y.abs())
        bad = (x - y).abs() > tol
        if torch.any(bad):
            diffs.append((n, float((x - y).abs().max())))
    return diffs


# ---------------------------------------------------------------- elements after a HISTORY of assignments (round 6)
ASSIGNABLE_PLAIN = {"is_active", "tracking_method"}     # non-tensor attributes that are plain assignable fields


def build_history(spec, dtype=torch.float64, warm_energy=None):
    """Element of `spec` reached through a history instead of a fresh construction: it is CONSTRUCTED with spec["init_kw"]
    (same keys as spec["kw"], other values), optionally used once (spec.get("warm"): transfer_map at `warm_energy`, so that
    anything the element keeps from its first use is in place), and then every assignable key of spec["kw"] is re-assigned
    through the public attribute / property setter, in the order spec.get("order") (default: the order of spec["kw"]), to the
    FINAL value.  A spec without "init_kw" is built freshly (= build)."""
    if "init_kw" not in spec:
        return build(spec, dtype)
    el = build({"cls": spec["cls"], "name": spec.get("name"), "kw": spec["init_kw"]}, dtype)
    if spec.get("warm") and warm_energy is not None:
        try:
            el.transfer_map(torch.tensor(float(warm_energy), dtype=dtype))
        except Exception:       # the initial state may be outside the domain (e.g. active cavity at low energy): not the subject
            pass
    for k in spec.get("order") or list(spec["kw"].keys()):
        v = spec["kw"][k]
        if k in TENSOR_KW and v is not None:
            setattr(el, k, torch.tensor(v, dtype=dtype))
        elif k in ASSIGNABLE_PLAIN:
            setattr(el, k, v)
    return el
