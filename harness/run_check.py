"""Entry point of ./check."""
import argparse
import importlib
import os
import sys
import traceback

sys.path.insert(0, os.path.dirname(os.path.abspath(__file__)))
import common  # noqa: E402


def main():
    ap = argparse.ArgumentParser()
    ap.add_argument("pid")
    ap.add_argument("--tier", default=None)
    ap.add_argument("--replay", default=None)
    a = ap.parse_args()
    tier = a.tier or common.env_tier()
    pid = a.pid.upper()
    common.setup_python_env()   # cheetah from VERIF_REPO (default /repo), before any harness module imports it
    try:
        mod = importlib.import_module("props." + pid.lower())
    except ModuleNotFoundError as ex:
        print(f"no check for {pid}: {ex}")
        return 2
    try:
        return mod.main(tier, replay=a.replay)
    except Exception as ex:
        traceback.print_exc()
        frames = traceback.extract_tb(ex.__traceback__)
        repo = str(common.REPO.resolve())
        impl_frames = [f for f in frames if os.path.realpath(f.filename).startswith(repo)]
        if impl_frames:
            # The exception was raised inside the implementation under test while the harness was using its public API the
            # way it does on the unchanged tree (where this never happens): the behaviour changed and the correspondence is
            # broken.  Reported as a violation naming the call that now raises; no minimised input.
            run = common.Run(pid, tier)
            run.cov["rule"] = "run aborted: the implementation raised where the unchanged tree does not"
            run.cov["evaluations"], run.distinct = 1, {"a", "b"}
            run.cov["explanation"] = "the check could not complete: the implementation raised an exception inside a call that succeeds on the unchanged tree"
            run.violation({"kind": "implementation_raised", "broken": "correspondence: the implementation raised during a harness run",
                           "exception": f"{type(ex).__name__}: {str(ex)[:300]}",
                           "where": [f"{f.filename}:{f.lineno} in {f.name}" for f in impl_frames[-4:]],
                           "harness_call": [f"{f.filename}:{f.lineno} in {f.name}" for f in frames if "/verif/harness" in f.filename][-2:]},
                          no_input=True)
            run.finish("other" if not run.cov.get("obligations") else "proof")
            return 1
        # a crash of the machinery itself is not evidence of anything: fail loudly but without a VIOLATION line
        print(f"CHECK-ERROR property={pid}: the check itself crashed", flush=True)
        return 3


if __name__ == "__main__":
    sys.exit(main())
