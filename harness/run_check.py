"""Entry point of ./check."""
import argparse
import importlib
import os
import sys
import traceback

sys.path.insert(0, os.path.dirname(os.path.abspath(__file__)))
import common  # noqa: E402


def main():
    ap = argparse.ArgumentParser()
    ap.add_argument("pid")
    ap.add_argument("--tier", default=None)
    ap.add_argument("--replay", default=None)
    a = ap.parse_args()
    tier = a.tier or common.env_tier()
    pid = a.pid.upper()
    common.setup_python_env()   # cheetah from VERIF_REPO (default /repo), before any harness module imports it
    try:
        mod = importlib.import_module("props." + pid.lower())
    except ModuleNotFoundError as ex:
        print(f"no check for {pid}: {ex}")
        return 2
    try:
        return mod.main(tier, replay=a.replay)
    except Exception:
        # a crash of the machinery is not evidence of anything: fail loudly but without a VIOLATION line
        traceback.print_exc()
        print(f"CHECK-ERROR property={pid}: the check itself crashed", flush=True)
        return 3


if __name__ == "__main__":
    sys.exit(main())
