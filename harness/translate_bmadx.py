"""translate_bmadx -- regenerate a Coq transcription of cheetah's Bmad-X tracking code and of the coordinate / SI
conversions from /repo's SOURCE TEXT (companion of harness/translate_maps.py, same rules: Python's `ast` only, nothing
of cheetah is imported or executed; syntax-directed; every construct outside the fragment raises TranslateError with
reason, file, line; nothing is skipped silently).

Output: `Gen/BmadxGen.v` (definitions `gen_<fn>` over Coq's reals).  `Gen/BmadxGenEquiv.v` proves, definition by
definition, `gen_<fn> args = <hand-written model of Bmadx/*.v or Beam/SI.v> args`; `Gen/BmadxGenProps.v` holds the final
statements.  harness/translate_stage.translator_obligation_bmadx regenerates and re-proves on every run.

Translated functions (SPECS, in this order; later ones may call earlier ones):
  cheetah/utils/bmadx.py       cheetah_to_bmad_z_pz, bmad_to_cheetah_z_pz, cheetah_to_bmad_coords, bmad_to_cheetah_coords,
                               offset_particle_set, offset_particle_unset, low_energy_z_correction,
                               calculate_quadrupole_coefficients, sqrt_one, track_a_drift, particle_rf_time, sinc, cosc
  cheetah/accelerator/*.py     Drift._track_bmadx, Quadrupole._track_bmadx (with its step loop),
                               Dipole._bmadx_fringe_linear (one definition per value of `location`: entrance, exit),
                               Dipole._bmadx_body, Dipole._track_bmadx (one definition per value of `self.fringe_at`:
                               neither, entrance, exit, both), TransverseDeflectingCavity._track_bmadx
  cheetah/particles/beam.py    Beam.relativistic_gamma, Beam.relativistic_beta, Beam.p0c (properties)
  cheetah/particles/particle_beam.py   ParticleBeam.energies, ParticleBeam.momenta (properties),
                               ParticleBeam.to_xyz_pxpypz, ParticleBeam.from_xyz_pxpypz (classmethod)

SCALAR-PER-PARTICLE READING (trusted, quoted in DESIGN.md).  There is ONE particle and no batch dimension:
  * every tensor parameter / `self` attribute listed in SPECS is one real (kind "R"); a particle tensor (kinds "vec6",
    "vec7": `cheetah_coords`, `bmad_coords`, `xp_coordinates`, `self.particles`) is the tuple of its columns and
    `v[..., i]` is column i, `v[..., :k]` the first k columns;  `misalignment` is a pair ("vec2");
    `self.num_steps` is a natural number ("nat": `range(n)` iterates n times, in arithmetic it is `INR n`);
  * an incoming ParticleBeam (kind "beam") is (x, px, y, py, tau, p, energy): `incoming.x` .. `incoming.tau`, `incoming.p`
    are the six coordinates of the particle, `incoming.energy` the reference energy; `incoming.particle_charges`,
    `incoming.survival_probabilities` are opaque tokens that may only be passed through to the constructor;
    `incoming.particles.device/.dtype` is bookkeeping;
  * `ParticleBeam(particles=torch.stack([a0..a5, torch.ones_like(..)], dim=-1), energy=e, particle_charges=<token>,
    survival_probabilities=<token>, device=.., dtype=..)` (keywords only, exactly these) is the returned beam: the Coq
    tuple (a0, a1, a2, a3, a4, a5, e); a seventh column other than ones_like, a swapped / dropped token, or any other
    constructor argument fails;
  * `.unsqueeze(-1)` is the identity on a real, on a natural number and on a mask; `.clone()` gives a NEW tensor with the
    same value (in-place writes are accepted only on tensors created in the function that no other name aliases, as in
    translate_maps); `torch.broadcast_tensors(a, ..)` = (a, ..) (views: not writable); `torch.ones_like(x)` = 1,
    `torch.zeros_like(x)` = 0, `torch.ones(<shape>)` = 1, `torch.ones((*<shape>, n), dtype=.., device=..)` = n ones;
  * statements: `x = e`, `a, b = e` (also nested lists/tuples of reals returned by a translated function: they are
    destructured completely, `t[0][1]` then selects the component), `m = (a < b)` (a mask bound to a name),
    `v[..., i] = e`, `v[..., :k] = w`, `return e`,
    docstrings, `if <python bool>: ..` (see enumerations below), and
        for _ in range(n): BODY            let '(s1, .., sk) := py_for n (fun '(s1, .., sk) => BODY; (s1, .., sk)) (s1, .., sk)
    where s1..sk are the names assigned in BODY that were bound before the loop (in the order of their first binding);
    names first bound inside BODY are local to one pass and are NOT visible after the loop; the loop variable must be `_`;
    no return/break/continue/else.  `py_for n f a = Nat.iter n f a` (Gen/BmadxGenBase.v);
  * enumerations: a string-valued parameter / attribute with a declared finite set of values (`location`,
    `self.fringe_at`) is specialised: the function is translated once per value, `s == "literal"` and `or`/`and`/`not` of
    such tests are evaluated while translating, an `if` on such a Python bool keeps only the taken branch, and in
    arithmetic True/False are 1/0 (`self._e1 * (location == "entrance")` is `_e1 * 1`).  A call passes a literal.

MASKS (read this).  The code selects per-particle branches by MULTIPLYING with boolean tensors,
      c1 * (temp < pi/2) + c2 * (temp >= pi/2),     cos(..) * (k1 <= 0) + cosh(..) * (k1 > 0),
      series * (evaluation < 3e-7 e_tot) + exact * (evaluation >= 3e-7 e_tot).
  The translator does NOT recognise such sums as conditionals.  It translates operator by operator: a comparison used
  as a factor is the number 1 or 0,   e * (a < b)  =  e * (if Rlt_dec a b then 1 else 0),   and the sum stays a sum.
  That is literally what torch computes on FINITE operands.  That the two masks of a sum are complementary and that the
  sum therefore equals the hand-written model's `if .. then .. else ..` is PROVED in Gen/BmadxGenEquiv.v (lemmas
  mask_le_gt / mask_lt_ge of BmadxGenBase.v), not assumed here: changing one comparison so that the masks overlap or
  leave a gap makes that lemma false.  What is NOT captured: over the reals 0 * x = 0 for every x, in floating point
  0 * nan = 0 * inf = nan, so an overflowing or undefined UNSELECTED branch poisons the code's result but not the Coq
  term (Coq's x / 0 = 0 and sqrt of a negative number = 0 are total conventions as well).  This is the convention of the
  hand-written models (QuadX.v: "for finite operands that is an if-then-else"; BendX.v `bb_defined` lists the divisors
  that are evaluated for every particle, C09's `bendx_defined`/`quadx_defined` guard them); definedness is the subject of
  those predicates and of the numeric correspondence, not of this tie.
  `torch.where(c, a, b)` = if c then a else b.   Boolean-mask INDEXING (Beam.relativistic_beta):
      x[c1] = f(y[c2])      let x := if c1 then f(y) else x,  and the conjunct (c1 <-> c2) in gen_<f>_pre : Prop
  (for one element torch raises a shape error unless both masks select the same elements).

PRIMITIVE TABLE (trusted): + - * / unary -, e ** n (n a literal natural) = e ^ n, number literals kept as decimal text,
  torch.sqrt sin cos tan cosh sinh = sqrt sin cos tan cosh sinh, torch.arcsin = asin, torch.abs = torch.absolute = Rabs,
  torch.pi = PI, torch.arctan2(y, x) = atan2 y x and torch.round = rnd (the definitions of Bmadx/BendX.v: quadrant-wise
  atan without signed zeros; nearest integer, ties to even), torch.sinc x = tsinc x = (if x = 0 then 1 else
  sin(PI x)/(PI x)) (BmadxGenBase.v),  double_precision_epsilon = dp_eps = 2^-52 ONLY if bound in the module by exactly
  `double_precision_epsilon = torch.finfo(torch.float64).eps`,  electron_mass_eV = m_e (idiom of translate_maps),
  speed_of_light = c_light (from scipy.constants import speed_of_light, or `speed_of_light = constants.speed_of_light`),
  electron_mass (kg; only if bound by exactly `electron_mass = constants.electron_mass`) has no Coq constant: a generated
  definition that mentions it gets a leading parameter `mass_kg : R` (Beam/SI.v's theorems are for all positive constants);
  calling such a definition from another translated function fails.
  comparisons a < b, a <= b, a > b, a >= b (Rlt_dec / Rle_dec), a == b, a != b (Req_EM_T), & | ~ on masks.

NOT covered: float rounding, overflow, nan/inf (see MASKS); broadcasting/batching (C04/C08 vectorised checks); the class
machinery (`__init__`, buffers, `track` dispatching on `tracking_method`, the `isinstance` assert); that `self._e1` holds
`dipole_e1`; the ParticleBeam constructor (dtype conversion); anything outside the listed functions.  Names are checked
to be bound exactly once in their module/class and to be imported from the expected module.
"""
import ast
import hashlib
import itertools
import re
import sys
from pathlib import Path

from translate_maps import (COQ_KEYWORDS, M_E_IDIOM, Cond, FnTr, Meta, Module, Sc, Str, TranslateError, Tup, TupT, V, new_tid)

BX = "cheetah/utils/bmadx.py"
ACC = "cheetah/accelerator/"
BEAM = "cheetah/particles/beam.py"
PB = "cheetah/particles/particle_beam.py"
R4 = ["R", "R", "R", "R"]
FRINGE = [("length", "R"), ("angle", "R"), ("_e1", "R"), ("_e2", "R"), ("fringe_integral", "R"), ("fringe_integral_exit", "R"),
          ("gap", "R"), ("gap_exit", "R")]

SPECS = [
    dict(file=BX, cls=None, fn="cheetah_to_bmad_z_pz", params=R4),
    dict(file=BX, cls=None, fn="bmad_to_cheetah_z_pz", params=R4),
    dict(file=BX, cls=None, fn="cheetah_to_bmad_coords", params=["vec7", "R", "R"]),
    dict(file=BX, cls=None, fn="bmad_to_cheetah_coords", params=["vec6", "R", "R"]),
    dict(file=BX, cls=None, fn="offset_particle_set", params=["R"] * 7),
    dict(file=BX, cls=None, fn="offset_particle_unset", params=["R"] * 7),
    dict(file=BX, cls=None, fn="low_energy_z_correction", params=R4),
    dict(file=BX, cls=None, fn="calculate_quadrupole_coefficients", params=["R", "R", "R", ("default", "double_precision_epsilon")]),
    dict(file=BX, cls=None, fn="sqrt_one", params=["R"]),
    dict(file=BX, cls=None, fn="track_a_drift", params=["R"] * 9),
    dict(file=BX, cls=None, fn="particle_rf_time", params=R4),
    dict(file=BX, cls=None, fn="sinc", params=["R"]),
    dict(file=BX, cls=None, fn="cosc", params=["R"]),
    dict(file=ACC + "drift.py", cls="Drift", fn="_track_bmadx", attrs=[("length", "R")], params=["beam"], base="Element"),
    dict(file=ACC + "quadrupole.py", cls="Quadrupole", fn="_track_bmadx", base="Element",
         attrs=[("length", "R"), ("k1", "R"), ("misalignment", "vec2"), ("tilt", "R"), ("num_steps", "nat")], params=["beam"]),
    dict(file=ACC + "dipole.py", cls="Dipole", fn="_bmadx_fringe_linear", attrs=FRINGE, base="Element",
         params=[("enum", ["entrance", "exit"]), "R", "R", "R", "R"]),
    dict(file=ACC + "dipole.py", cls="Dipole", fn="_bmadx_body", attrs=[("length", "R"), ("angle", "R")], params=["R"] * 8, base="Element"),
    dict(file=ACC + "dipole.py", cls="Dipole", fn="_track_bmadx", base="Element",
         attrs=FRINGE + [("tilt", "R"), ("fringe_at", ("enum", ["neither", "entrance", "exit", "both"]))], params=["beam"]),
    dict(file=ACC + "transverse_deflecting_cavity.py", cls="TransverseDeflectingCavity", fn="_track_bmadx", base="Element",
         attrs=[("length", "R"), ("voltage", "R"), ("phase", "R"), ("frequency", "R"), ("misalignment", "vec2"), ("tilt", "R")], params=["beam"]),
    dict(file=BEAM, cls="Beam", fn="relativistic_gamma", attrs=[("energy", "R")], params=[], prop=True, base="ABC+nn.Module"),
    dict(file=BEAM, cls="Beam", fn="relativistic_beta", attrs=[("energy", "R")], params=[], prop=True, base="ABC+nn.Module"),
    dict(file=BEAM, cls="Beam", fn="p0c", attrs=[("energy", "R")], params=[], prop=True, base="ABC+nn.Module"),
    dict(file=PB, cls="ParticleBeam", fn="energies", attrs=[("particles", "vec7"), ("energy", "R")], params=[], prop=True, base="Beam",
         aliases={"p": ("particles", 5)}),
    dict(file=PB, cls="ParticleBeam", fn="momenta", attrs=[("particles", "vec7"), ("energy", "R")], params=[], prop=True, base="Beam",
         aliases={"p": ("particles", 5)}),
    dict(file=PB, cls="ParticleBeam", fn="to_xyz_pxpypz", attrs=[("particles", "vec7"), ("energy", "R")], params=[], base="Beam"),
    dict(file=PB, cls="ParticleBeam", fn="from_xyz_pxpypz", attrs=[], params=["vec7", "R", "opaque", "opaque", "meta", "meta"], base="Beam",
         classmethod=True),
]
# ParticleBeam inherits these (translated) properties of Beam; it must not redefine them
INHERITED = {"ParticleBeam": ("Beam", ["relativistic_gamma", "relativistic_beta", "p0c"])}
# ParticleBeam.p is `self.particles[..., 5]`: checked against the source of the property
ALIAS_SRC = {("ParticleBeam", "p"): "return self.particles[..., 5]"}

ORIGINS = {
    "torch": [("import", "torch")],
    "Element": [("from", "cheetah.accelerator.element")],
    "Beam": [("from", "cheetah.particles.beam")],
    "ParticleBeam": [("from", "cheetah.particles")],
    "bmadx": [("from", "cheetah.utils")],
    "physical_constants": [("from", "scipy.constants")],
    "constants": [("from", "scipy")],
    "electron_mass_eV": [("idiom", M_E_IDIOM)],
    "double_precision_epsilon": [("idiom", ast.dump(ast.parse("torch.finfo(torch.float64).eps", mode="eval").body))],
    "speed_of_light": [("from", "scipy.constants"), ("idiom", ast.dump(ast.parse("constants.speed_of_light", mode="eval").body))],
    "electron_mass": [("idiom", ast.dump(ast.parse("constants.electron_mass", mode="eval").body))],
}
GLOBAL_CONST = {"electron_mass_eV": "m_e", "double_precision_epsilon": "dp_eps", "speed_of_light": "c_light", "electron_mass": "mass_kg"}
IDIOM_NEEDS = {"electron_mass_eV": ["physical_constants"], "double_precision_epsilon": ["torch"], "speed_of_light": ["constants"],
               "electron_mass": ["constants"]}
EMITTED = {"R", "cos", "sin", "tan", "sqrt", "cosh", "sinh", "asin", "atan2", "rnd", "tsinc", "Rabs", "PI", "m_e", "c_light", "dp_eps",
           "mass_kg", "py_for", "INR", "Req_EM_T", "Rlt_dec", "Rle_dec", "True", "False", "pow", "nat", "fst", "snd", "st__", "up", "IZR"}
UNARY = {"sqrt": "sqrt", "sin": "sin", "cos": "cos", "tan": "tan", "cosh": "cosh", "sinh": "sinh", "arcsin": "asin", "abs": "Rabs",
         "absolute": "Rabs", "round": "rnd", "sinc": "tsinc"}
VEC_N = {"vec2": 2, "vec6": 6, "vec7": 7}


# ---------------------------------------------------------------------------------------------- values
class Vec(V):           # n columns of a particle tensor (or the pair `misalignment`)
    kind = "vec"

    def __init__(self, ts, owned=False, tid=None):
        self.ts, self.owned, self.tid = list(ts), owned, tid or new_tid()


class Nat(V):
    kind = "nat"

    def __init__(self, t):
        self.t = t


class PyBool(V):        # Python bool known while translating (tests on enumeration values)
    kind = "python-bool"

    def __init__(self, b):
        self.b = bool(b)


class BeamIn(V):        # the incoming ParticleBeam of a _track_bmadx method
    kind = "beam"

    def __init__(self, cols, energy):
        self.cols, self.energy = cols, energy


class Token(V):         # incoming.particle_charges / incoming.survival_probabilities / incoming.particles
    kind = "token"

    def __init__(self, name):
        self.name = name


class BeamOut(V):       # ParticleBeam(..) built by the function: columns (Vec, owned) + energy
    kind = "new-beam"

    def __init__(self, vec, energy):
        self.vec, self.energy = vec, energy


class Cls(V):
    kind = "class"


def ifc(c, a, b):
    op = c[0]
    if op == "not":
        return ifc(c[1], b, a)
    if op == "eq":
        return f"(if Req_EM_T {c[1]} {c[2]} then {a} else {b})"
    if op == "ne":
        return ifc(("eq", c[1], c[2]), b, a)
    if op == "lt":
        return f"(if Rlt_dec {c[1]} {c[2]} then {a} else {b})"
    if op == "gt":
        return ifc(("lt", c[2], c[1]), a, b)
    if op == "le":
        return f"(if Rle_dec {c[1]} {c[2]} then {a} else {b})"
    if op == "ge":
        return ifc(("le", c[2], c[1]), a, b)
    if op == "and":
        return ifc(c[1], ifc(c[2], a, b), b)
    if op == "or":
        return ifc(c[1], a, ifc(c[2], a, b))
    raise AssertionError(op)


def propc(c):
    op = c[0]
    sym = {"eq": "=", "ne": "<>", "lt": "<", "gt": ">", "le": "<=", "ge": ">="}
    if op in sym:
        return f"({c[1]} {sym[op]} {c[2]})"
    if op == "not":
        return f"(~ {propc(c[1])})"
    if op == "and":
        return f"({propc(c[1])} /\\ {propc(c[2])})"
    if op == "or":
        return f"({propc(c[1])} \\/ {propc(c[2])})"
    raise AssertionError(op)


def kind_type(k):
    if k == "R":
        return "R"
    return "(" + " * ".join(kind_type(x) for x in k) + ")%type"


def is_ellipsis(n):
    return isinstance(n, ast.Constant) and n.value is Ellipsis


def lit_int(n):
    return isinstance(n, ast.Constant) and isinstance(n.value, int) and not isinstance(n.value, bool)


def minus_one(n):
    return isinstance(n, ast.UnaryOp) and isinstance(n.op, ast.USub) and lit_int(n.operand) and n.operand.value == 1


def origin_check(mod, name, node):
    """The module-level name is bound exactly once and comes from an accepted origin."""
    b = mod.bind.get(name, [])
    if len(b) != 1:
        mod.fail(node, f"global name {name!r} is bound {len(b)} times at module level (expected exactly once)")
    kind, detail, st = b[0]
    ok = ORIGINS.get(name)
    if ok is None:
        mod.fail(node, f"global name {name!r} is not part of the translated fragment")
    for k, d in ok:
        if k == "idiom" and kind == "assign":
            if isinstance(st, ast.Assign) and len(st.targets) == 1 and isinstance(st.targets[0], ast.Name) and ast.dump(st.value) == d:
                for dep in IDIOM_NEEDS.get(name, []):
                    origin_check(mod, dep, node)
                return
        elif k == kind and d == detail:
            return
    mod.fail(node, f"global name {name!r} has an unexpected origin ({kind} {detail})")


# ---------------------------------------------------------------------------------------------- function translator
class BxFn(FnTr):
    """Reuses from translate_maps.FnTr: fail, number, sc, cond, ev (dispatch), e_Constant, e_UnaryOp (unary minus)."""

    def __init__(self, tr, spec, mod, enums):
        super().__init__(tr, spec, mod)
        self.enums = enums            # {parameter/attribute name: chosen literal}
        self.pre = []                 # conjuncts of gen_<f>_pre
        self.loop = 0
        self.globals_used = []

    def fresh(self, py):
        base = py
        if (base in COQ_KEYWORDS or base in EMITTED or base.startswith("gen_") or not re.match(r"^[A-Za-z_][A-Za-z0-9_]*$", base) or base == "_"
                or re.match(r"^_+$", base)):
            base = base + "_"
        if base.startswith("_"):
            base = "u" + base
        name, k = base, 0
        while name in self.used:
            k += 1
            name = f"{base}_{k}"
        self.used.add(name)
        return name

    # -- coercions
    def sc(self, v, node, what="operand"):
        if isinstance(v, Sc):
            if getattr(v, "sel", None) is not None:
                self.fail(node, f"{what}: a boolean-mask selection `y[c]` may only feed a masked write `x[c'] = ..`")
            return v.t
        if isinstance(v, Nat):
            return f"(INR {v.t})"
        self.fail(node, f"{what} is not a real scalar in the scalar-per-particle reading (it is {v.kind})")

    def arith(self, v, node, what="operand"):
        """(term, selection) of an arithmetic operand; masks and Python bools count 1/0 ONLY as factors (see e_BinOp)."""
        if isinstance(v, Sc):
            return v.t, getattr(v, "sel", None)
        return self.sc(v, node, what), None

    def mk(self, t, sel=None):
        v = Sc(t)
        v.sel = sel
        return v

    def join_sel(self, a, b, node):
        if a is not None and b is not None and a != b:
            self.fail(node, "operands selected by two different boolean masks")
        return a if a is not None else b

    # -- expressions
    def e_Name(self, n, env):
        if n.id in env:
            v = env[n.id]
            if isinstance(v, Token) and v.name == "<opaque>":
                self.fail(n, f"parameter {n.id!r} is outside the translated fragment")
            return v
        if n.id in GLOBAL_CONST:
            origin_check(self.mod, n.id, n)
            if GLOBAL_CONST[n.id] == "mass_kg" and "mass_kg" not in self.globals_used:
                self.globals_used.append("mass_kg")
            return Sc(GLOBAL_CONST[n.id], owned=False)
        self.fail(n, f"unknown name {n.id!r}")

    def e_UnaryOp(self, n, env):
        if isinstance(n.op, ast.USub):
            t, sel = self.arith(self.ev(n.operand, env), n)
            return self.mk(f"(- {t})", sel)
        if isinstance(n.op, ast.Invert):
            return Cond(("not", self.cond(self.ev(n.operand, env), n)))
        if isinstance(n.op, ast.Not):
            v = self.ev(n.operand, env)
            if isinstance(v, PyBool):
                return PyBool(not v.b)
            self.fail(n, "`not` of something that is not a Python bool known while translating")
        self.fail(n, f"unsupported unary operator {type(n.op).__name__}")

    def e_BoolOp(self, n, env):
        vs = [self.ev(x, env) for x in n.values]
        if not all(isinstance(v, PyBool) for v in vs):
            self.fail(n, "`and`/`or` are only understood between tests on enumeration values (tensor masks use & and |)")
        return PyBool(all(v.b for v in vs) if isinstance(n.op, ast.And) else any(v.b for v in vs))

    def e_Compare(self, n, env):
        if len(n.ops) != 1:
            self.fail(n, "chained comparison")
        a, b = self.ev(n.left, env), self.ev(n.comparators[0], env)
        if isinstance(a, Str) or isinstance(b, Str):
            if not (isinstance(a, Str) and isinstance(b, Str) and isinstance(n.ops[0], (ast.Eq, ast.NotEq))):
                self.fail(n, "comparison of a string with something else")
            return PyBool((a.s == b.s) == isinstance(n.ops[0], ast.Eq))
        op = {ast.Eq: "eq", ast.NotEq: "ne", ast.Gt: "gt", ast.GtE: "ge", ast.Lt: "lt", ast.LtE: "le"}.get(type(n.ops[0]))
        if op is None:
            self.fail(n, f"unsupported comparison {type(n.ops[0]).__name__}")
        return Cond((op, self.sc(a, n.left, "comparison operand"), self.sc(b, n.comparators[0], "comparison operand")))

    def factor(self, v, node):
        """A factor of a product: reals, and masks / Python bools as the numbers 1 / 0 (docstring, MASKS)."""
        if isinstance(v, Cond):
            return ifc(v.c, "1", "0"), None
        if isinstance(v, PyBool):
            return ("1" if v.b else "0"), None
        return self.arith(v, node, "factor")

    def e_BinOp(self, n, env):
        op = n.op
        if isinstance(op, ast.Pow):
            t, sel = self.arith(self.ev(n.left, env), n, "base of **")
            if not (lit_int(n.right) and 0 <= n.right.value <= 64):
                self.fail(n, "exponent of ** must be a literal natural number")
            return self.mk(f"({t} ^ {n.right.value})", sel)
        a, b = self.ev(n.left, env), self.ev(n.right, env)
        if isinstance(op, (ast.BitAnd, ast.BitOr)):
            return Cond(("and" if isinstance(op, ast.BitAnd) else "or", self.cond(a, n), self.cond(b, n)))
        if isinstance(op, ast.Mult):
            (ta, sa), (tb, sb) = self.factor(a, n.left), self.factor(b, n.right)
            return self.mk(f"({ta} * {tb})", self.join_sel(sa, sb, n))
        sym = {ast.Add: "+", ast.Sub: "-", ast.Div: "/"}.get(type(op))
        if sym is None:
            self.fail(n, f"unsupported binary operator {type(op).__name__}")
        (ta, sa), (tb, sb) = self.arith(a, n.left), self.arith(b, n.right)
        return self.mk(f"({ta} {sym} {tb})", self.join_sel(sa, sb, n))

    def e_List(self, n, env):
        return Tup([self.ev(e, env) for e in n.elts])

    def e_Tuple(self, n, env):
        return Tup([self.ev(e, env) for e in n.elts])

    def e_Attribute(self, n, env):
        if isinstance(n.value, ast.Name) and n.value.id == "self" and "self" in env:
            return self.self_attr(n, env)
        if isinstance(n.value, ast.Name) and n.value.id == "torch" and "torch" not in env:
            origin_check(self.mod, "torch", n)
            if n.attr == "pi":
                return Sc("PI", owned=False)
            self.fail(n, f"unsupported torch attribute torch.{n.attr}")
        v = self.ev(n.value, env)
        if isinstance(v, BeamIn):
            if n.attr in v.cols:
                return Sc(v.cols[n.attr], owned=False)
            if n.attr == "energy":
                return Sc(v.energy, owned=False)
            if n.attr in ("particle_charges", "survival_probabilities", "particles"):
                return Token(n.attr)
            self.fail(n, f"attribute .{n.attr} of the incoming beam is outside the translated fragment")
        if isinstance(v, Token) and v.name == "particles" and n.attr in ("device", "dtype"):
            return Meta()
        if isinstance(v, BeamOut):
            if n.attr == "particles":
                return v.vec
            callee = self.tr.lookup("Beam", n.attr, ())
            if callee is not None and callee["spec"].get("prop") and callee["spec"]["attrs"] == [("energy", "R")]:
                return Sc(f"({callee['coq']} {v.energy})")
            self.fail(n, f"attribute .{n.attr} of the constructed beam is outside the translated fragment")
        if n.attr in ("device", "dtype", "shape"):
            if isinstance(v, (Sc, Vec)):
                return Meta()
            self.fail(n, f".{n.attr} of a {v.kind} value")
        self.fail(n, f"unsupported attribute .{n.attr}")

    def self_attr(self, n, env):
        a, attrs, cls = n.attr, env["self"], self.spec["cls"]
        if a in attrs:
            if a in self.class_bind:
                self.fail(n, f"attribute self.{a} is declared a plain parameter but the class body binds {a!r}")
            return attrs[a]
        al = self.spec.get("aliases", {}).get(a)
        if al is not None:
            b = self.class_bind.get(a, [])
            setter = f"Attribute(value=Name(id='{a}', ctx=Load()), attr='setter', ctx=Load())"
            if (len(b) not in (1, 2) or any(x[0] != "def" for x in b) or [ast.dump(d) for d in b[0][2].decorator_list] != ["Name(id='property', ctx=Load())"]
                    or (len(b) == 2 and [ast.dump(d) for d in b[1][2].decorator_list] != [setter])):
                self.fail(n, f"self.{a} is not defined exactly once as a property (optionally followed by its setter)")
            body = [s for s in b[0][2].body if not (isinstance(s, ast.Expr) and isinstance(s.value, ast.Constant))]
            if len(body) != 1 or ast.dump(body[0]) != ast.dump(ast.parse(ALIAS_SRC[(cls, a)]).body[0]):
                self.fail(b[0][2], f"property {a} is no longer `{ALIAS_SRC[(cls, a)]}`")
            return Sc(attrs[al[0]].ts[al[1]], owned=False)
        callee = self.lookup_method(a, n)
        if callee is not None and callee["spec"].get("prop"):
            return self.call_fn(callee, [], {}, n, env)
        self.fail(n, f"self.{a} is neither a declared parameter of {cls}.{self.spec['fn']} nor a translated property")

    def lookup_method(self, name, n, enum_vals=()):
        cls = self.spec["cls"]
        callee = self.tr.lookup(cls, name, enum_vals)
        if callee is not None:
            if name not in self.class_bind or len(self.class_bind[name]) != 1:
                self.fail(n, f"self.{name} is not bound exactly once in the class body")
            return callee
        inh = INHERITED.get(cls)
        if inh and name in inh[1]:
            if name in self.class_bind:
                self.fail(n, f"{cls} redefines {name!r}: the transcription of {inh[0]}.{name} no longer applies")
            return self.tr.lookup(inh[0], name, enum_vals)
        return None

    def e_Subscript(self, n, env):
        v, s = self.ev(n.value, env), n.slice
        if isinstance(v, Vec):
            if isinstance(s, ast.Tuple) and len(s.elts) == 2 and is_ellipsis(s.elts[0]):
                i = s.elts[1]
                if lit_int(i) and 0 <= i.value < len(v.ts):
                    return Sc(v.ts[i.value], owned=False)
                if isinstance(i, ast.Slice) and i.lower is None and i.step is None and lit_int(i.upper) and 0 < i.upper.value <= len(v.ts):
                    return Vec(v.ts[:i.upper.value], owned=False)
            self.fail(n, "unsupported index into a particle tensor (only [..., i] and [..., :k] with literals)")
        if isinstance(v, Tup):
            if lit_int(s) and 0 <= s.value < len(v.vs):
                return v.vs[s.value]
            self.fail(n, "unsupported index into a list/tuple (only a literal position)")
        if isinstance(v, Meta):
            if isinstance(s, ast.Slice) and s.lower is None and s.step is None and minus_one(s.upper):
                return Meta()
            self.fail(n, "unsupported slice of a shape")
        if isinstance(v, Sc):
            c = self.cond(self.ev(s, env), s)
            t, sel = self.arith(v, n)
            if sel is not None:
                self.fail(n, "nested boolean-mask selection")
            return self.mk(t, c)
        self.fail(n, f"unsupported subscript of a {v.kind} value")

    def meta_kwargs(self, n, env, allowed=("device", "dtype")):
        for kw in n.keywords:
            if kw.arg is None or kw.arg not in allowed:
                self.fail(n, f"unexpected keyword {kw.arg!r}")
            if not isinstance(self.ev(kw.value, env), Meta):
                self.fail(n, f"keyword {kw.arg} is not a device/dtype bookkeeping value")

    def e_Call(self, n, env):
        f = n.func
        if isinstance(f, ast.Attribute) and isinstance(f.value, ast.Name) and f.value.id not in env:
            if f.value.id == "torch":
                origin_check(self.mod, "torch", n)
                return self.torch_call(f.attr, n, env)
            if f.value.id == "bmadx":
                origin_check(self.mod, "bmadx", n)
                callee = self.tr.lookup(None, f.attr, ())
                if callee is None or callee["spec"]["file"] != BX:
                    self.fail(n, f"call of bmadx.{f.attr}, which is not a translated function")
                return self.call_fn(callee, n.args, {k.arg: k.value for k in n.keywords}, n, env)
        if isinstance(f, ast.Attribute) and isinstance(f.value, ast.Name) and f.value.id == "self" and "self" in env:
            enum_vals = self.enum_args(self.spec["cls"], f.attr, n, env)
            callee = self.lookup_method(f.attr, n, enum_vals)
            if callee is None or callee["spec"].get("prop"):
                self.fail(n, f"call of self.{f.attr}, which is not a translated method")
            return self.call_fn(callee, n.args, {k.arg: k.value for k in n.keywords}, n, env)
        if isinstance(f, ast.Attribute):
            v = self.ev(f.value, env)
            if f.attr == "unsqueeze" and len(n.args) == 1 and not n.keywords and minus_one(n.args[0]) and isinstance(v, (Sc, Nat, Cond)):
                return v
            if f.attr == "clone" and not n.args and not n.keywords:
                if isinstance(v, Sc) and getattr(v, "sel", None) is None:
                    return Sc(v.t)
                if isinstance(v, Vec):
                    return Vec(v.ts, owned=True)
            self.fail(n, f"unsupported method call .{f.attr}(..) on a {v.kind} value")
        if isinstance(f, ast.Name) and f.id in env and isinstance(env[f.id], Cls):
            return self.construct_beam(n, env, from_cls=True)
        if isinstance(f, ast.Name) and f.id not in env:
            if f.id == "ParticleBeam":
                origin_check(self.mod, "ParticleBeam", n)
                return self.construct_beam(n, env, from_cls=False)
            callee = self.tr.lookup(None, f.id, ())
            if callee is None or callee["spec"]["file"] != self.mod.rel:
                self.fail(n, f"call of {f.id}, which is not a translated function of this module")
            b = self.mod.bind.get(f.id, [])
            if len(b) != 1 or b[0][0] != "def":
                self.fail(n, f"global name {f.id!r} is not bound exactly once as a function of this module")
            return self.call_fn(callee, n.args, {k.arg: k.value for k in n.keywords}, n, env)
        self.fail(n, "unsupported call")

    def enum_args(self, cls, fn, n, env):
        """Values of the enumeration parameters of the callee, taken from the literal arguments of this call."""
        spec = next((s for s in SPECS if s["cls"] == cls and s["fn"] == fn), None)
        if spec is None:
            return ()
        vals = []
        for k, kind in enumerate(spec["params"]):
            if isinstance(kind, tuple) and kind[0] == "enum":
                if k >= len(n.args):
                    self.fail(n, "enumeration argument must be passed positionally")
                v = self.ev(n.args[k], env)
                if not isinstance(v, Str) or v.s not in kind[1]:
                    self.fail(n, f"enumeration argument must be one of the literals {kind[1]}")
                vals.append(v.s)
        # enumeration attributes of the callee are those of the caller
        for a, kind in spec.get("attrs", []):
            if isinstance(kind, tuple) and kind[0] == "enum":
                vals.append(self.enums[a])
        return tuple(vals)

    def construct_beam(self, n, env, from_cls):
        if n.args or any(k.arg is None for k in n.keywords):
            self.fail(n, "the beam constructor must be called with keywords only")
        kw = {k.arg: k.value for k in n.keywords}
        if len(kw) != len(n.keywords) or sorted(kw) != ["device", "dtype", "energy", "particle_charges", "particles", "survival_probabilities"]:
            self.fail(n, f"unexpected constructor keywords {sorted(kw)}")
        vec = self.ev(kw["particles"], env)
        if not (isinstance(vec, Vec) and len(vec.ts) == 7 and vec.owned):
            self.fail(kw["particles"], "particles= must be a freshly built 7-column tensor (torch.stack(..) or a .clone())")
        energy = self.sc(self.ev(kw["energy"], env), kw["energy"], "energy=")
        for nm in ("particle_charges", "survival_probabilities"):
            v = self.ev(kw[nm], env)
            if not (isinstance(v, Token) and v.name == nm):
                self.fail(kw[nm], f"{nm}= must pass the incoming beam's {nm} through")
        for nm in ("device", "dtype"):
            if not isinstance(self.ev(kw[nm], env), Meta):
                self.fail(kw[nm], f"{nm}= is not a device/dtype bookkeeping value")
        return BeamOut(Vec(vec.ts, owned=True), energy)

    def call_fn(self, callee, args, kwargs, n, env):
        cs = callee["spec"]
        names, kinds = callee["pnames"], cs["params"]
        if callee.get("mass"):
            self.fail(n, "call of a translated function that depends on the module constant electron_mass")
        if None in kwargs:
            self.fail(n, "**kwargs in a call of a translated function")
        if len(args) > len(names) or any(isinstance(a, ast.Starred) for a in args):
            self.fail(n, "too many positional / starred arguments")
        given = dict(zip(names, args))
        for k, v in kwargs.items():
            if k not in names or k in given:
                self.fail(n, f"unexpected or duplicate keyword {k!r}")
            given[k] = v
        out = []
        for a, kind in cs.get("attrs", []):
            mine = env.get("self", {}).get(a) if isinstance(env.get("self"), dict) else None
            if isinstance(kind, tuple):          # enumeration attribute: resolved by specialisation
                if mine is None:
                    self.fail(n, f"callee needs self.{a}, which the caller does not declare")
                continue
            ok = mine is not None and ((kind == "R" and isinstance(mine, Sc)) or (kind == "nat" and isinstance(mine, Nat))
                                       or (kind in VEC_N and isinstance(mine, Vec) and len(mine.ts) == VEC_N[kind]))
            if not ok:
                self.fail(n, f"callee needs self.{a}, which the caller does not declare")
            if a in self.class_bind:
                self.fail(n, f"attribute self.{a} is declared a plain parameter but the class body binds {a!r}")
            out += mine.ts if isinstance(mine, Vec) else [mine.t]
        for nm, kind in zip(names, kinds):
            if isinstance(kind, tuple) and kind[0] == "enum":
                if nm not in given:
                    self.fail(n, f"missing argument {nm!r}")
                continue
            if nm not in given:
                if isinstance(kind, tuple) and kind[0] == "default":
                    b = callee["module"].bind.get(kind[1], [])
                    origin_check(callee["module"], kind[1], n)
                    out.append(GLOBAL_CONST[kind[1]])
                    continue
                self.fail(n, f"missing argument {nm!r}")
            v = self.ev(given[nm], env)
            if kind == "R" or (isinstance(kind, tuple) and kind[0] == "default"):
                out.append(self.sc(v, given[nm], f"argument {nm}"))
            elif kind in VEC_N:
                if not (isinstance(v, Vec) and len(v.ts) == VEC_N[kind]):
                    self.fail(n, f"argument {nm} must be a {kind} value")
                out += v.ts
            else:
                self.fail(n, f"argument kind {kind} cannot be passed here")
        t = "(" + " ".join([callee["coq"]] + out) + ")"
        rk = callee["ret"]
        return Sc(t) if rk == "R" else TupT(t, rk)

    def torch_call(self, name, n, env):
        args = n.args
        if name in UNARY:
            if len(args) != 1 or n.keywords or isinstance(args[0], ast.Starred):
                self.fail(n, f"torch.{name} takes one argument here")
            t, sel = self.arith(self.ev(args[0], env), args[0], f"argument of torch.{name}")
            return self.mk(f"({UNARY[name]} {t})", sel)
        if name == "arctan2":
            if len(args) != 2 or n.keywords:
                self.fail(n, "torch.arctan2 takes two arguments")
            return Sc(f"(atan2 {self.sc(self.ev(args[0], env), args[0])} {self.sc(self.ev(args[1], env), args[1])})")
        if name in ("zeros_like", "ones_like"):
            if len(args) != 1 or n.keywords:
                self.fail(n, f"torch.{name} takes one argument here")
            self.sc(self.ev(args[0], env), args[0], f"argument of torch.{name}")
            return Sc("0" if name == "zeros_like" else "1")
        if name == "ones":
            if len(args) != 1:
                self.fail(n, "torch.ones takes one positional argument here")
            self.meta_kwargs(n, env)
            a = args[0]
            if isinstance(a, ast.Tuple):
                if (len(a.elts) == 2 and isinstance(a.elts[0], ast.Starred) and isinstance(self.ev(a.elts[0].value, env), Meta)
                        and lit_int(a.elts[1]) and 1 <= a.elts[1].value <= 7):
                    return Vec(["1"] * a.elts[1].value, owned=True)
                self.fail(n, "torch.ones: only (*<shape>, n) is understood")
            if isinstance(self.ev(a, env), Meta):
                return Sc("1")
            self.fail(n, "torch.ones of something that is not a shape")
        if name == "where":
            if len(args) != 3 or n.keywords:
                self.fail(n, "torch.where takes three arguments")
            c = self.cond(self.ev(args[0], env), args[0])
            return Sc(ifc(c, self.sc(self.ev(args[1], env), args[1], "branch of torch.where"), self.sc(self.ev(args[2], env), args[2], "branch of torch.where")))
        if name == "broadcast_tensors":
            if n.keywords or any(isinstance(a, ast.Starred) for a in args):
                self.fail(n, "keywords / starred arguments of torch.broadcast_tensors")
            return Tup([Sc(self.sc(self.ev(a, env), a, "argument of torch.broadcast_tensors"), owned=False) for a in args])
        if name == "stack":
            if len(args) != 1 or [k.arg for k in n.keywords] != ["dim"] or not minus_one(n.keywords[0].value):
                self.fail(n, "torch.stack: only torch.stack([..], dim=-1) is understood")
            if not isinstance(args[0], (ast.List, ast.Tuple)):
                self.fail(n, "torch.stack: the columns must be written as a list/tuple display")
            v = self.ev(args[0], env)
            if not isinstance(v, Tup):
                self.fail(n, "torch.stack of something that is not a list/tuple")
            ts = [self.sc(x, args[0], "stacked column") for x in v.vs]
            if len(ts) == 7:
                last = args[0].elts[6]
                if not (isinstance(last, ast.Call) and ast.dump(last.func) == "Attribute(value=Name(id='torch', ctx=Load()), attr='ones_like', ctx=Load())"):
                    self.fail(last, "the seventh column of a particle tensor must be torch.ones_like(..)")
            return Vec(ts, owned=True)
        self.fail(n, f"torch.{name} is outside the translated fragment")

    # -- statements
    def pattern(self, target, kind, env, owned, node):
        """Coq pattern destructuring a value of (nested) kind `kind` into the (nested) Python target; fills env."""
        if isinstance(target, ast.Name):
            if target.id == "self":
                self.fail(node, "assignment to self")
            if kind == "R":
                if target.id == "_":
                    return "_"
                nm = self.fresh(target.id)
                env[target.id] = Sc(nm, owned=owned)
                return nm
            # a whole sub-structure bound to one name: destructure completely, the name denotes the tuple of its parts
            pat, val = self.pattern_full(target.id, kind, owned)
            env[target.id] = val
            return pat
        if isinstance(target, (ast.Tuple, ast.List)):
            if kind == "R" or len(kind) != len(target.elts):
                self.fail(node, "tuple assignment of mismatching shape")
            return "(" + ", ".join(self.pattern(t, k, env, owned, node) for t, k in zip(target.elts, kind)) + ")"
        self.fail(node, "unsupported assignment target")

    def pattern_full(self, base, kind, owned):
        if kind == "R":
            nm = self.fresh(base)
            return nm, Sc(nm, owned=owned)
        parts = [self.pattern_full(f"{base}_{i}", k, owned) for i, k in enumerate(kind)]
        return "(" + ", ".join(p for p, _ in parts) + ")", Tup([v for _, v in parts])

    def flat(self, v, node):
        """(term, kind) of a value made of reals."""
        if isinstance(v, (Sc, Nat)):
            return self.sc(v, node, "value"), "R"
        if isinstance(v, Vec):
            return "(" + ", ".join(v.ts) + ")", tuple("R" for _ in v.ts)
        if isinstance(v, Tup):
            ps = [self.flat(x, node) for x in v.vs]
            return "(" + ", ".join(p for p, _ in ps) + ")", tuple(k for _, k in ps)
        if isinstance(v, TupT):
            return v.t, v.kinds
        if isinstance(v, BeamOut):
            return "(" + ", ".join(v.vec.ts[:6] + [v.energy]) + ")", tuple("R" for _ in range(7))
        self.fail(node, f"a {v.kind} value where reals are expected")

    def bind(self, target, v, env, node):
        env = dict(env)
        if isinstance(target, ast.Name):
            if target.id == "self":
                self.fail(node, "assignment to self")
            if isinstance(v, (Meta, PyBool, Str, Token, Nat, Cond)):
                env[target.id] = v          # (a mask bound to a name: its Coq terms stay valid, every Coq binder is fresh)
                return "", env
            if isinstance(v, Sc):
                nm = self.fresh(target.id)
                nv = Sc(nm, v.owned, v.tid)
                nv.sel = getattr(v, "sel", None)
                env[target.id] = nv
                return f"let {nm} := {v.t} in\n  ", env
            if isinstance(v, Vec):
                names = [self.fresh(f"{target.id}_{i}") for i in range(len(v.ts))]
                env[target.id] = Vec(names, v.owned, v.tid)
                return "".join(f"let {a} := {t} in\n  " for a, t in zip(names, v.ts)), env
            if isinstance(v, BeamOut):
                names = [self.fresh(f"{target.id}_{i}") for i in range(7)]
                e = self.fresh(f"{target.id}_energy")
                env[target.id] = BeamOut(Vec(names, True, v.vec.tid), e)
                return "".join(f"let {a} := {t} in\n  " for a, t in zip(names + [e], v.vec.ts + [v.energy])), env
            if isinstance(v, Tup):
                t, k = self.flat(v, node)
                v = TupT(t, k)
                v.owned = False
            if isinstance(v, TupT):
                pat = self.pattern(target, v.kinds, env, getattr(v, "owned", True), node)
                return f"let '{pat} := {v.t} in\n  ", env
            self.fail(node, f"assignment of a {v.kind} value to a single name")
        if isinstance(target, (ast.Tuple, ast.List)):
            if isinstance(v, Tup):
                if len(v.vs) != len(target.elts):
                    self.fail(node, "tuple assignment of mismatching length")
                if all(isinstance(x, Meta) for x in v.vs):
                    for t in target.elts:
                        if not isinstance(t, ast.Name):
                            self.fail(node, "unsupported assignment target")
                        env[t.id] = Meta()
                    return "", env
                t, k = self.flat(v, node)
                v = TupT(t, k)
                v.owned = False          # components may be views of existing tensors
            if isinstance(v, TupT):
                pat = self.pattern(target, v.kinds, env, getattr(v, "owned", True), node)
                return f"let '{pat} := {v.t} in\n  ", env
            self.fail(node, f"tuple assignment of a {v.kind} value")
        self.fail(node, "unsupported assignment target")

    def ret_value(self, v, node):
        t, kind = self.flat(v, node)
        if self.ret_kind is None:
            self.ret_kind = kind
        elif self.ret_kind != kind:
            self.fail(node, "return statements of different shapes")
        return t

    def block(self, stmts, env, cont):
        if not stmts:
            if cont is None:
                raise TranslateError(f"{self.spec['fn']}: control reaches the end of the function without a return", self.mod.rel, self.fnode.end_lineno)
            return cont(env)
        s, rest = stmts[0], stmts[1:]
        if isinstance(s, ast.Expr):
            if isinstance(s.value, ast.Constant) and isinstance(s.value.value, str):
                return self.block(rest, env, cont)
            self.fail(s, "expression statement (call for its side effect) is outside the translated fragment")
        if isinstance(s, ast.Return):
            if self.loop:
                self.fail(s, "return inside a loop")
            if rest:
                self.fail(rest[0], "statement after return")
            if s.value is None:
                self.fail(s, "return without value")
            return self.ret_value(self.ev(s.value, env), s)
        if isinstance(s, ast.AnnAssign):
            if s.value is None or not s.simple or not isinstance(s.target, ast.Name):
                self.fail(s, "annotated assignment without value / to a non-name")
            pre, env2 = self.bind(s.target, self.ev(s.value, env), env, s)
            return pre + self.block(rest, env2, cont)
        if isinstance(s, ast.Assign):
            if len(s.targets) != 1:
                self.fail(s, "chained assignment")
            tg = s.targets[0]
            if isinstance(tg, ast.Subscript):
                return self.sub_assign(s, tg, rest, env, cont)
            pre, env2 = self.bind(tg, self.ev(s.value, env), env, s)
            return pre + self.block(rest, env2, cont)
        if isinstance(s, ast.If):
            c = self.ev(s.test, env)
            if not isinstance(c, PyBool):
                self.fail(s, "`if` on something that is not a test on enumeration values (per-particle branches are masks)")
            return self.block((s.body if c.b else s.orelse) + rest, env, cont)
        if isinstance(s, ast.For):
            return self.for_loop(s, rest, env, cont)
        self.fail(s, f"unsupported statement {type(s).__name__}")

    def assigned_names(self, stmts):
        out = []
        for st in stmts:
            for nd in ast.walk(st):
                tgts = []
                if isinstance(nd, ast.Assign):
                    tgts = nd.targets
                elif isinstance(nd, (ast.AnnAssign, ast.AugAssign)):
                    tgts = [nd.target]
                elif isinstance(nd, (ast.For, ast.While, ast.With, ast.Try, ast.FunctionDef, ast.Lambda, ast.ClassDef, ast.Return, ast.Break, ast.Continue,
                                     ast.Delete, ast.Global, ast.Nonlocal, ast.NamedExpr, ast.ListComp, ast.GeneratorExp, ast.DictComp, ast.SetComp)):
                    self.fail(nd, f"{type(nd).__name__} inside a loop body is outside the translated fragment")
                for t in tgts:
                    for x in ast.walk(t):
                        if isinstance(x, ast.Name) and isinstance(x.ctx, ast.Store) and x.id not in out:
                            out.append(x.id)
                        elif isinstance(x, ast.Subscript) and isinstance(x.value, ast.Name) and x.value.id not in out:
                            out.append(x.value.id)
        return out

    def for_loop(self, s, rest, env, cont):
        if s.orelse or getattr(s, "type_comment", None):
            self.fail(s, "for .. else")
        if not (isinstance(s.target, ast.Name) and s.target.id == "_"):
            self.fail(s, "the loop variable must be `_` (unused)")
        it = s.iter
        if not (isinstance(it, ast.Call) and isinstance(it.func, ast.Name) and it.func.id == "range" and "range" not in env
                and "range" not in self.mod.bind and len(it.args) == 1 and not it.keywords):
            self.fail(s, "only `for _ in range(n)` is understood")
        nv = self.ev(it.args[0], env)
        if not isinstance(nv, Nat):
            self.fail(s, "the bound of range(..) must be a natural-number attribute")
        assigned = self.assigned_names(s.body)
        carried = [nm for nm in env if nm in assigned]                  # order of first binding in the function
        for nm in carried:
            if not isinstance(env[nm], Sc) or getattr(env[nm], "sel", None) is not None:
                self.fail(s, f"loop-carried name {nm!r} is not a real scalar (it is {env[nm].kind})")
        if not carried:
            self.fail(s, "loop without loop-carried variables")
        inner = dict(env)
        inner_names = []
        for nm in carried:
            c = self.fresh(nm)
            inner[nm] = Sc(c)                        # a new tensor in every pass
            inner_names.append(c)
        self.loop += 1
        body = self.block(list(s.body), inner, lambda e: "(" + ", ".join(self.sc(e[nm], s, "loop-carried value") for nm in carried) + ")"
                          if len(carried) > 1 else self.sc(e[carried[0]], s, "loop-carried value"))
        self.loop -= 1
        init = "(" + ", ".join(env[nm].t for nm in carried) + ")" if len(carried) > 1 else env[carried[0]].t
        env2 = dict(env)
        outs = []
        for nm in carried:
            c = self.fresh(nm)
            env2[nm] = Sc(c)
            outs.append(c)
        if len(carried) > 1:
            fun = f"(fun st__ => let '({', '.join(inner_names)}) := st__ in\n  {body})"
            head = f"let '({', '.join(outs)}) := py_for {nv.t} {fun} {init} in\n  "
        else:
            fun = f"(fun {inner_names[0]} =>\n  {body})"
            head = f"let {outs[0]} := py_for {nv.t} {fun} {init} in\n  "
        return head + self.block(rest, env2, cont)

    def sub_assign(self, s, tg, rest, env, cont):
        env = dict(env)
        # beam.particles[..., i] = e
        if (isinstance(tg.value, ast.Attribute) and isinstance(tg.value.value, ast.Name) and tg.value.attr == "particles"
                and isinstance(env.get(tg.value.value.id), BeamOut)):
            name, bo = tg.value.value.id, env[tg.value.value.id]
            cur, put = bo.vec, (lambda vec: BeamOut(vec, bo.energy))
        elif isinstance(tg.value, ast.Name) and tg.value.id in env:
            name, cur, put = tg.value.id, env[tg.value.id], (lambda vec: vec)
        else:
            self.fail(s, "unsupported subscript assignment")
        sl = tg.slice
        if isinstance(cur, (Sc, Vec)):
            if not cur.owned:
                self.fail(s, f"in-place write into {name!r}, a tensor that was not created in this function (it would modify the caller's tensor)")
            holders = [k for k, v in env.items() if (isinstance(v, (Sc, Vec)) and v.tid == cur.tid) or (isinstance(v, BeamOut) and v.vec.tid == cur.tid)]
            if holders != [name]:
                self.fail(s, f"in-place write into {name!r}, which is aliased by {sorted(set(holders) - {name})}")
        if isinstance(cur, Vec):
            if not (isinstance(sl, ast.Tuple) and len(sl.elts) == 2 and is_ellipsis(sl.elts[0])):
                self.fail(s, "column assignment must have the form v[..., i] = e or v[..., :k] = w")
            i = sl.elts[1]
            v = self.ev(s.value, env)
            ts = list(cur.ts)
            if lit_int(i) and 0 <= i.value < len(ts):
                nm = self.fresh(f"{name}_{i.value}")
                pre = f"let {nm} := {self.sc(v, s.value, 'assigned column')} in\n  "
                ts[i.value] = nm
            elif isinstance(i, ast.Slice) and i.lower is None and i.step is None and lit_int(i.upper) and 0 < i.upper.value <= len(ts):
                if not (isinstance(v, Vec) and len(v.ts) == i.upper.value):
                    self.fail(s, "slice assignment of a value with a different number of columns")
                ts[:i.upper.value] = v.ts
                pre = ""
            else:
                self.fail(s, "column index must be a literal")
            env[name] = put(Vec(ts, True, cur.tid))
            return pre + self.block(rest, env, cont)
        if isinstance(cur, Sc):
            c = self.cond(self.ev(sl, env), sl)
            t, sel = self.arith(self.ev(s.value, env), s.value, "value of a masked write")
            if sel is not None and sel != c:
                self.pre.append(f"({propc(c)} <-> {propc(sel)})")
            nm = self.fresh(name)
            env[name] = Sc(nm, True, cur.tid)
            return f"let {nm} := {ifc(c, t, cur.t)} in\n  " + self.block(rest, env, cont)
        self.fail(s, f"subscript assignment into a {cur.kind} value")

    # -- whole function
    def translate(self):
        spec, mod = self.spec, self.mod
        cnode, f, cb = self.find()
        self.fnode, self.class_bind = f, (cb if spec["cls"] else {})
        a = f.args
        if a.vararg or a.kwarg or a.kwonlyargs or a.posonlyargs:
            mod.fail(f, "unsupported parameter syntax")
        pos = [x.arg for x in a.args]
        defaults = [None] * (len(pos) - len(a.defaults)) + list(a.defaults)
        env, coq_params = {}, []
        if spec["cls"]:
            first = "cls" if spec.get("classmethod") else "self"
            if not pos or pos[0] != first:
                mod.fail(f, f"method without {first}")
            pos, defaults = pos[1:], defaults[1:]
            if spec.get("classmethod"):
                env["cls"] = Cls()
            else:
                attrs = {}
                for nm, kind in spec["attrs"]:
                    if isinstance(kind, tuple) and kind[0] == "enum":
                        attrs[nm] = Str(self.enums[nm])
                    elif kind in VEC_N:
                        ns = [self.fresh(f"{nm}_{i}") for i in range(VEC_N[kind])]
                        attrs[nm] = Vec(ns, owned=False)
                        coq_params += [(x, "R") for x in ns]
                    elif kind == "nat":
                        c = self.fresh(nm)
                        attrs[nm] = Nat(c)
                        coq_params.append((c, "nat"))
                    else:
                        c = self.fresh(nm)
                        attrs[nm] = Sc(c, owned=False)
                        coq_params.append((c, "R"))
                env["self"] = attrs
        if len(pos) != len(spec["params"]):
            mod.fail(f, f"signature changed: {len(pos)} parameters, expected {len(spec['params'])}")
        for nm, d, kind in zip(pos, defaults, spec["params"]):
            if isinstance(kind, tuple) and kind[0] == "default":
                if not (isinstance(d, ast.Name) and d.id == kind[1]):
                    mod.fail(f, f"signature changed: default of parameter {nm!r}")
                origin_check(mod, kind[1], f)
                c = self.fresh(nm)
                env[nm] = Sc(c, owned=False)
                coq_params.append((c, "R"))
                continue
            if kind in ("opaque", "meta"):
                env[nm] = Meta() if kind == "meta" else Token(nm)
                continue
            if d is not None:
                mod.fail(f, f"signature changed: default of parameter {nm!r}")
            if isinstance(kind, tuple) and kind[0] == "enum":
                env[nm] = Str(self.enums[nm])
            elif kind in VEC_N:
                ns = [self.fresh(f"{nm}_{i}") for i in range(VEC_N[kind])]
                env[nm] = Vec(ns, owned=False)
                coq_params += [(x, "R") for x in ns]
            elif kind == "beam":
                cols = {}
                for col in ("x", "px", "y", "py", "tau", "p"):
                    cols[col] = self.fresh(f"{nm}_{col}")
                    coq_params.append((cols[col], "R"))
                e = self.fresh(f"{nm}_energy")
                coq_params.append((e, "R"))
                env[nm] = BeamIn(cols, e)
            else:
                c = self.fresh(nm)
                env[nm] = Sc(c, owned=False)
                coq_params.append((c, "R"))
        self.pnames = pos
        body = self.block(f.body, env, None)
        coq = "gen_" + (f"{spec['cls']}_" if spec["cls"] else "") + spec["fn"] + "".join("_" + v for v in self.enums.values())
        if "mass_kg" in self.globals_used:
            coq_params = [("mass_kg", "R")] + coq_params
        binders = " ".join(f"({n} : {t})" for n, t in coq_params)
        text = f"Definition {coq} {binders} : {kind_type(self.ret_kind)} :=\n  {body}.\n"
        if self.pre:
            params = {n for n, _ in coq_params}
            for cj in self.pre:
                loc = [w for w in re.findall(r"[A-Za-z_][A-Za-z0-9_']*", cj) if w in self.used and w not in params]
                if loc:
                    mod.fail(f, f"the precondition of a masked write depends on the local value(s) {loc}")
            text += f"\nDefinition {coq}_pre {binders} : Prop :=\n  {' /\\ '.join(self.pre)}.\n"
        return coq, text, f

    def find(self):
        spec, mod = self.spec, self.mod
        want = []
        if spec.get("prop"):
            want = ["Name(id='property', ctx=Load())"]
        if spec.get("classmethod"):
            want = ["Name(id='classmethod', ctx=Load())"]
        # Module.find_function accepts [] or @property; classmethods are located here
        cnode, scope = None, mod.tree.body
        if spec["cls"]:
            b = mod.bind.get(spec["cls"], [])
            if len(b) != 1 or b[0][0] != "class":
                raise TranslateError(f"class {spec['cls']} is not defined exactly once", mod.rel, 0)
            cnode, scope = b[0][2], b[0][2].body
            bases = [ast.dump(x) for x in cnode.bases]
            if spec["base"] == "ABC+nn.Module":
                ok = bases == ["Name(id='ABC', ctx=Load())", "Attribute(value=Name(id='nn', ctx=Load()), attr='Module', ctx=Load())"]
            else:
                ok = bases == [f"Name(id='{spec['base']}', ctx=Load())"]
                origin_check(mod, spec["base"], cnode)
            if not ok or cnode.keywords:
                mod.fail(cnode, f"class {spec['cls']} must derive from {spec['base']} only")
        cb = {}
        mod._collect(scope, cb)
        b = cb.get(spec["fn"], [])
        if len(b) != 1 or b[0][0] != "def" or not isinstance(b[0][2], ast.FunctionDef):
            raise TranslateError(f"{(spec['cls'] + '.') if spec['cls'] else ''}{spec['fn']} is not defined exactly once as a function", mod.rel,
                                 getattr(cnode, "lineno", 0))
        f = b[0][2]
        if [ast.dump(d) for d in f.decorator_list] != want:
            mod.fail(f, f"unexpected decorators on {spec['fn']}")
        return cnode, f, cb


# ---------------------------------------------------------------------------------------------- driver
def enum_choices(spec):
    names, lists = [], []
    for (nm, kind) in spec.get("attrs", []):
        if isinstance(kind, tuple) and kind[0] == "enum":
            names.append(nm)
            lists.append(kind[1])
    pending = [(k, kind) for k, kind in enumerate(spec["params"]) if isinstance(kind, tuple) and kind[0] == "enum"]
    return names, lists, pending


class Translator:
    def __init__(self, repo, only=None):
        self.repo, self.mods, self.done, self.only = Path(repo), {}, {}, only

    def module(self, rel):
        if rel not in self.mods:
            self.mods[rel] = Module(self.repo, rel)
        return self.mods[rel]

    def lookup(self, cls, fn, enum_vals=()):
        return self.done.get((cls, fn, tuple(enum_vals)))

    def check_reexports(self):
        m = self.module("cheetah/utils/__init__.py")
        b = m.bind.get("bmadx", [])
        if len(b) != 1 or b[0][0] != "from" or b[0][1] != ".":
            raise TranslateError("cheetah.utils does not import the module bmadx from `.` exactly once", m.rel, 0)
        m = self.module("cheetah/particles/__init__.py")
        b = m.bind.get("ParticleBeam", [])
        if len(b) != 1 or b[0][0] != "from" or b[0][1] != ".particle_beam":
            raise TranslateError("cheetah.particles does not re-export ParticleBeam from .particle_beam exactly once", m.rel, 0)

    def run(self):
        self.check_reexports()
        out, info = [], []
        for spec in SPECS:
            if self.only is not None and spec["file"] not in self.only:
                continue
            mod = self.module(spec["file"])
            anames, alists, pending = enum_choices(spec)
            pnames_enum = []
            if pending:
                _, f0, _ = BxFn(self, spec, mod, {}).find()
                args = [x.arg for x in f0.args.args][1 if spec["cls"] else 0:]
                pnames_enum = [args[k] for k, _ in pending if k < len(args)]
                if len(pnames_enum) != len(pending):
                    raise TranslateError("signature changed: enumeration parameter missing", mod.rel, f0.lineno)
            names = pnames_enum + anames
            lists = [kind[1] for _, kind in pending] + alists
            for choice in itertools.product(*lists):
                enums = dict(zip(names, choice))
                ft = BxFn(self, spec, mod, enums)
                coq, text, f = ft.translate()
                first, last, seg = mod.segment(f)
                self.done[(spec["cls"], spec["fn"], tuple(choice))] = dict(spec=spec, coq=coq, ret=ft.ret_kind, pnames=ft.pnames, module=mod,
                                                                          mass="mass_kg" in ft.globals_used)
                out.append(text)
                info.append(dict(function=(spec["cls"] + "." if spec["cls"] else "") + spec["fn"] + ("[" + ",".join(choice) + "]" if choice else ""),
                                 file=spec["file"], first_line=first, last_line=last, source_sha256=hashlib.sha256(seg.encode()).hexdigest(),
                                 coq_name=coq, coq_sha256=hashlib.sha256(text.encode()).hexdigest(), has_precondition=bool(ft.pre)))
        header = ("(** GENERATED by harness/translate_bmadx.py from the source text of /repo -- do not edit.\n"
                  "    Scalar-per-particle reading, mask reading and primitive table: see the docstring of harness/translate_bmadx.py.\n"
                  "    The check regenerates this file on every run and compiles Gen/BmadxGenEquiv.v against the fresh copy. *)\n"
                  "From Coq Require Import Reals.\nFrom Cheetah Require Import Gen.BmadxGenBase.\nOpen Scope R_scope.\n\n")
        return header + "\n".join(out), info


def locate(repo):
    """Only locate the functions of SPECS (no translation): [(qualified name, file, first_line, last_line, sha256)], followed by
    the module-level constants of the primitive table and the alias properties (ParticleBeam.p) the translation depends on."""
    tr, out, seen = Translator(repo), [], set()
    for spec in SPECS:
        mod = tr.module(spec["file"])
        _, f, cb = BxFn(tr, spec, mod, {}).find()
        first, last, seg = mod.segment(f)
        out.append(((spec["cls"] + "." if spec["cls"] else "") + spec["fn"], spec["file"], first, last, hashlib.sha256(seg.encode()).hexdigest()))
        for a in spec.get("aliases", {}):
            for kind, _, node in cb.get(a, []):
                if kind == "def" and (spec["cls"], a, node.lineno) not in seen:
                    seen.add((spec["cls"], a, node.lineno))
                    first, last, seg = mod.segment(node)
                    out.append((f"{spec['cls']}.{a}@{len([x for x in seen if x[:2] == (spec['cls'], a)])}", spec["file"], first, last,
                                hashlib.sha256(seg.encode()).hexdigest()))
        if spec["file"] not in seen:
            seen.add(spec["file"])
            for name in GLOBAL_CONST:
                for kind, _, node in mod.bind.get(name, []):
                    if kind == "assign":
                        seg = "\n".join(mod.src.splitlines()[node.lineno - 1:node.end_lineno])
                        out.append((f"<module constant {name}>", spec["file"], node.lineno, node.end_lineno, hashlib.sha256(seg.encode()).hexdigest()))
    return out


def generate(repo, only=None):
    """Returns (coq_text, info list).  Raises TranslateError."""
    return Translator(repo, only).run()


if __name__ == "__main__":
    repo = sys.argv[1] if len(sys.argv) > 1 else "/repo"
    try:
        text, info = generate(repo)
    except TranslateError as ex:
        print("TRANSLATOR FAILED:", ex)
        sys.exit(2)
    if len(sys.argv) > 2:
        Path(sys.argv[2]).write_text(text)
    else:
        print(text)
