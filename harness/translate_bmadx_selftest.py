"""Self-test of the Bmad-X source-to-Coq translator stage (harness/translate_stage.translator_obligation_bmadx).

Copies /repo (without .git) to a scratch directory under /tmp (removed afterwards), points VERIF_REPO at the copy and runs
the stage on
  * the unchanged copy                                   -> must be ok
  * one-line SEMANTIC mutations of translated functions  -> must be translator_failed or equivalence_broken
  * COSMETIC edits                                       -> must be ok
  * semantics-preserving refactorings                    -> informational
  * the seeded patches /verif/seeded/{C07,C03,C09,C18}-*, C12-4, C05-3: reports which touch a translated function and whether
    the stage notices them.
Usage:  PYTHONPATH=/verif/harness /venv/bin/python harness/translate_bmadx_selftest.py [--only substring] [--no-seeded] [--seeded-only]
Exit status 0 iff every expectation holds.
"""
import os
import re
import shutil
import subprocess
import sys
import time
from pathlib import Path

SCRATCH = Path(f"/tmp/translate_bmadx_selftest_{os.getpid()}")
COPY = SCRATCH / "repo"
os.environ["VERIF_REPO"] = str(COPY)
sys.path.insert(0, str(Path(__file__).resolve().parent))
import common  # noqa: E402
import translate_bmadx  # noqa: E402
import translate_maps  # noqa: E402
import translate_stage  # noqa: E402

BX, ACC = "cheetah/utils/bmadx.py", "cheetah/accelerator/"
DR, QU, DI, TD = ACC + "drift.py", ACC + "quadrupole.py", ACC + "dipole.py", ACC + "transverse_deflecting_cavity.py"
BEAM, PB = "cheetah/particles/beam.py", "cheetah/particles/particle_beam.py"
LEZ_IN_LOOP = """            z = z + bmadx.low_energy_z_correction(
                pz, p0c, electron_mass_eV, step_length
            )
"""
LEZ_AFTER_LOOP = """        z = z + bmadx.low_energy_z_correction(
            pz, p0c, electron_mass_eV, step_length
        )
"""
F70_LINES = """        theta_p = theta_p - 4 * torch.pi * torch.round(
            (theta_p - self.angle.unsqueeze(-1)) / (4 * torch.pi)
        )
"""
Q_SET = "x, px, y, py = bmadx.offset_particle_set(\n            x_offset, y_offset, self.tilt, x, px, y, py\n        )"
Q_UNSET = "x, px, y, py = bmadx.offset_particle_unset(\n            x_offset, y_offset, self.tilt, x, px, y, py\n        )"

# seeded patches that touch a translated function but change nothing over the reals: the tie is blind to them BY DESIGN (docstring of
# translate_bmadx.py, "NOT covered"); they are reported as such and must be caught by the numeric correspondence of their property
EXPECTED_INVISIBLE = {
    "C18-2": "dtype-only change (torch.ones without dtype=, redundant .clone() dropped): the same function over the reals; float32 down-cast is C18's/C12's numeric subject",
}

# (id, expectation, file, edits, description)   edits: (old, new) | [(old, new), ..] ; old may be ("re", pattern)
MUTATIONS = [
    # ---- semantic: coordinate conversions
    ("S01", "detect", BX, ("z = -beta * tau", "z = beta * tau"), "cheetah_to_bmad_z_pz: sign of z"),
    ("S02", "detect", BX, ("pz = (p - p0c.unsqueeze(-1)) / p0c.unsqueeze(-1)", "pz = (p - p0c.unsqueeze(-1)) / p"), "cheetah_to_bmad_z_pz: wrong divisor p"),
    ("S03", "detect", BX, ("p0c = torch.sqrt(ref_energy**2 - mc2**2)", "p0c = torch.sqrt(ref_energy**2 + mc2**2)"), "cheetah_to_bmad_z_pz: sign in p0c"),
    ("S04", "detect", BX, ("tau = -z / beta", "tau = -z * beta"), "bmad_to_cheetah_z_pz: z/beta -> z*beta"),
    ("S05", "detect", BX, ("delta = (energy - ref_energy.unsqueeze(-1)) / p0c.unsqueeze(-1)", "delta = (energy - ref_energy.unsqueeze(-1)) / ref_energy.unsqueeze(-1)"),
     "bmad_to_cheetah_z_pz: delta normalised by ref_energy"),
    ("S06", "detect", BX, ("bmad_coords[..., 5] = pz", "bmad_coords[..., 4] = pz"), "cheetah_to_bmad_coords: pz written to column 4"),
    # ---- drift
    ("S07", "detect", BX, ("Px = px_in / P  #", "Px = py_in / P  #"), "track_a_drift: px <-> py"),
    ("S08", "detect", BX, ("Pl = torch.sqrt(1.0 - Pxy2)", "Pl = torch.sqrt(1.0 + Pxy2)"), "track_a_drift: sign in Pl"),
    ("S09", "detect", BX, ("(mc2**2 * (2 * pz_in + pz_in**2))", "(mc2**2 * (pz_in + pz_in**2))"), "track_a_drift: dropped factor 2 in dz"),
    ("S10", "detect", BX, ("rad = sq + 1", "rad = sq + 2"), "sqrt_one: changed constant"),
    ("S11", "detect", BX, ("y_out = y_in + length.unsqueeze(-1) * Py / Pl", "y_out = y_in + length.unsqueeze(-1) * Px / Pl"), "track_a_drift: Px reused for y"),
    ("S12", "detect", DR, ("self.length, x, px, y, py, z, pz, p0c, electron_mass_eV", "self.length, x, py, y, px, z, pz, p0c, electron_mass_eV"),
     "Drift._track_bmadx: px/py swapped in the call"),
    ("S13", "detect", DR, ("[x, px, y, py, tau, delta, torch.ones_like(x)]", "[x, px, y, py, delta, tau, torch.ones_like(x)]"), "Drift._track_bmadx: tau/delta swapped in the stack"),
    ("S14", "detect", DR, ("energy=ref_energy,", "energy=incoming.energy * 1.0,"), "Drift._track_bmadx: returned energy is no longer the recomputed one"),
    # ---- offsets
    ("S15", "detect", BX, ("y_ele = -x_ele_int * s.unsqueeze(-1)", "y_ele = x_ele_int * s.unsqueeze(-1)"), "offset_particle_set: sign of the rotation"),
    ("S16", "detect", BX, [("x_ele_int = x_lab - x_offset.unsqueeze(-1)", "x_ele_int = x_lab"),
                           ("x_ele = x_ele_int * c.unsqueeze(-1) + y_ele_int * s.unsqueeze(-1)", "x_ele = x_ele_int * c.unsqueeze(-1) + y_ele_int * s.unsqueeze(-1) - x_offset.unsqueeze(-1)")],
     "offset_particle_set: offset subtracted after the rotation (order of offset / tilt)"),
    ("S17", "detect", BX, ("px_lab = px_ele * c.unsqueeze(-1) - py_ele * s.unsqueeze(-1)", "px_lab = px_ele * c.unsqueeze(-1) + py_ele * s.unsqueeze(-1)"), "offset_particle_unset: sign"),
    # ---- quadrupole
    ("S18", "detect", BX, ("* (evaluation < 3e-7 * e_tot.unsqueeze(-1))", "* (evaluation < 3e-6 * e_tot.unsqueeze(-1))"), "low_energy_z_correction: threshold of ONE mask changed (masks overlap)"),
    ("S19", "detect", BX, [("(evaluation < 3e-7 * e_tot.unsqueeze(-1))", "(evaluation @@ 3e-7 * e_tot.unsqueeze(-1))"), ("evaluation >= 3e-7 * e_tot.unsqueeze(-1)", "evaluation < 3e-7 * e_tot.unsqueeze(-1)"),
                           ("(evaluation @@ 3e-7 * e_tot.unsqueeze(-1))", "(evaluation >= 3e-7 * e_tot.unsqueeze(-1))")], "low_energy_z_correction: mask branches swapped"),
    ("S20", "detect", BX, ("- 3 * (pz * beta0.unsqueeze(-1) ** 2) / 2", "- 3 * (pz * beta0.unsqueeze(-1) ** 2) / 3"), "low_energy_z_correction: series coefficient"),
    ("S21", "detect", BX, ("cx = torch.cos(sk_l) * (k1 <= 0)", "cx = torch.cos(sk_l) * (k1 < 0)"), "calculate_quadrupole_coefficients: comparison changed (gap at k1 = 0)"),
    ("S22", "detect", BX, ("cx = torch.cos(sk_l) * (k1 <= 0) + torch.cosh(sk_l) * (k1 > 0)", "cx = torch.cosh(sk_l) * (k1 <= 0) + torch.cos(sk_l) * (k1 > 0)"),
     "calculate_quadrupole_coefficients: cos/cosh branches swapped"),
    ("S23", "detect", BX, ("a21 = k1 * sx * rel_p", "a21 = k1 * sx / rel_p"), "calculate_quadrupole_coefficients: a21"),
    ("S24", "detect", BX, ("c2 = -k1 * sx**2 / (2 * rel_p)", "c2 = -k1 * sx**2 / (4 * rel_p)"), "calculate_quadrupole_coefficients: constant in c2"),
    ("S25", "detect", BX, ("sqrt_k = torch.sqrt(torch.absolute(k1) + eps)", "sqrt_k = torch.sqrt(torch.absolute(k1))"), "calculate_quadrupole_coefficients: eps dropped"),
    ("S26", "detect", BX, ("double_precision_epsilon = torch.finfo(torch.float64).eps", "double_precision_epsilon = torch.finfo(torch.float32).eps"),
     "module constant double_precision_epsilon changed"),
    ("S27", "detect", QU, ("tx, dzx = bmadx.calculate_quadrupole_coefficients(-k1, step_length, rel_p)", "tx, dzx = bmadx.calculate_quadrupole_coefficients(k1, step_length, rel_p)"),
     "Quadrupole: sign of k1 for the horizontal plane"),
    ("S28", "detect", QU, ("px_next = tx[1][0] * x + tx[1][1] * px", "px_next = tx[0][1] * x + tx[1][1] * px"), "Quadrupole: wrong matrix element"),
    ("S29", "detect", QU, (LEZ_IN_LOOP, ""), "Quadrupole: low-energy z correction dropped from the loop"),
    ("S30", "detect", QU, (LEZ_IN_LOOP, "\n" + LEZ_AFTER_LOOP), "Quadrupole: low-energy z correction moved out of the loop (applied once)"),
    ("S31", "detect", QU, ("for _ in range(self.num_steps):", "for _ in range(self.num_steps - 1):"), "Quadrupole: one step fewer"),
    ("S32", "detect", QU, ("step_length = self.length / self.num_steps", "step_length = self.length"), "Quadrupole: step length not divided"),
    ("S33", "detect", QU, [(Q_SET, "@@SET@@"), (Q_UNSET, Q_SET), ("@@SET@@", Q_UNSET)], "Quadrupole: offset_particle_set / unset exchanged"),
    ("S34", "detect", QU, ("k1 = b1.unsqueeze(-1) / (self.length.unsqueeze(-1) * rel_p)", "k1 = b1.unsqueeze(-1) / rel_p"), "Quadrupole: integrated strength not divided by the length"),
    ("S35", "detect", QU, ("pz = pz * torch.ones_like(x)", "pz = pz * torch.zeros_like(x)"), "Quadrupole: pz zeroed"),
    ("S36", "detect", QU, ("+ dzy[1] * y * py", "+ dzy[1] * y * px"), "Quadrupole: px reused in the vertical z term"),
    # ---- dipole
    ("S37", "detect", DI, ("c2 = x2_t1 + (x2_t2 - x2_t3) / gp", "c2 = x2_t1 + (x2_t2 - x2_t3) / g.unsqueeze(-1)"), "Dipole body: g used instead of gp"),
    ("S38", "detect", DI, ("x2 = c1 * (temp < torch.pi / 2) + c2 * (temp >= torch.pi / 2)", "x2 = c2 * (temp < torch.pi / 2) + c1 * (temp >= torch.pi / 2)"), "Dipole body: mask branches swapped"),
    ("S39", "detect", DI, ("x2 = c1 * (temp < torch.pi / 2)", "x2 = c1 * (temp <= torch.pi / 2)"), "Dipole body: comparison changed (masks overlap at pi/2)"),
    ("S40", "detect", DI, (F70_LINES, ""), "Dipole body: the F70 repair removed (back to the wrapped turning angle)"),
    ("S41", "detect", DI, ("px_f = px_norm * torch.sin(self.angle.unsqueeze(-1) + phi1 - theta_p)", "px_f = px_norm * torch.sin(self.angle.unsqueeze(-1) + phi1 + theta_p)"), "Dipole body: sign of theta_p"),
    ("S42", "detect", DI, ("Lp = Lc / bmadx.sinc(theta_p / 2)", "Lp = Lc / bmadx.sinc(theta_p)"), "Dipole body: dropped factor 1/2"),
    ("S43", "detect", DI, ('e = self._e1 * (location == "entrance") + self._e2 * (location == "exit")', 'e = self._e1 * (location == "exit") + self._e2 * (location == "entrance")'),
     "Dipole fringe: e1/e2 exchanged"),
    ("S44", "detect", DI, ("h_gap = 0.5 * (", "h_gap = 1.0 * ("), "Dipole fringe: half gap"),
    ("S45", "detect", DI, ('if self.fringe_at == "entrance" or self.fringe_at == "both":', 'if self.fringe_at == "entrance" and self.fringe_at == "both":'), "Dipole: or -> and in the fringe test"),
    ("S46", "detect", DI, ('px, py = self._bmadx_fringe_linear("exit", x, px, y, py)', 'px, py = self._bmadx_fringe_linear("entrance", x, px, y, py)'), "Dipole: entrance fringe applied at the exit"),
    ("S47", "detect", DI, ("py_f = py + y * hy.unsqueeze(-1)", "py_f = py + y * hx.unsqueeze(-1)"), "Dipole fringe: hx reused for py"),
    ("S48", "detect", BX, ("return -0.5 * sinc(x / 2) ** 2", "return -0.5 * sinc(x) ** 2"), "cosc: dropped factor"),
    ("S49", "detect", BX, ("return torch.sinc(x / torch.pi)", "return torch.sinc(x)"), "sinc: normalisation"),
    # ---- TDC
    ("S50", "detect", TD, ("voltage = self.voltage / p0c", "voltage = self.voltage * p0c"), "TDC: voltage normalisation"),
    ("S51", "detect", TD, ("k_rf = 2 * torch.pi * self.frequency / speed_of_light", "k_rf = torch.pi * self.frequency / speed_of_light"), "TDC: dropped factor 2"),
    ("S52", "detect", TD, ("z = z * beta / beta_old", "z = z * beta_old / beta"), "TDC: inverted ratio"),
    ("S53", "detect", TD, ("self.length / 2, x, px, y, py, z, pz, p0c, electron_mass_eV", "self.length, x, px, y, py, z, pz, p0c, electron_mass_eV"), "TDC: first half drift has the full length"),
    ("S54", "detect", TD, ("px = px + voltage.unsqueeze(-1) * torch.sin(phase)", "py = py + voltage.unsqueeze(-1) * torch.sin(phase)"), "TDC: kick on py"),
    # ---- SI conversions / beam quantities
    ("S55", "detect", PB, ("zs = self.particles[..., 4] * -self.relativistic_beta.unsqueeze(-1)", "zs = self.particles[..., 4] * self.relativistic_beta.unsqueeze(-1)"), "to_xyz_pxpypz: sign of z"),
    ("S56", "detect", PB, ("px = self.particles[..., 1] * p0.unsqueeze(-1)", "px = self.particles[..., 3] * p0.unsqueeze(-1)"), "to_xyz_pxpypz: column"),
    ("S57", "detect", PB, ("beam.particles[..., 5] = (gamma - beam.relativistic_gamma.unsqueeze(-1)) / (", "beam.particles[..., 4] = (gamma - beam.relativistic_gamma.unsqueeze(-1)) / ("),
     "from_xyz_pxpypz: delta written to column 4"),
    ("S58", "detect", BEAM, ("relativistic_beta[torch.abs(self.relativistic_gamma) > 0] = torch.sqrt(", "relativistic_beta[self.relativistic_gamma > 0] = torch.sqrt("),
     "relativistic_beta: left mask changed (the shape-mismatch precondition disappears)"),
    ("S59", "detect", PB, ("return self.p * self.p0c.unsqueeze(-1) + self.energy.unsqueeze(-1)", "return self.p * self.p0c.unsqueeze(-1) - self.energy.unsqueeze(-1)"), "energies: sign"),
    ("S60", "detect", BEAM, ("return self.relativistic_beta * self.relativistic_gamma * electron_mass_eV", "return self.relativistic_gamma * electron_mass_eV"), "p0c: beta dropped"),
    ("S61", "detect", PB, ("    def p(self) -> Optional[torch.Tensor]:\n        return self.particles[..., 5]", "    def p(self) -> Optional[torch.Tensor]:\n        return self.particles[..., 4]"),
     "ParticleBeam.p: another column"),
    ("S62", "detect", BX, ("    dz = length.unsqueeze(-1) * (\n        sqrt_one(", "    x_in = x_in.abs_()\n    dz = length.unsqueeze(-1) * (\n        sqrt_one("), "track_a_drift: statement outside the fragment (in-place on an argument)"),
    ("S63", "detect", BX, ("def track_a_drift(", "def sqrt_one(x):\n    return x / 2\n\n\ndef track_a_drift("), "bmadx.py: sqrt_one shadowed by a second definition"),
    # ---- cosmetic
    ("K01", "ok", BX, ("    Pxy2 = Px**2 + Py**2  # Particle's transverse mometum^2 over p0^2\n", "    # transverse part\n\n    Pxy2 = Px**2 + Py**2  # squared\n"), "comments and blank lines"),
    ("K02", "ok", BX, ('"""Routine to calculate Sqrt[1+x] - 1 to machine precision."""', '"""sqrt(1 + x) - 1 without cancellation.\n\n    (reworded docstring)\n    """'), "docstring changed"),
    ("K03", "ok", BX, (("re", r"\bPxy2\b"), "pt_sq"), "local variable Pxy2 renamed"),
    ("K04", "ok", QU, (("re", r"\bx_next\b"), "x_new"), "local variable x_next renamed inside the loop"),
    ("K05", "ok", BX, ("    beta = p / energy\n    z = -beta * tau\n", "    beta = (\n        p\n        / energy\n    )\n    z = (-beta) * (tau)\n"), "reformatting (line breaks, redundant parentheses)"),
    ("K06", "ok", BX, ("    s = torch.sin(tilt)\n    c = torch.cos(tilt)\n    x_ele_int", "    c = torch.cos(tilt)\n    s = torch.sin(tilt)\n    x_ele_int"), "two independent assignments reordered"),
    ("K07", "ok", BX, ("    P = 1.0 + pz_in  #", "    P: torch.Tensor = 1.0 + pz_in  #"), "type annotation added to a local assignment"),
    ("K08", "ok", DI, (("re", r"\bLcu\b"), "chord_u"), "local variable Lcu renamed in the dipole body"),
    ("K09", "ok", DI, ("        E = torch.sqrt(P**2 + mc2**2)  # In eV\n        E0 = torch.sqrt(p0c**2 + mc2**2)  # In eV\n", "        E0 = torch.sqrt(p0c**2 + mc2**2)  # In eV\n        E = torch.sqrt(P**2 + mc2**2)  # In eV\n"),
     "two independent assignments reordered in the dipole body"),
    ("K10", "ok", TD, (("re", r"\bbeta_old\b"), "beta_before"), "local variable beta_old renamed in the TDC"),
    ("K11", "ok", PB, ("        momentum = gamma * electron_mass * beta * speed_of_light\n", "        # total momentum in SI units\n        momentum = gamma * electron_mass * beta * speed_of_light\n"), "comment added in to_xyz_pxpypz"),
    # ---- semantics-preserving refactorings beyond the required cosmetic classes (informational)
    ("I01", "info", BX, ("Px = px_in / P  #", "Px = px_in * (1 / P)  #"), "algebraic rewriting (equal over R, not bit-identical in floats)"),
    ("I02", "info", DI, ("x2 = c1 * (temp < torch.pi / 2) + c2 * (temp >= torch.pi / 2)", "x2 = torch.where(temp < torch.pi / 2, c1, c2)"), "mask product replaced by torch.where (differs in floats only when c1/c2 are nan/inf)"),
    ("I03", "info", BX, ("    sq = torch.sqrt(1 + x)\n    rad = sq + 1\n", "    rad = torch.sqrt(1 + x) + 1\n"), "two assignments merged"),
    ("I04", "info", QU, ("            x, px, y, py = x_next, px_next, y_next, py_next\n", "            x = x_next\n            px = px_next\n            y = y_next\n            py = py_next\n"), "tuple assignment split"),
]


def edit_text(src, old, new, rel):
    if isinstance(old, tuple) and old[0] == "re":
        out, n = re.subn(old[1], new, src)
        if n == 0:
            raise RuntimeError(f"pattern {old[1]!r} not found in {rel}")
        return out
    if src.count(old) < 1:
        raise RuntimeError(f"text {old!r} not found in {rel}")
    return src.replace(old, new, 1)


def apply_mutation(m):
    _, _, rel, edits, _ = m
    p = COPY / rel
    src = p.read_text()
    out = src
    for old, new in (edits if isinstance(edits, list) else [edits]):
        out = edit_text(out, old, new, rel)
    p.write_text(out)
    return {rel: src}


def restore(backup):
    for rel, src in backup.items():
        p = COPY / rel
        if src is None:
            p.unlink(missing_ok=True)
        else:
            p.write_text(src)


def touched(base):
    try:
        now = translate_bmadx.locate(COPY)
    except translate_maps.TranslateError as ex:
        return [f"<{ex.reason}>"]
    b = {(x[0], x[1]): x[4] for x in base}
    n = {(x[0], x[1]): x[4] for x in now}
    return sorted({k[0] for k in set(b) | set(n) if b.get(k) != n.get(k)})


def describe(r):
    if r["status"] == "ok":
        return "ok"
    if r["status"] == "translator_failed":
        return f"translator_failed  {r.get('file')}:{r.get('line')}  {str(r.get('reason'))[:90]}"
    if r["status"] == "equivalence_broken":
        return f"equivalence_broken  {r.get('lemma')}"
    return f"{r['status']}  {str(r.get('reason'))[:120]}"


def main():
    only = sys.argv[sys.argv.index("--only") + 1] if "--only" in sys.argv else None
    if SCRATCH.exists():
        shutil.rmtree(SCRATCH)
    SCRATCH.mkdir(parents=True)
    bad = 0
    try:
        shutil.copytree("/repo", COPY, ignore=shutil.ignore_patterns(".git", "__pycache__", "*.pyc"))
        assert common.REPO == COPY
        t0 = time.time()
        r0 = translate_stage.translator_obligation_bmadx()
        base = translate_bmadx.locate(COPY)
        print(f"{'BASE':5} {'ok':7} {describe(r0):60} unchanged copy of /repo   [{r0['wall_s']} s]")
        if r0["status"] != "ok":
            print(r0)
            return 1
        for m in MUTATIONS:
            if "--seeded-only" in sys.argv or (only and only not in m[0] and only not in m[4]):
                continue
            backup = apply_mutation(m)
            try:
                r = translate_stage.translator_obligation_bmadx()
                tch = touched(base)
            finally:
                restore(backup)
            exp = m[1]
            good = (r["status"] in ("translator_failed", "equivalence_broken")) if exp == "detect" else (r["status"] == "ok") if exp == "ok" else True
            if not tch:
                good = False        # a mutation that does not reach a translated function tests nothing
                r = dict(r, status="mutation-missed-its-target", reason="the edit changed no translated function")
            bad += 0 if good else 1
            print(f"{m[0]:5} {exp:7} {'PASS' if good else 'FAIL'}  {describe(r):100}  | {m[4]}  [{r['wall_s']} s]", flush=True)
        r1 = translate_stage.translator_obligation_bmadx()
        if r1["status"] != "ok" or r1["generated_sha256"] != r0["generated_sha256"]:
            print("FAIL: the scratch copy was not restored faithfully")
            bad += 1
        if "--no-seeded" not in sys.argv and not only:
            print("\nseeded patches:")
            seeded = sorted(p for p in (common.VERIF / "seeded").glob("C*-*/patch.diff")
                            if p.parent.name[:3] in ("C07", "C03", "C09", "C18") or p.parent.name in ("C12-4", "C05-3"))
            for pd in seeded:
                files = re.findall(r"^\+\+\+ b/(\S+)", pd.read_text(), flags=re.M)
                backup = {f: ((COPY / f).read_text() if (COPY / f).exists() else None) for f in files}
                pr = subprocess.run(["patch", "-p1", "-s", "--no-backup-if-mismatch", "-i", str(pd)], cwd=COPY, capture_output=True, text=True)
                try:
                    if pr.returncode != 0:
                        print(f"{pd.parent.name:6} patch does not apply: {pr.stdout[-200:]}")
                        bad += 1
                        continue
                    tch = touched(base)
                    r = translate_stage.translator_obligation_bmadx()
                finally:
                    restore(backup)
                    for junk in list(COPY.rglob("*.orig")) + list(COPY.rglob("*.rej")):
                        junk.unlink()
                if tch and pd.parent.name in EXPECTED_INVISIBLE and r["status"] == "ok":
                    print(f"{pd.parent.name:6} touches {','.join(tch):45} NOT DETECTED (expected, out of scope): {EXPECTED_INVISIBLE[pd.parent.name]}", flush=True)
                elif tch:
                    good = r["status"] in ("translator_failed", "equivalence_broken")
                    bad += 0 if good else 1
                    print(f"{pd.parent.name:6} touches {','.join(tch):45} {'DETECTED' if good else 'MISSED  '}  {describe(r)}", flush=True)
                else:
                    good = r["status"] == "ok"
                    bad += 0 if good else 1
                    print(f"{pd.parent.name:6} touches no translated function ({', '.join(files)}): stage {describe(r)}", flush=True)
        print(f"\nself-test finished in {round(time.time() - t0, 1)} s: {'ALL EXPECTATIONS HOLD' if not bad else str(bad) + ' FAILED'}")
    finally:
        shutil.rmtree(SCRATCH, ignore_errors=True)
    return 1 if bad else 0


if __name__ == "__main__":
    sys.exit(main())
