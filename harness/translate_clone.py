"""translate_clone -- source-to-Coq translator for property C15 (clone), the "second tie" of Ops/ClassTableSpec.v / Ops/Clone.v.

Reads ONLY THE SOURCE TEXT (Python `ast`; cheetah is never imported) of
    cheetah/__init__.py                      (the list of exported element classes)
    cheetah/accelerator/*.py                 (every Element subclass)
    cheetah/particles/{beam,particle_beam,parameter_beam}.py
and writes Gen/CloneGen.v:

  1. one `cls_rec` row (the record of Ops/ClassTableSpec.v) per exported Element subclass
       ctor_params / required   from the `__init__` signature (inherited from the AST-read base class when a class has none),
       features                 the `defining_features` property, translated LITERALLY (`gen_df_<Class>`): list displays of string
                                constants, `+`, `super().defining_features` (= gen_df_<Base>, base class read from the AST), local
                                names, `<name>.remove("c")` (df_remove) and `<name>.append("c")`,
       kinds                    kind of the constructor parameter of that name, from its ANNOTATION (torch.Tensor -> tensor,
                                Optional[X] -> X, Literal[str..] -> str, str, bool, int, tuple[..] -> tuple, list[Element] -> elements);
                                a feature that is no parameter gets "?not-a-parameter" (fails class_checked),
       echoed                   parameters the `__init__` body stores unchanged under their own name (table below),
       probe                    "ok" (anything not understood is a TranslationError instead),
     plus `gen_storage_<Class>`: for every parameter how it is stored ("attr" / "buffer" / "property:<slot>" / "forward" /
     "derived:<slot>").
  2. `gen_Element_clone`: Element.clone translated expression by expression (table below); `gen_RBend_clone` (the override:
     super().clone() followed by assignments of cloned attributes) over the face-angle model of Ops/CloneHistory.v; the set of
     classes overriding `clone` must be exactly {RBend, Segment}; `gen_Segment_clone`: Segment.clone
     (`Segment(elements=[x.clone() for x in self.elements], name=self.name)`: list_comp_opt, an exception of a child propagates).
  3. `gen_<Beam>_clone` and the keyword table `gen_<Beam>_clone_kwargs` (keyword, attribute read, `.clone()`d?) of
     ParticleBeam.clone / ParameterBeam.clone, with the constructor parameters, their kinds and the buffer each one is stored in.

STORAGE ANALYSIS of an `__init__` body (fail closed: every statement must be of one of these forms)
    docstring / assert                                         ignored (an assert can only reject)
    device, dtype = verify_device_and_dtype([...], device, dtype)   infrastructure
    [self.]factory_kwargs = {"device": device, "dtype": dtype}      infrastructure
    p = ECHO(p)                                                local normalisation of parameter p (keeps p an echo of itself)
    super().__init__(k=E, ...)                                 keyword k := E; E = p echoes p when k == p and the base class echoes p
    self.register_buffer("X", E) / self.register_buffer_or_parameter("X", E) / self.X = E      slot X := E
    any other statement                                        accepted only if it names no constructor parameter and stores to no
                                                               slot named like one
  ECHO(p) ::= p | torch.as_tensor(p, **kw) | p.to(**kw) | nn.ModuleList(p) | ECHO(p) if p is not None else <anything>
            | <anything> if p is None else ECHO(p)
  A parameter p is `echoed` iff   slot p := ECHO(p)                                            ("attr" / "buffer")
                                  (if the class has a property p, it must be the plain pair of the next line)
                             or   slot X := ECHO(p) and the class has `@property p: return self.X` with setter `self.X = value`
                             or   it is forwarded as k == p to a base class that echoes it     ("forward")
                             or   it is one of the DOCUMENTED EXCEPTIONS, whose exact source shape is checked:
        RBend.rbend_e1/2      forwarded as dipole_e1/2 = rbend_e1/2 + angle / 2, read back by `@property rbend_e1/2:
                              return self.dipole_e1/2 - self.angle / 2` (equal up to rounding; RBend.clone copies the stored angles)
        SpaceChargeKick.num_grid_points_x/y/tau   stored as self.grid_shape = (int(x), int(y), int(tau)), read back by
                              `@property num_grid_points_*: return self.grid_shape[i]`
  Anything else (a parameter never used, stored under another name without a property, stored twice, overwritten, forwarded under
  another keyword) is a TranslationError with file / line / reason.

EXPRESSION TABLE of Element.clone
    self.__class__(**D)                      call_class (ecls e) D        (Ops/ClassTableSpec.v construct; the "name" keyword lives in the tree)
    {K: W for x in self.defining_features [if x != "c"]}    dictcomp (fun x => (K, W)) [filtered] (features (ecls e))
    getattr(self, x)                         getattr other e x
    X.clone()                                tclone X
    deepcopy(X)                              deepcopy X
    isinstance(X, torch.Tensor)              is_tensor X
    A if T else B                            if T then A else B

Deterministic; nothing is read from or written to /tmp or /repo.  `generate(repo) -> (text, info)`; `main` writes the committed
copy coq/theories/Gen/CloneGen.v.
"""
import ast
import hashlib
import sys
from pathlib import Path

import translate_maps


class TranslationError(translate_maps.TranslateError):
    """file / line / reason (a translate_maps.TranslateError, so that the stages treat all translators alike)"""


ACC = "cheetah/accelerator"
PART = "cheetah/particles"
INFRA = ("device", "dtype")
BEAMS = (("ParticleBeam", "particle_beam.py", "pbeam", "mkpb",
          (("particles", "particles"), ("energy", "p_energy"), ("particle_charges", "particle_charges"),
           ("survival_probabilities", "survival_probabilities"))),
         ("ParameterBeam", "parameter_beam.py", "mbeam", "mkmb",
          (("mu", "mu"), ("cov", "cov"), ("energy", "m_energy"), ("total_charge", "total_charge"))))
SEGMENT_CLONE = "return Segment(elements=[element.clone() for element in self.elements], name=self.name)"
CLONE_OVERRIDES = {"RBend", "Segment"}


def cstr(s):
    if '"' in s or "\n" in s or not s.isprintable():
        raise TranslationError(f"string constant {s!r} cannot be printed as a Coq string")
    return '"' + s + '"'


def clist(xs):
    return "[" + "; ".join(xs) + "]"


def slist(xs):
    return clist([cstr(x) for x in xs])


def is_doc(s):
    return isinstance(s, ast.Expr) and isinstance(s.value, ast.Constant) and isinstance(s.value.value, str)


def names_in(node):
    return {n.id for n in ast.walk(node) if isinstance(n, ast.Name)}


def is_self_attr(node, attr=None):
    return isinstance(node, ast.Attribute) and isinstance(node.value, ast.Name) and node.value.id == "self" and (attr is None or node.attr == attr)


def is_super_call(node):
    return isinstance(node, ast.Call) and isinstance(node.func, ast.Name) and node.func.id == "super" and not node.args and not node.keywords


class Src:
    """the classes of a set of source files"""

    def __init__(self, repo):
        self.repo = Path(repo)
        self.classes = {}          # name -> (relative file, ClassDef)
        self.files = {}            # relative file -> text

    def load(self, rel):
        p = self.repo / rel
        try:
            text = p.read_text()
        except OSError as ex:
            raise TranslationError(f"cannot read source file: {ex}", rel, 0)
        try:
            tree = ast.parse(text)
        except SyntaxError as ex:
            raise TranslationError(f"syntax error: {ex.msg}", rel, ex.lineno or 0)
        self.files[rel] = text
        for node in tree.body:
            if isinstance(node, ast.ClassDef):
                if node.name in self.classes:
                    raise TranslationError(f"class {node.name} is defined twice", rel, node.lineno)
                self.classes[node.name] = (rel, node)
        return tree

    def err(self, cls, node, reason):
        rel = self.classes[cls][0] if cls in self.classes else cls
        return TranslationError(reason, rel, getattr(node, "lineno", 0))

    def base(self, cls):
        """the single base class that is itself a known class (None for a root)"""
        rel, node = self.classes[cls]
        known = []
        for b in node.bases:
            if isinstance(b, ast.Name):
                if b.id in self.classes:
                    known.append(b.id)
                elif b.id not in ("ABC",):
                    raise self.err(cls, b, f"base class {b.id} of {cls} is not among the translated sources")
            elif isinstance(b, ast.Attribute) and ast.unparse(b) == "nn.Module":
                pass
            else:
                raise self.err(cls, b, f"unrecognised base class expression {ast.unparse(b)}")
        if node.keywords:
            raise self.err(cls, node, "class keywords (metaclass ...) are not supported")
        if len(known) > 1:
            raise self.err(cls, node, f"multiple inheritance among translated classes: {known}")
        return known[0] if known else None

    def mro(self, cls):
        out, seen = [], set()
        while cls is not None:
            if cls in seen:
                raise self.err(cls, self.classes[cls][1], "cyclic inheritance")
            seen.add(cls)
            out.append(cls)
            cls = self.base(cls)
        return out

    def methods(self, cls, name):
        """FunctionDefs called `name` in the body of cls itself"""
        return [m for m in self.classes[cls][1].body if isinstance(m, (ast.FunctionDef, ast.AsyncFunctionDef)) and m.name == name]

    def find(self, cls, name, pred=lambda m: True):
        """(owner, FunctionDef) of the first definition along the hierarchy"""
        for c in self.mro(cls):
            ms = [m for m in self.methods(c, name) if pred(m)]
            if len(ms) > 1:
                raise self.err(c, ms[1], f"{c}.{name} is defined twice")
            if ms:
                return c, ms[0]
        return None, None


def decorators(m):
    return [ast.unparse(d) for d in m.decorator_list]


# ------------------------------------------------------------------------------------------------ signatures
def ann_kind(src, cls, arg):
    a = arg.annotation
    if a is None:
        if arg.arg in INFRA:
            return "infra"
        raise src.err(cls, arg, f"parameter {arg.arg} of {cls}.__init__ has no annotation")

    def kind(n):
        if isinstance(n, ast.Attribute) and ast.unparse(n) == "torch.Tensor":
            return "tensor"
        if isinstance(n, ast.Name) and n.id in ("str", "bool", "int", "tuple"):
            return n.id
        if isinstance(n, ast.Subscript) and isinstance(n.value, ast.Name):
            head = n.value.id
            if head == "Optional":
                return kind(n.slice)
            if head == "tuple":
                return "tuple"
            if head == "Literal":
                elts = n.slice.elts if isinstance(n.slice, ast.Tuple) else [n.slice]
                if elts and all(isinstance(e, ast.Constant) and isinstance(e.value, str) for e in elts):
                    return "str"
            if head == "list" and isinstance(n.slice, ast.Name) and n.slice.id == "Element":
                return "elements"
        raise src.err(cls, arg, f"annotation {ast.unparse(a)} of parameter {arg.arg} is not in the annotation table")
    return kind(a)


def signature(src, cls):
    """(owner, FunctionDef, [(name, kind, required)])"""
    owner, m = src.find(cls, "__init__")
    if m is None:
        raise src.err(cls, src.classes[cls][1], f"{cls} has no __init__ along its (translated) hierarchy")
    a = m.args
    if a.posonlyargs or a.vararg or a.kwarg:
        raise src.err(owner, m, f"{owner}.__init__ has positional-only / *args / **kwargs parameters")
    if decorators(m):
        raise src.err(owner, m, f"{owner}.__init__ is decorated")
    if not a.args or a.args[0].arg != "self":
        raise src.err(owner, m, f"first parameter of {owner}.__init__ is not self")
    pos = a.args[1:]
    ndef = len(a.defaults)
    if ndef > len(pos):
        raise src.err(owner, m, "self has a default")
    out = []
    for i, p in enumerate(pos):
        out.append((p.arg, ann_kind(src, owner, p), i < len(pos) - ndef))
    for p, d in zip(a.kwonlyargs, a.kw_defaults):
        out.append((p.arg, ann_kind(src, owner, p), d is None))
    names = [n for n, _, _ in out]
    if len(set(names)) != len(names):
        raise src.err(owner, m, "duplicate parameter")
    return owner, m, out


# ------------------------------------------------------------------------------------------------ defining_features
def translate_df(src, cls, df_of):
    """(coq expression, concrete list) of cls's OWN defining_features property; df_of(base) gives the base's concrete list"""
    ms = src.methods(cls, "defining_features")
    if len(ms) != 1:
        raise src.err(cls, ms[1] if ms else src.classes[cls][1], f"{cls}.defining_features is defined {len(ms)} times")
    m = ms[0]
    decs = decorators(m)
    if "property" not in decs or any(d not in ("property", "abstractmethod") for d in decs):
        raise src.err(cls, m, f"{cls}.defining_features: decorators {decs} (expected @property)")
    if [x.arg for x in m.args.args] != ["self"] or m.args.vararg or m.args.kwarg or m.args.kwonlyargs:
        raise src.err(cls, m, "defining_features takes parameters")
    base = src.base(cls)
    env, lets = {}, []

    def lexpr(n):
        if isinstance(n, ast.List):
            vals = []
            for e in n.elts:
                if not (isinstance(e, ast.Constant) and isinstance(e.value, str)):
                    raise src.err(cls, e, f"defining_features: list element {ast.unparse(e)} is not a string constant")
                vals.append(e.value)
            return slist(vals), vals
        if isinstance(n, ast.Attribute) and n.attr == "defining_features" and is_super_call(n.value):
            if base is None:
                raise src.err(cls, n, "super().defining_features in a class without translated base")
            return f"gen_df_{base}", list(df_of(base))
        if isinstance(n, ast.Name):
            if n.id not in env:
                raise src.err(cls, n, f"defining_features: unknown name {n.id}")
            return n.id, list(env[n.id])
        if isinstance(n, ast.BinOp) and isinstance(n.op, ast.Add):
            (lc, lv), (rc, rv) = lexpr(n.left), lexpr(n.right)
            return f"({lc} ++ {rc})", lv + rv
        raise src.err(cls, n, f"defining_features: expression {ast.unparse(n)} is not in the list-expression table")

    body = [s for s in m.body if not is_doc(s)]
    for k, s in enumerate(body):
        if isinstance(s, ast.Return):
            if k != len(body) - 1 or s.value is None:
                raise src.err(cls, s, "defining_features: return must be the last statement and return a list")
            c, v = lexpr(s.value)
            coq = "".join(f"let {n} := {e} in\n  " for n, e in lets) + c
            return coq, v
        if isinstance(s, ast.Assign) and len(s.targets) == 1 and isinstance(s.targets[0], ast.Name):
            c, v = lexpr(s.value)
            env[s.targets[0].id] = v
            lets.append((s.targets[0].id, c))
            continue
        if isinstance(s, ast.Expr) and isinstance(s.value, ast.Call) and isinstance(s.value.func, ast.Attribute) \
                and isinstance(s.value.func.value, ast.Name) and s.value.func.value.id in env and s.value.func.attr in ("remove", "append") \
                and len(s.value.args) == 1 and not s.value.keywords and isinstance(s.value.args[0], ast.Constant) and isinstance(s.value.args[0].value, str):
            n, c = s.value.func.value.id, s.value.args[0].value
            if s.value.func.attr == "remove":
                if c not in env[n]:
                    raise src.err(cls, s, f"defining_features: {n}.remove({c!r}) raises ValueError ({c!r} is not in the list)")
                env[n] = list(env[n])
                env[n].remove(c)
                lets.append((n, f"df_remove {cstr(c)} {n}"))
            else:
                env[n] = env[n] + [c]
                lets.append((n, f"({n} ++ [{cstr(c)}])"))
            continue
        raise src.err(cls, s, f"defining_features: statement `{ast.unparse(s)[:80]}` is not in the statement table")
    raise src.err(cls, m, "defining_features: no return statement")


# ------------------------------------------------------------------------------------------------ storage analysis
def is_echo(n, p):
    """ECHO(p) of the docstring"""
    if isinstance(n, ast.Name):
        return n.id == p
    if isinstance(n, ast.Call):
        f = ast.unparse(n.func)
        star = [k for k in n.keywords if k.arg is None]
        named = [k for k in n.keywords if k.arg is not None]
        if f == "torch.as_tensor" and len(n.args) == 1 and not named and len(star) <= 1:
            return is_echo(n.args[0], p)
        if f == "nn.ModuleList" and len(n.args) == 1 and not n.keywords:
            return is_echo(n.args[0], p)
        if isinstance(n.func, ast.Attribute) and n.func.attr == "to" and not n.args and not named and len(star) == 1:
            return is_echo(n.func.value, p)
        return False
    if isinstance(n, ast.IfExp) and isinstance(n.test, ast.Compare) and len(n.test.ops) == 1 and isinstance(n.test.left, ast.Name) \
            and n.test.left.id == p and isinstance(n.test.comparators[0], ast.Constant) and n.test.comparators[0].value is None:
        if isinstance(n.test.ops[0], ast.IsNot):
            return is_echo(n.body, p)
        if isinstance(n.test.ops[0], ast.Is):
            return is_echo(n.orelse, p)
    return False


def prop_slot(src, cls, p):
    """slot X when cls (or a base) has `@property p: return self.X` and `@p.setter: self.X = value`; else None"""
    _, g = src.find(cls, p, lambda m: "property" in decorators(m))
    _, s = src.find(cls, p, lambda m: f"{p}.setter" in decorators(m))
    if g is None or s is None:
        return None
    gb = [x for x in g.body if not is_doc(x)]
    sb = [x for x in s.body if not is_doc(x)]
    if len(gb) == 1 and isinstance(gb[0], ast.Return) and is_self_attr(gb[0].value) and len(sb) == 1 and isinstance(sb[0], ast.Assign) \
            and len(sb[0].targets) == 1 and is_self_attr(sb[0].targets[0], gb[0].value.attr) and isinstance(sb[0].value, ast.Name) \
            and len(s.args.args) == 2 and sb[0].value.id == s.args.args[1].arg:
        return gb[0].value.attr
    return None


def getter_text(src, cls, p):
    _, g = src.find(cls, p, lambda m: "property" in decorators(m))
    if g is None:
        return None
    return "; ".join(ast.unparse(x) for x in g.body if not is_doc(x))


def analyse_init(src, cls, memo):
    """{param: (how, detail)} for the non-infrastructure parameters of cls's constructor (memoised)"""
    if cls in memo:
        return memo[cls]
    owner, m, sig = signature(src, cls)
    if owner != cls:
        memo[cls] = analyse_init(src, owner, memo)
        return memo[cls]
    params = [n for n, _, _ in sig]
    settable = [n for n in params if n not in INFRA]
    slots = {}            # slot -> (expr, stmt)
    forwards = None       # keyword -> expr
    base = src.base(cls)

    def store(slot, expr, stmt):
        if slot in slots:
            raise src.err(cls, stmt, f"{cls}.__init__ stores slot {slot!r} twice")
        slots[slot] = (expr, stmt)

    def stores_in(stmt):
        """every slot a (compound) statement stores to"""
        out = []
        for n in ast.walk(stmt):
            if isinstance(n, (ast.Assign, ast.AugAssign, ast.AnnAssign)):
                tg = n.targets if isinstance(n, ast.Assign) else [n.target]
                for t in tg:
                    for u in ast.walk(t):
                        if is_self_attr(u):
                            out.append(u.attr)
            if isinstance(n, ast.Call) and is_self_attr(n.func) and n.func.attr in ("register_buffer", "register_buffer_or_parameter", "register_parameter", "__setattr__") \
                    or isinstance(n, ast.Call) and isinstance(n.func, ast.Name) and n.func.id == "setattr":
                out.append("<dynamic>")
        return out

    for s in m.body:
        if is_doc(s) or isinstance(s, ast.Assert):
            continue
        txt = ast.unparse(s)
        if isinstance(s, ast.Assign) and len(s.targets) == 1:
            t, v = s.targets[0], s.value
            if ast.unparse(t) in ("device, dtype", "(device, dtype)") and isinstance(v, ast.Call) and ast.unparse(v.func) == "verify_device_and_dtype":
                continue
            if ast.unparse(t) in ("factory_kwargs", "self.factory_kwargs") and ast.unparse(v) == "{'device': device, 'dtype': dtype}":
                continue
            if isinstance(t, ast.Name) and t.id in settable:
                if not is_echo(v, t.id):
                    raise src.err(cls, s, f"{cls}.__init__ rebinds parameter {t.id} to something that is not an echo of it: {txt[:80]}")
                if forwards is not None or any(t.id in names_in(e) for e, _ in slots.values()):
                    pass                                    # later uses see the normalised value: still an echo
                continue
            if is_self_attr(t):
                store(t.attr, v, s)
                continue
        if isinstance(s, ast.Expr) and isinstance(s.value, ast.Call):
            c = s.value
            if isinstance(c.func, ast.Attribute) and c.func.attr == "__init__" and is_super_call(c.func.value):
                if forwards is not None:
                    raise src.err(cls, s, "super().__init__ is called twice")
                if c.args or any(k.arg is None for k in c.keywords):
                    raise src.err(cls, s, "super().__init__ with positional or ** arguments")
                forwards = {k.arg: k.value for k in c.keywords}
                continue
            if is_self_attr(c.func) and c.func.attr in ("register_buffer", "register_buffer_or_parameter"):
                if len(c.args) != 2 or c.keywords or not (isinstance(c.args[0], ast.Constant) and isinstance(c.args[0].value, str)):
                    raise src.err(cls, s, f"unrecognised register_buffer call: {txt[:80]}")
                store(c.args[0].value, c.args[1], s)
                continue
        # anything else: must not touch a parameter or a slot named like one
        used = names_in(s) & set(settable)
        st = stores_in(s)
        if used or "<dynamic>" in st or set(st) & set(settable):
            raise src.err(cls, s, f"{cls}.__init__: statement `{txt[:80]}` uses constructor parameter(s) {sorted(used)} / stores to {sorted(set(st))} "
                                  "in a way that is not in the storage table")
        for x in st:
            if x in slots:
                raise src.err(cls, s, f"{cls}.__init__ stores slot {x!r} twice")
    if forwards is None:
        raise src.err(cls, m, f"{cls}.__init__ does not call super().__init__")
    base_info = analyse_init(src, base, memo) if base is not None else {}
    if base is not None:
        bparams = [n for n, _, _ in signature(src, base)[2]]
        for k in forwards:
            if k not in bparams:
                raise src.err(cls, m, f"{cls}.__init__ forwards keyword {k!r} that {base}.__init__ does not declare")
    elif forwards:
        raise src.err(cls, m, f"{cls}.__init__ passes keywords to a base class that is not translated")

    info = {}
    for p in settable:
        uses_slot = [x for x, (e, _) in slots.items() if p in names_in(e)]
        uses_fwd = [k for k, e in forwards.items() if p in names_in(e)]
        where = slots[uses_slot[0]][1] if uses_slot else m
        exc = exception_shape(src, cls, p, slots, forwards)
        if exc is not None:
            info[p] = exc
            continue
        echo_slots = [x for x in uses_slot if is_echo(slots[x][0], p)]
        echo_fwd = [k for k in uses_fwd if is_echo(forwards[k], p)]
        if p in slots and p not in echo_slots:
            raise src.err(cls, slots[p][1], f"{cls}.__init__: slot {p!r} is not set from parameter {p!r} (it is `{ast.unparse(slots[p][0])[:60]}`)")
        if p in echo_slots:
            call = slots[p][1].value if isinstance(slots[p][1], ast.Expr) else None
            info[p] = ("buffer" if call is not None else "attr", p)
            if src.find(cls, p, lambda m: "property" in decorators(m))[1] is not None:
                # `self.p = p` goes through a property: it must be a plain getter/setter pair over one slot
                x = prop_slot(src, cls, p)
                if x is None:
                    raise src.err(cls, slots[p][1], f"{cls}.__init__ stores parameter {p!r} through a property {p!r} that is not a plain "
                                                    "`return self.X` / `self.X = value` pair")
                info[p] = ("property:" + x, x)
        elif p in echo_fwd:
            if p not in base_info:
                raise src.err(cls, m, f"{cls}.__init__ forwards {p!r} to {base}.__init__, which does not store it")
            info[p] = ("forward", base)
        elif echo_slots:
            hit = [x for x in echo_slots if prop_slot(src, cls, p) == x]
            if not hit:
                raise src.err(cls, where, f"{cls}.__init__ stores parameter {p!r} under another name ({echo_slots}) and no property {p!r} "
                                          "with a plain getter/setter pair reads it back")
            info[p] = ("property:" + hit[0], hit[0])
        elif echo_fwd:
            raise src.err(cls, m, f"{cls}.__init__ forwards parameter {p!r} under another keyword ({echo_fwd})")
        elif uses_slot or uses_fwd:
            raise src.err(cls, where, f"{cls}.__init__ stores parameter {p!r} only in derived form ({uses_slot + uses_fwd}) and it is not a documented exception")
        else:
            raise src.err(cls, m, f"{cls}.__init__ neither stores nor forwards parameter {p!r}")
        # the same parameter must not ALSO leak into a slot named like another parameter
    for x, (e, st) in slots.items():
        if x in settable:
            continue
        if x in base_info and base is not None and x not in ("length",):
            raise src.err(cls, st, f"{cls}.__init__ overwrites slot {x!r}, which {base}.__init__ sets from its parameter")
    # a forwarded keyword k whose value is not the parameter k itself changes what the base class stores under k
    for k, e in forwards.items():
        if k in INFRA:
            if not (isinstance(e, ast.Name) and e.id == k):
                raise src.err(cls, m, f"{cls}.__init__ forwards {k} = {ast.unparse(e)}")
            continue
        if not (k in settable and is_echo(e, k)) and not any(info[p][0].startswith("derived") and info[p][1] == k for p in info):
            raise src.err(cls, m, f"{cls}.__init__ forwards {k} = `{ast.unparse(e)[:60]}`, which is not the parameter {k!r}")
    memo[cls] = info
    return info


def exception_shape(src, cls, p, slots, forwards):
    """the documented exceptions; their exact shape is checked (fail closed)"""
    if cls == "RBend" and p in ("rbend_e1", "rbend_e2"):
        d = "dipole_e" + p[-1]
        want_fwd, want_get = f"{p} + angle / 2", f"return self.{d} - self.angle / 2"
        got_fwd = ast.unparse(forwards[d]) if d in forwards else None
        got_get = getter_text(src, cls, p)
        if got_fwd != want_fwd or got_get != want_get or any(p in names_in(e) for e, _ in slots.values()) \
                or [k for k, e in forwards.items() if p in names_in(e)] != [d]:
            raise src.err(cls, src.classes[cls][1], f"RBend.{p}: documented exception (forwarded as {d} = {want_fwd}; getter `{want_get}`) "
                                                    f"no longer has that shape (forward: {got_fwd}; getter: {got_get})")
        return ("derived:" + d, d)
    if cls == "SpaceChargeKick" and p.startswith("num_grid_points_"):
        want = "(int(num_grid_points_x), int(num_grid_points_y), int(num_grid_points_tau))"
        idx = {"x": 0, "y": 1, "tau": 2}.get(p[len("num_grid_points_"):])
        got = ast.unparse(slots["grid_shape"][0]) if "grid_shape" in slots else None
        got_get = getter_text(src, cls, p)
        others = [x for x, (e, _) in slots.items() if p in names_in(e) and x != "grid_shape"] + [k for k, e in forwards.items() if p in names_in(e)]
        if idx is None or got != want or got_get != f"return self.grid_shape[{idx}]" or others:
            raise src.err(cls, src.classes[cls][1], f"SpaceChargeKick.{p}: documented exception (grid_shape = {want}; getter self.grid_shape[i]) "
                                                    f"no longer has that shape (grid_shape: {got}; getter: {got_get}; other uses: {others})")
        return ("derived:grid_shape", "grid_shape")
    return None


# ------------------------------------------------------------------------------------------------ Element.clone
def translate_element_clone(src):
    cls = "Element"
    ms = src.methods(cls, "clone")
    if len(ms) != 1:
        raise src.err(cls, src.classes[cls][1], f"Element.clone is defined {len(ms)} times")
    m = ms[0]
    if decorators(m) or [a.arg for a in m.args.args] != ["self"]:
        raise src.err(cls, m, "Element.clone: decorators / parameters")
    body = [s for s in m.body if not is_doc(s)]
    if len(body) != 1 or not isinstance(body[0], ast.Return) or body[0].value is None:
        raise src.err(cls, m, "Element.clone: expected a single return statement")

    def val(n, var):
        """value expressions (type V / bool)"""
        if isinstance(n, ast.Call):
            f = n.func
            if isinstance(f, ast.Name) and f.id == "getattr" and len(n.args) == 2 and not n.keywords and isinstance(n.args[0], ast.Name) \
                    and n.args[0].id == "self" and isinstance(n.args[1], ast.Name) and n.args[1].id == var:
                return f"(getattr other e {var})"
            if isinstance(f, ast.Attribute) and f.attr == "clone" and not n.args and not n.keywords:
                return f"(tclone {val(f.value, var)})"
            if isinstance(f, ast.Name) and f.id == "deepcopy" and len(n.args) == 1 and not n.keywords:
                return f"(deepcopy {val(n.args[0], var)})"
            if isinstance(f, ast.Name) and f.id == "isinstance" and len(n.args) == 2 and not n.keywords and ast.unparse(n.args[1]) == "torch.Tensor":
                return f"(is_tensor {val(n.args[0], var)})"
        if isinstance(n, ast.IfExp):
            return f"(if {val(n.test, var)} then {val(n.body, var)} else {val(n.orelse, var)})"
        raise src.err(cls, n, f"Element.clone: expression `{ast.unparse(n)[:70]}` is not in the expression table")

    r = body[0].value
    if not (isinstance(r, ast.Call) and is_self_attr(r.func, "__class__") and not r.args and len(r.keywords) == 1 and r.keywords[0].arg is None):
        raise src.err(cls, r, "Element.clone: expected `self.__class__(**{...})`")
    d = r.keywords[0].value
    if not (isinstance(d, ast.DictComp) and len(d.generators) == 1):
        raise src.err(cls, d, "Element.clone: expected a dict comprehension with one generator")
    g = d.generators[0]
    if not (isinstance(g.target, ast.Name) and not g.is_async and is_self_attr(g.iter, "defining_features")):
        raise src.err(cls, d, "Element.clone: the comprehension must run `for <name> in self.defining_features`")
    var = g.target.id
    if var in ("e", "other", "tclone", "deepcopy", "is_tensor", "dflt", "V") or not var.isidentifier():
        raise src.err(cls, d, f"comprehension variable {var!r} clashes with a name of the generated text")
    if not (isinstance(d.key, ast.Name) and d.key.id == var):
        raise src.err(cls, d.key, "Element.clone: the key of the comprehension must be the loop variable")
    conds = []
    for c in g.ifs:
        if isinstance(c, ast.Compare) and len(c.ops) == 1 and isinstance(c.ops[0], ast.NotEq) and isinstance(c.left, ast.Name) and c.left.id == var \
                and isinstance(c.comparators[0], ast.Constant) and isinstance(c.comparators[0].value, str):
            conds.append(f"negb (String.eqb {var} {cstr(c.comparators[0].value)})")
        else:
            raise src.err(cls, c, f"Element.clone: condition `{ast.unparse(c)}` is not in the expression table")
    feats = "(features (ecls e))"
    if conds:
        feats = f"(List.filter (fun {var} => {' && '.join(conds)}) {feats})"
    coq = f"call_class dflt (ecls e)\n    (dictcomp (fun {var} => ({var}, {val(d.value, var)}))\n       {feats})"
    return m, coq


def translate_segment_clone(src, elems):
    """the set of classes overriding clone() is pinned; Segment.clone is translated (list comprehension of `<x>.clone()`)"""
    over = {c for c in elems if src.methods(c, "clone")}
    if over != CLONE_OVERRIDES:
        c = sorted(over ^ CLONE_OVERRIDES)[0]
        raise src.err(c, src.classes[c][1], f"the classes overriding clone() are {sorted(over)}, expected {sorted(CLONE_OVERRIDES)}")
    cls = "Segment"
    ms = src.methods(cls, "clone")
    if len(ms) != 1:
        raise src.err(cls, ms[1], "Segment.clone is defined twice")
    m = ms[0]
    body = [s for s in m.body if not is_doc(s)]
    if decorators(m) or [a.arg for a in m.args.args] != ["self"] or len(body) != 1 or not isinstance(body[0], ast.Return):
        raise src.err(cls, m, f"Segment.clone: expected the single statement `{SEGMENT_CLONE}`")
    r = body[0].value
    if not (isinstance(r, ast.Call) and (isinstance(r.func, ast.Name) and r.func.id == "Segment" or is_self_attr(r.func, "__class__")) and not r.args
            and sorted(k.arg or "**" for k in r.keywords) == ["elements", "name"]):
        raise src.err(cls, body[0], "Segment.clone: expected `Segment(elements=..., name=...)`")
    kw = {k.arg: k.value for k in r.keywords}
    if not is_self_attr(kw["name"], "name"):
        raise src.err(cls, kw["name"], f"Segment.clone: name=`{ast.unparse(kw['name'])[:50]}` is not self.name")
    lc = kw["elements"]
    if not (isinstance(lc, ast.ListComp) and len(lc.generators) == 1 and isinstance(lc.generators[0].target, ast.Name) and not lc.generators[0].ifs
            and not lc.generators[0].is_async and is_self_attr(lc.generators[0].iter, "elements")):
        raise src.err(cls, lc, "Segment.clone: elements must be `[<expr> for <x> in self.elements]`")
    x = lc.generators[0].target.id
    if x in ("eclone", "name", "elements", "V") or not x.isidentifier():
        raise src.err(cls, lc, f"comprehension variable {x!r} clashes with a name of the generated text")
    e = lc.elt
    if not (isinstance(e, ast.Call) and isinstance(e.func, ast.Attribute) and e.func.attr == "clone" and isinstance(e.func.value, ast.Name)
            and e.func.value.id == x and not e.args and not e.keywords):
        raise src.err(cls, e, f"Segment.clone: element expression `{ast.unparse(e)[:50]}` is not `{x}.clone()`")
    coq = f"option_map (fun els => Sg name els)\n    (list_comp_opt (fun {x} => eclone {x}) elements)"
    return m, coq


BATTR = {"angle": "Angle", "dipole_e1": "DipoleE1", "dipole_e2": "DipoleE2", "rbend_e1": "RbendE1", "rbend_e2": "RbendE2"}


def translate_rbend_clone(src):
    cls = "RBend"
    m = src.methods(cls, "clone")[0]
    if decorators(m) or [a.arg for a in m.args.args] != ["self"]:
        raise src.err(cls, m, "RBend.clone: decorators / parameters")
    body = [s for s in m.body if not is_doc(s)]
    if len(body) < 2:
        raise src.err(cls, m, "RBend.clone: expected `<v> = super().clone()` ... `return <v>`")
    s0 = body[0]
    if not (isinstance(s0, ast.Assign) and len(s0.targets) == 1 and isinstance(s0.targets[0], ast.Name) and isinstance(s0.value, ast.Call)
            and isinstance(s0.value.func, ast.Attribute) and s0.value.func.attr == "clone" and is_super_call(s0.value.func.value)
            and not s0.value.args and not s0.value.keywords):
        raise src.err(cls, s0, "RBend.clone: the first statement must be `<v> = super().clone()`")
    v = s0.targets[0].id
    lines, kw = [f"let {v} := hclone (bend V) battr V (bget V sub half) (rbend_init V add half) copy s in"], []
    for s in body[1:-1]:
        ok = isinstance(s, ast.Assign) and len(s.targets) == 1 and isinstance(s.targets[0], ast.Attribute) and isinstance(s.targets[0].value, ast.Name) \
            and s.targets[0].value.id == v and s.targets[0].attr in BATTR
        if not ok:
            raise src.err(cls, s, f"RBend.clone: statement `{ast.unparse(s)[:70]}` is not `{v}.<face-angle attribute> = ...`")
        e, cloned = s.value, False
        if isinstance(e, ast.Call) and isinstance(e.func, ast.Attribute) and e.func.attr == "clone" and not e.args and not e.keywords:
            e, cloned = e.func.value, True
        if not (is_self_attr(e) and e.attr in BATTR):
            raise src.err(cls, s, f"RBend.clone: right-hand side `{ast.unparse(s.value)[:60]}` is not self.<face-angle attribute>[.clone()]")
        rhs = f"bget V sub half {BATTR[e.attr]} s"
        rhs = f"copy ({rhs})" if cloned else f"({rhs})"
        lines.append(f"let {v} := bset V add half {BATTR[s.targets[0].attr]} ({rhs}) {v} in")
        kw.append((s.targets[0].attr, e.attr, cloned))
    r = body[-1]
    if not (isinstance(r, ast.Return) and isinstance(r.value, ast.Name) and r.value.id == v):
        raise src.err(cls, r, f"RBend.clone: the last statement must be `return {v}`")
    return m, "\n  ".join(lines) + f"\n  {v}", kw


# ------------------------------------------------------------------------------------------------ beams
def translate_beam(src, cls, fields):
    owner, init, sig = signature(src, cls)
    if owner != cls:
        raise src.err(cls, src.classes[cls][1], f"{cls} has no __init__ of its own")
    params = [(n, k) for n, k, _ in sig if n not in INFRA]
    if [n for n, _ in params] != [f for f, _ in fields]:
        raise src.err(cls, init, f"constructor parameters of {cls} are {[n for n, _ in params]}; the model record {fields} would have to be extended")
    pnames = [n for n, _ in params]
    # storage: register_buffer("X", ECHO(p)) ; local normalisation p = ECHO(p)
    stores = {}
    for s in init.body:
        if is_doc(s) or isinstance(s, ast.Assert):
            continue
        if isinstance(s, ast.Assign) and len(s.targets) == 1:
            t, v = ast.unparse(s.targets[0]), s.value
            if t in ("device, dtype", "(device, dtype)") and isinstance(v, ast.Call) and ast.unparse(v.func) == "verify_device_and_dtype":
                continue
            if t == "factory_kwargs" and ast.unparse(v) == "{'device': device, 'dtype': dtype}":
                continue
            if t in pnames and is_echo(v, t):
                continue
        if isinstance(s, ast.Expr) and isinstance(s.value, ast.Call):
            c = s.value
            if isinstance(c.func, ast.Attribute) and c.func.attr == "__init__" and is_super_call(c.func.value) and not c.args and not c.keywords:
                continue
            if is_self_attr(c.func, "register_buffer") and len(c.args) == 2 and not c.keywords and isinstance(c.args[0], ast.Constant) \
                    and isinstance(c.args[0].value, str):
                hit = [p for p in pnames if is_echo(c.args[1], p)]
                used = names_in(c.args[1]) & set(pnames)
                if len(hit) != 1:
                    if used:
                        raise src.err(cls, s, f"{cls}.__init__: buffer {c.args[0].value!r} is not an echo of one constructor parameter")
                    continue
                if hit[0] in stores or c.args[0].value in stores.values():
                    raise src.err(cls, s, f"{cls}.__init__: parameter {hit[0]!r} / buffer {c.args[0].value!r} is stored twice")
                stores[hit[0]] = c.args[0].value
                continue
        raise src.err(cls, s, f"{cls}.__init__: statement `{ast.unparse(s)[:80]}` is not in the storage table")
    for p in pnames:
        if p not in stores:
            raise src.err(cls, init, f"{cls}.__init__ does not store parameter {p!r} in a buffer")
    # clone
    ms = src.methods(cls, "clone")
    if len(ms) != 1:
        raise src.err(cls, src.classes[cls][1], f"{cls}.clone is defined {len(ms)} times")
    m = ms[0]
    body = [s for s in m.body if not is_doc(s)]
    if decorators(m) or [a.arg for a in m.args.args] != ["self"] or len(body) != 1 or not isinstance(body[0], ast.Return):
        raise src.err(cls, m, f"{cls}.clone: expected a single return statement")
    r = body[0].value
    if not (isinstance(r, ast.Call) and (isinstance(r.func, ast.Name) and r.func.id == cls or is_self_attr(r.func, "__class__")) and not r.args):
        raise src.err(cls, body[0], f"{cls}.clone: expected `{cls}(<keyword arguments>)`")
    slot_of = {b: p for p, b in stores.items()}
    kwargs = []
    for k in r.keywords:
        if k.arg is None or k.arg in INFRA or k.arg not in pnames:
            raise src.err(cls, k.value, f"{cls}.clone passes keyword {k.arg!r}, which is not a data parameter of the constructor")
        if k.arg in [x[0] for x in kwargs]:
            raise src.err(cls, k.value, f"{cls}.clone passes keyword {k.arg!r} twice")
        e, cloned = k.value, False
        if isinstance(e, ast.Call) and isinstance(e.func, ast.Attribute) and e.func.attr == "clone" and not e.args and not e.keywords:
            e, cloned = e.func.value, True
        if not is_self_attr(e):
            raise src.err(cls, k.value, f"{cls}.clone: value `{ast.unparse(k.value)[:60]}` of keyword {k.arg!r} is not self.<attribute>[.clone()]")
        if e.attr not in slot_of:
            raise src.err(cls, k.value, f"{cls}.clone: self.{e.attr} is not a buffer the constructor stores a parameter in")
        kwargs.append((k.arg, e.attr, cloned))
    fld = dict(fields)
    args = []
    for p in pnames:
        hit = [x for x in kwargs if x[0] == p]
        if not hit:
            args.append(f"(bdflt {cstr(p)})")
        else:
            proj = f"{fld[slot_of[hit[0][1]]]} V b"
            args.append(f"(copy ({proj}))" if hit[0][2] else f"({proj})")
    return init, m, params, stores, kwargs, args


# ------------------------------------------------------------------------------------------------ generate
def _sha(s):
    return hashlib.sha256(s.encode()).hexdigest()


def _seg(src, rel, node):
    return ast.get_source_segment(src.files[rel], node) or ""


def exported(src):
    tree = src.load("cheetah/__init__.py")
    names = None
    for n in tree.body:
        if isinstance(n, ast.ImportFrom) and n.module == "accelerator" and n.level == 1:
            if names is not None:
                raise TranslationError("two `from .accelerator import` statements", "cheetah/__init__.py", n.lineno)
            if any(a.asname or a.name == "*" for a in n.names):
                raise TranslationError("`from .accelerator import` with * or `as`", "cheetah/__init__.py", n.lineno)
            names = [a.name for a in n.names]
    if names is None:
        raise TranslationError("no `from .accelerator import (...)` statement", "cheetah/__init__.py", 0)
    return names


def generate(repo_path):
    src = Src(repo_path)
    exp = exported(src)
    acc = sorted(p.name for p in (Path(repo_path) / ACC).glob("*.py") if p.name != "__init__.py")
    if "element.py" not in acc:
        raise TranslationError("element.py not found", ACC, 0)
    for f in acc:
        src.load(f"{ACC}/{f}")
    acc_classes = set(src.classes)
    if "Element" not in src.classes:
        raise TranslationError("class Element not found", f"{ACC}/element.py", 0)
    for f in ("beam.py", "particle_beam.py", "parameter_beam.py"):
        src.load(f"{PART}/{f}")
    elems = sorted(c for c in acc_classes if c != "Element" and "Element" in src.mro(c))
    for c in exp:
        if c not in elems:
            raise TranslationError(f"exported name {c} is not an Element subclass defined in {ACC}", "cheetah/__init__.py", 0)
    for c in elems:
        if c not in exp:
            raise src.err(c, src.classes[c][1], f"Element subclass {c} is not exported by cheetah/__init__.py (the live table would not list it)")

    info, out = [], []
    w = out.append
    w("(** GENERATED by harness/translate_clone.py from the source text of cheetah/accelerator/*.py and cheetah/particles/*.py.\n"
      "    DO NOT EDIT: regenerated on every run of the C15 check; the committed copy only serves the full build.\n"
      "    Reading, tables and the fail-closed rules: docstring of harness/translate_clone.py. *)")
    w("From Coq Require Import List Bool String.")
    w("From Cheetah Require Import Ops.ClassTableSpec Ops.Json Ops.Clone Ops.CloneHistory Gen.CloneGenBase.")
    w("Import ListNotations.\nOpen Scope string_scope.\n")

    # ---- defining_features, literally
    df = {}

    def df_of(c):
        return df[c]
    order = ["Element"] + sorted(elems, key=lambda c: (len(src.mro(c)), c))
    w("(* ---------------------------------------------------------------- defining_features, class by class *)")
    for c in order:
        if src.methods(c, "defining_features"):
            coq, val = translate_df(src, c, df_of)
        else:
            b = src.base(c)
            coq, val = f"gen_df_{b}", list(df[b])
        df[c] = val
        w(f"Definition gen_df_{c} : list string :=\n  {coq}.")
    w("")

    # ---- rows
    memo = {}
    w("(* ---------------------------------------------------------------- constructor signatures, storage, rows *)")
    for c in elems:
        owner, init, sig = signature(src, c)
        st = analyse_init(src, c, memo)
        params = [n for n, _, _ in sig]
        req = [n for n, _, r in sig if r]
        ann = [(n, k) for n, k, _ in sig if k != "infra"]
        echoed = [n for n in params if n in st]
        w(f"Definition gen_annot_{c} : list (string * string) :=\n  " + clist([f"({cstr(n)}, {cstr(k)})" for n, k in ann]) + ".")
        w(f"Definition gen_storage_{c} : list (string * string) :=\n  " + clist([f"({cstr(n)}, {cstr(st[n][0])})" for n in params if n in st]) + ".")
        w(f"Definition gen_row_{c} : cls_rec :=\n  mkcls {cstr(c)} {slist(params)} {slist(req)}\n    gen_df_{c} (kinds_from gen_annot_{c} gen_df_{c})\n"
          f"    {slist(echoed)} \"ok\".")
        rel, node = src.classes[c]
        dfm = src.methods(c, "defining_features")
        text = _seg(src, src.classes[owner][0], init) + "\n" + (_seg(src, rel, dfm[0]) if dfm else "")
        info.append(dict(function=f"{c}.__init__/defining_features", file=rel, first_line=node.lineno, last_line=node.end_lineno,
                         source_sha256=_sha(text), coq_name=f"gen_row_{c}", coq_sha256=_sha(out[-1]), has_precondition=False))
    w("Definition gen_table : list cls_rec :=\n  " + clist([f"gen_row_{c}" for c in elems]) + ".")
    w("Definition gen_storage : list (string * list (string * string)) :=\n  " + clist([f"({cstr(c)}, gen_storage_{c})" for c in elems]) + ".\n")

    # ---- Segment.clone
    m, coq = translate_segment_clone(src, elems)
    w("(* ---------------------------------------------------------------- Segment.clone (self = Sg name elements; eclone = <child>.clone()) *)")
    w("Definition gen_Segment_clone (V : Type) (eclone : tree (element V) -> option (tree (element V)))\n"
      f"    (name : string) (elements : list (tree (element V))) : option (tree (element V)) :=\n  {coq}.\n")
    rel = src.classes["Segment"][0]
    info.append(dict(function="Segment.clone", file=rel, first_line=m.lineno, last_line=m.end_lineno, source_sha256=_sha(_seg(src, rel, m)),
                     coq_name="gen_Segment_clone", coq_sha256=_sha(coq), has_precondition=False))

    # ---- Element.clone
    m, coq = translate_element_clone(src)
    w("(* ---------------------------------------------------------------- Element.clone *)")
    w("Section ElementClone.\nVariable V : Type.\nVariable dflt : cls_rec -> string -> V.\nVariable other : cls_rec -> list (string * V) -> string -> V.")
    w("Variables (is_tensor : V -> bool) (tclone deepcopy : V -> V).")
    w(f"Definition gen_Element_clone (e : element V) : option (element V) :=\n  {coq}.\nEnd ElementClone.\n")
    rel = src.classes["Element"][0]
    info.append(dict(function="Element.clone", file=rel, first_line=m.lineno, last_line=m.end_lineno, source_sha256=_sha(_seg(src, rel, m)),
                     coq_name="gen_Element_clone", coq_sha256=_sha(coq), has_precondition=False))

    # ---- RBend.clone
    m, coq, kw = translate_rbend_clone(src)
    w("(* ---------------------------------------------------------------- RBend.clone (face-angle state of Ops/CloneHistory.v) *)")
    w("Section RBendClone.\nVariable V : Type.\nVariables (add sub : V -> V -> V) (half : V -> V) (copy : V -> V).")
    w(f"Definition gen_RBend_clone (s : bend V) : bend V :=\n  {coq}.\nEnd RBendClone.")
    w("Definition gen_RBend_clone_sets : list (string * (string * bool)) :=\n  "
      + clist([f"({cstr(a)}, ({cstr(b)}, {'true' if c else 'false'}))" for a, b, c in kw]) + ".\n")
    rel = src.classes["RBend"][0]
    info.append(dict(function="RBend.clone", file=rel, first_line=m.lineno, last_line=m.end_lineno, source_sha256=_sha(_seg(src, rel, m)),
                     coq_name="gen_RBend_clone", coq_sha256=_sha(coq), has_precondition=False))

    # ---- beams
    w("(* ---------------------------------------------------------------- ParticleBeam.clone / ParameterBeam.clone *)")
    for cls, f, rec, mk, fields in BEAMS:
        if cls not in src.classes or src.classes[cls][0] != f"{PART}/{f}":
            raise TranslationError(f"class {cls} not found", f"{PART}/{f}", 0)
        init, m, params, stores, kwargs, args = translate_beam(src, cls, fields)
        w(f"Definition gen_{cls}_ctor : list (string * string) :=\n  " + clist([f"({cstr(n)}, {cstr(k)})" for n, k in params]) + ".")
        w(f"Definition gen_{cls}_stores : list (string * string) :=\n  " + clist([f"({cstr(n)}, {cstr(stores[n])})" for n, _ in params]) + ".")
        w(f"Definition gen_{cls}_clone_kwargs : list (string * (string * bool)) :=\n  "
          + clist([f"({cstr(a)}, ({cstr(b)}, {'true' if c else 'false'}))" for a, b, c in kwargs]) + ".")
        body = f"{mk} V " + " ".join(args)
        w(f"Definition gen_{cls}_clone (V : Type) (copy : V -> V) (bdflt : string -> V) (b : {rec} V) : {rec} V :=\n  {body}.")
        rel = src.classes[cls][0]
        info.append(dict(function=f"{cls}.clone", file=rel, first_line=m.lineno, last_line=m.end_lineno,
                         source_sha256=_sha(_seg(src, rel, init) + "\n" + _seg(src, rel, m)), coq_name=f"gen_{cls}_clone", coq_sha256=_sha(body),
                         has_precondition=False))
    return "\n".join(out) + "\n", info


def main(argv):
    repo = argv[1] if len(argv) > 1 else "/repo"
    text, info = generate(repo)
    dest = Path(__file__).resolve().parent.parent / "coq" / "theories" / "Gen" / "CloneGen.v"
    dest.write_text(text)
    print(f"wrote {dest} ({len(text)} bytes, {len(info)} translated items, sha256 {_sha(text)[:16]})")
    return 0


if __name__ == "__main__":
    try:
        sys.exit(main(sys.argv))
    except TranslationError as ex:
        print(f"TranslationError: {ex}")
        sys.exit(2)
