"""Self-test of the source-to-Coq translator stage for C15 (harness/translate_clone.py, translate_stage_clone.py).

Copies /repo's `cheetah` package to the scratch directory /tmp/agent-clone/repo (removed afterwards; /repo is never touched), points
VERIF_REPO at the copy and runs translator_obligation_clone on
  * the unchanged copy                                   -> must be ok
  * one-line SEMANTIC mutations                          -> must be translator_failed or equivalence_broken
  * COSMETIC edits                                       -> must be ok
  * the seeded patches /verif/seeded/C15-*/patch.diff    -> informational (which of them this stage notices)
Usage:  PYTHONPATH=/verif/harness /venv/bin/python harness/translate_clone_selftest.py [--only substring] [--no-seeded]
Exit status 0 iff every expectation holds.
"""
import os
import shutil
import subprocess
import sys
import time
from pathlib import Path

SCRATCH = Path("/tmp/agent-clone")
COPY = SCRATCH / "repo"
os.environ["VERIF_REPO"] = str(COPY)
sys.path.insert(0, str(Path(__file__).resolve().parent))
import common  # noqa: E402
import translate_stage_clone as stage  # noqa: E402

ACC, PAR = "cheetah/accelerator/", "cheetah/particles/"
EL, QD, DR, SC, UN, RB, SK, DP, MK = (ACC + x for x in ("element.py", "quadrupole.py", "drift.py", "screen.py", "undulator.py", "rbend.py",
                                                        "space_charge_kick.py", "dipole.py", "marker.py"))
PB, MB = PAR + "particle_beam.py", PAR + "parameter_beam.py"

# (id, expectation, file, old, new, description); `old` must occur exactly once unless count is given as 7th item
MUTATIONS = [
    ("S01", "detect", QD, '            "num_steps",\n            "tracking_method",\n        ]', '            "tracking_method",\n        ]',
     "Quadrupole.defining_features: num_steps dropped (F12 back)"),
    ("S02", "detect", UN, 'return super().defining_features + ["length", "is_active"]', 'return super().defining_features + ["length"]',
     "Undulator.defining_features: is_active dropped (F12 back)"),
    ("S03", "detect", SC, '            "is_blocking",\n', '', "Screen.defining_features: is_blocking dropped (F12 back)"),
    ("S04", "detect", DR, 'tracking_method: Literal["cheetah", "bmadx"] = "cheetah",', 'method: Literal["cheetah", "bmadx"] = "cheetah",',
     "Drift.__init__: parameter tracking_method renamed (body no longer finds it)"),
    ("S05", "detect", DR, "self.tracking_method = tracking_method", "self.method = tracking_method", "Drift.__init__: tracking_method stored as self.method"),
    ("S06", "detect", QD, "self.num_steps = num_steps", "self.num_steps = 1", "Quadrupole.__init__: num_steps ignored"),
    ("S07", "detect", EL, "getattr(self, feature).clone()\n", "getattr(self, feature)\n", "Element.clone: tensors no longer cloned (aliasing)"),
    ("S08", "detect", EL, "else deepcopy(getattr(self, feature))", "else getattr(self, feature)", "Element.clone: non-tensors no longer deep-copied"),
    ("S09", "detect", EL, "for feature in self.defining_features\n", 'for feature in self.defining_features if feature != "length"\n',
     "Element.clone: length not passed"),
    ("S10", "detect", PB, "energy=self.energy.clone(),\n            particle_charges", "energy=self.energy,\n            particle_charges",
     "ParticleBeam.clone: energy aliased"),
    ("S11", "detect", PB, "particle_charges=self.particle_charges.clone(),", "particle_charges=self.survival_probabilities.clone(),",
     "ParticleBeam.clone: wrong attribute passed"),
    ("S12", "detect", PB, "            survival_probabilities=self.survival_probabilities.clone(),\n        )\n\n    def __getitem__", "        )\n\n    def __getitem__",
     "ParticleBeam.clone: survival_probabilities not passed (seeded C15-2)"),
    ("S13", "detect", MB, "cov=self._cov.clone(),", "cov=self._cov,", "ParameterBeam.clone: cov aliased"),
    ("S14", "detect", MB, "total_charge=self.total_charge.clone(),\n        )\n\n    def __repr__", "total_charge=self.energy.clone(),\n        )\n\n    def __repr__",
     "ParameterBeam.clone: total_charge := energy"),
    ("S15", "detect", RB, "clone.dipole_e2 = self.dipole_e2.clone()", "clone.dipole_e2 = self.dipole_e1.clone()", "RBend.clone: e2 := e1"),
    ("S16", "detect", RB, "dipole_e1=rbend_e1 + angle / 2,", "dipole_e1=rbend_e1 - angle / 2,", "RBend.__init__: sign of the face-angle offset"),
    ("S17", "detect", RB, '        dipole_features.remove("dipole_e2")\n', "", "RBend.defining_features: dipole_e2 kept (TypeError in clone)"),
    ("S18", "detect", SK, "int(num_grid_points_y),\n            int(num_grid_points_tau),", "int(num_grid_points_tau),\n            int(num_grid_points_y),",
     "SpaceChargeKick.__init__: grid_shape entries swapped"),
    ("S19", "detect", DP, "    def dipole_e1(self) -> torch.Tensor:\n        return self._e1", "    def dipole_e1(self) -> torch.Tensor:\n        return self._e2",
     "Dipole.dipole_e1 getter reads _e2"),
    ("S20", "detect", ACC + "segment.py", "elements=[element.clone() for element in self.elements], name=self.name",
     "elements=[element for element in self.elements], name=self.name", "Segment.clone: children shared, not cloned"),
    ("S21", "detect", ACC + "segment.py", "elements=[element.clone() for element in self.elements], name=self.name",
     "elements=[element.clone() for element in self.elements[1:]], name=self.name", "Segment.clone: first child dropped"),
    ("N01", "detect", QD, "        length: torch.Tensor,\n        k1: Optional[torch.Tensor] = None,", "        length: torch.Tensor = None,\n        k1: Optional[torch.Tensor] = None,",
     "Quadrupole.__init__: length becomes optional (required list differs from the pinned/live row: table still ok?)"),
    # ------------------------------------------------------------------------------------------------ cosmetic
    ("K01", "ok", EL, '        """Create a copy of the element which does not share the underlying memory."""\n', '        """Copy."""\n', "Element.clone docstring"),
    ("K02", "ok", QD, "        self.num_steps = num_steps\n", "        # number of steps\n        self.num_steps = num_steps\n", "comment in Quadrupole.__init__"),
    ("K03", "ok", UN, 'return super().defining_features + ["length", "is_active"]', 'return super().defining_features + [\n            "length",\n            "is_active",\n        ]',
     "Undulator.defining_features reformatted"),
    ("K04", "ok", PB, "            particles=self.particles.clone(),\n            energy=self.energy.clone(),\n", "            energy=self.energy.clone(),\n            particles=self.particles.clone(),\n",
     "ParticleBeam.clone: keyword order"),
    ("K05", "ok", MK, "super().__init__(name=name)", "super().__init__(name=name)\n        self._marker_note = None", "Marker.__init__: an unrelated private attribute"),
    ("K06", "ok", EL, "        return self.track(incoming)", "        out = self.track(incoming)\n        return out", "Element.forward rewritten (not translated)"),
]
# N01 is not an error of clone(): the class still passes table_ok; it is listed to document that `required` alone is compared with the
# live table only (live_rows), so here the expectation is "ok".
MUTATIONS = [m if m[0] != "N01" else (m[0], "ok") + m[2:] for m in MUTATIONS]


def describe(r):
    if r["status"] == "ok":
        return "ok"
    if r["status"] == "translator_failed":
        return f"translator_failed {r.get('file')}:{r.get('line')} {str(r.get('reason'))[:110]}"
    if r["status"] == "equivalence_broken":
        return f"equivalence_broken {r.get('file')}:{r.get('line')} {r.get('lemma')}"
    return f"{r['status']} {str(r.get('reason'))[:120]}"


def fresh_copy():
    shutil.rmtree(COPY, ignore_errors=True)
    COPY.mkdir(parents=True)
    shutil.copytree("/repo/cheetah", COPY / "cheetah", ignore=shutil.ignore_patterns("__pycache__"))


def main():
    only = sys.argv[sys.argv.index("--only") + 1] if "--only" in sys.argv else None
    t0 = time.time()
    bad = 0
    counts = {"detect": [0, 0], "ok": [0, 0]}
    try:
        fresh_copy()
        assert str(common.REPO) == str(COPY), f"common.REPO is {common.REPO}"
        r0 = stage.translator_obligation_clone()
        print(f"unchanged copy: {describe(r0)}  [{r0['wall_s']} s]  lemmas {len(r0['lemmas'])} theorems {len(r0['theorems'])} axioms {r0['axioms']}")
        if r0["status"] != "ok":
            return 1
        for m in MUTATIONS:
            if only and only not in m[0] and only not in m[5]:
                continue
            path = COPY / m[2]
            text = path.read_text()
            if text.count(m[3]) != 1:
                print(f"{m[0]:4} FAIL  pattern occurs {text.count(m[3])} times in {m[2]}")
                bad += 1
                continue
            path.write_text(text.replace(m[3], m[4]))
            try:
                r = stage.translator_obligation_clone()
            finally:
                path.write_text(text)
            good = (r["status"] in ("translator_failed", "equivalence_broken")) if m[1] == "detect" else r["status"] == "ok"
            bad += 0 if good else 1
            counts[m[1]][0] += 1
            counts[m[1]][1] += 1 if good else 0
            same = ""
            if r["status"] == "ok":
                same = "  (generated text identical)" if r.get("generated_sha256") == r0["generated_sha256"] else "  (generated text differs: proofs absorb it)"
            print(f"{m[0]:4} {m[1]:6} {'PASS' if good else 'FAIL'}  {describe(r) + same:150} | {m[5]}  [{r['wall_s']} s]", flush=True)
        r1 = stage.translator_obligation_clone()
        if r1["status"] != "ok" or r1["generated_sha256"] != r0["generated_sha256"]:
            print("FAIL: the scratch copy was not restored faithfully")
            bad += 1
        if "--no-seeded" not in sys.argv and not only:
            print("\nseeded patches (informational):")
            for pd in sorted((common.VERIF / "seeded").glob("C15-*/patch.diff")):
                fresh_copy()
                pr = subprocess.run(["patch", "-p1", "-s", "-d", str(COPY), "-i", str(pd)], capture_output=True, text=True)
                if pr.returncode != 0:
                    print(f"{pd.parent.name:6} patch does not apply: {(pr.stdout + pr.stderr)[-200:]}")
                    continue
                r = stage.translator_obligation_clone()
                print(f"{pd.parent.name:6} {'DETECTED' if r['status'] in ('translator_failed', 'equivalence_broken') else 'not seen'}  {describe(r)}", flush=True)
        print(f"\nsemantic mutations detected {counts['detect'][1]}/{counts['detect'][0]}, cosmetic edits accepted {counts['ok'][1]}/{counts['ok'][0]}")
        print(f"self-test finished in {round(time.time() - t0, 1)} s: {'ALL EXPECTATIONS HOLD' if not bad else str(bad) + ' FAILED'}")
    finally:
        shutil.rmtree(COPY, ignore_errors=True)
    return 1 if bad else 0


if __name__ == "__main__":
    sys.exit(main())
