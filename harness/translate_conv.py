"""translate_conv -- regenerate a Coq transcription of cheetah's lattice CONVERTERS and LatticeJSON code from /repo's SOURCE TEXT.

Second tie for C13 (importers) and C14 (LatticeJSON): the functions listed below are read with Python's `ast` (nothing of
cheetah is imported or executed) and translated, statement by statement, into Coq definitions (`Gen/ConvGen.v`).
`Gen/ConvGenEquiv.v` proves, function by function, that the generated definition coincides with the hand-written model
(Parse/LatticeLang.v, Parse/Lines.v, Ops/Json.v: the REPAIRED variants, /repo contains the repairs F18a/b, F40-F43, F11);
the final statements are in `Gen/ConvGenProps.v`.  A semantic edit of a translated function changes the generated term and a
lemma stops compiling; an edit that uses syntax outside the fragment below makes the translator FAIL (TranslateError with
reason, file, line).  Nothing is skipped silently.

TRUSTED BASE (this text is quoted in DESIGN.md).  Trusted is exactly: Python's `ast`, the READING and the CONSTRUCT TABLE below,
the definitions of Gen/ConvGenBase.v (dict operations, number arithmetic, the regex subset, the CONSTRUCTOR TABLE `ctor`, the
line/string primitives), the SPECS (which functions, the types of their parameters) and the Coq kernel.

Translated (SPECS, in this order):
  converters/utils/fortran_namelist.py
                          validate_understood_properties      -> gen_validate_understood_properties
  converters/bmad.py      convert_element                     -> gen_bmad_convert_element + one definition per branch of the
                                                                 element-type dispatch (gen_bmad_convert_element__<type>, __otherwise)
  converters/elegant.py   convert_element                     -> gen_elegant_convert_element (+ gen_elegant_convert_element__<types>)
  converters/bmad.py / elegant.py   convert_lattice_to_cheetah: the three merge passes, their order, delimiters and flags, that
                          the first reads `lines = read_clean_lines(..)` and parse_lines gets the last -> gen_{bmad,elegant}_merge_passes
  converters/utils/fortran_namelist.py  (PINS, not translations)
                          define_element: the regex literal   -> gen_define_element_pattern : string
                          merge_delimiter_continued_lines: sha256 of the normalised AST -> gen_merge_delimiter_continued_lines_ast_sha256
  latticejson.py          convert_element, convert_segment, parse_element, parse_segment
                                                              -> gen_lj_convert_element, gen_lj_convert_segment, gen_lj_parse_element,
                                                                 gen_lj_parse_segment (a Section generic in the value layer)
NOT translated (stay tested-only, as C13 / C14 declare): read_clean_lines, evaluate_expression, assign_property, assign_variable,
  define_element beyond its pattern, define_line, define_overlay, parse_use_line, parse_lines, resolve_object_name_wildcard (regex,
  `eval`, file access); save_cheetah_model / load_cheetah_model (document layout, json text layer); converters/nxtables.py.

READING.
  * Numbers: a Python float/int of a parsed lattice file is one binary64 value (`float` of Coq's PrimFloat; ints below 2^53
    are the float of the same value, as in Parse/LatticeLang.v); + - * / are IEEE operations (PrimFloat primitives).
    Literals are emitted exactly (integers as `k%float`, other values in hexadecimal).
  * Values: `pv` = VN number | VS str | VNone | VMat 2-d tensor.  Exceptions: every generated definition returns `option T`
    (`None` = some exception; WHICH exception is not recorded); evaluation order is Python's (left to right, keyword
    arguments in source order).
  * Dicts: the parsed `context` is LatticeLang.v's `ctx`, an element dict its `props` (association lists, newest binding
    first): d[k] -> getitem d k (KeyError = None); d.get(k, c) -> get_default d k c (c a literal); k in d -> contains d k;
    `for p in d` -> dict_keys d.  isinstance(x, list) / isinstance(x, dict) -> is_list x / is_dict x on the context value;
    INSIDE the guarded branch x is read as `as_list x` / `as_dict x` (any dict/list use of x outside such a branch fails).
  * torch.tensor(e) with e a number -> torch_tensor e = round to nearest even binary32 (the constructors are called with
    dtype=dtype whose default is torch.float32; `device=device, dtype=dtype` keywords must be exactly these names and are
    bookkeeping); on a str it raises.  Arithmetic (`2 * e`, `e / 2`, `e - 90`, `-e`, `a * b`, np.degrees(e), np.pi) is accepted
    only inside the argument of torch.tensor and raises on a str operand (int * str would be a str, which torch.tensor rejects).
    np.inf / torch.inf -> infinity.
  * cheetah.<Class>(k=v, .., name=n, device=device, dtype=dtype) -> ctor "<Class>" n [("k", v); ..]  (ConvGenBase.ctor: the
    constructor table - parameter names, the class defaults for missing keywords, fringe_integral_exit=None -> fringe_integral,
    RBend's e + angle/2 on binary32 tensors; keyword ORDER is irrelevant, an unknown keyword or class raises).
    cheetah.Segment(elements=l, name=n) -> mk_segment n l.
  * The recursive call convert_element(x, context, device, dtype) (same context/device/dtype names) -> rec x: the generated
    definition takes `rec` as a parameter (open recursion); the lemma instantiates it with the model's `expand_v` at the
    smaller fuel.
  * validate_understood_properties([patterns], d) -> the generated gen_validate_understood_properties (re.fullmatch restricted
    to patterns made of literal characters and [a-b] ranges: ConvGenBase.re_fullmatch; a pattern without any regex
    metacharacter is `Plain`, i.e. string equality; other metacharacters fail).
  * print(..) is a no-op whose arguments are NOT evaluated in the reading (warnings of the fallback branches).
  * f"..{i + 1}.." -> string append with py_str_nat; range(k) -> py_range k; torch.zeros((r, c), ..) -> torch_zeros r c;
    R[:r, :c] = t -> set_block; R[:r, j] = t -> set_col (shape mismatch = None).

CONSTRUCT TABLE (statements).
    "docstring"                       nothing
    x = e                             x' <- [e] ;; ..   /  let x' := e in ..          (fresh binder per assignment)
    if c: A [elif/else: B] ; rest     if [c] then [A; rest] else [B; rest]   (rest is dropped behind a branch that ends in
                                      return/raise; subexpressions of c that can raise are bound in front)
    return e                          [e]  (Some t for a pure t)
    raise X(..)                       None
    assert c, ".."                    if [c] then .. else None
    for / while                       only the loop shapes listed with the functions that use them (see LOOPS below)
    anything else                     TranslateError

  LatticeJSON reading: an Element object is Json.v's `tree P` (leaf: name + payload; Segment: name + elements);
    isinstance(x, cheetah.Segment) -> is_segment x; x.elements -> seg_elements x (None on a leaf); x.name -> tname x; in the else
    branch of the isinstance test x is a leaf whose attributes are read through leaf_payload: element.__class__.__name__ ->
    class_name p, element.defining_features -> defining_features p, getattr(element, f) -> getattr_ p f (Section variables, like
    feature2nontorch, nontorch2feature, the entry [class, params] = mk_entry / entry_class / entry_params, getattr(cheetah, c) =
    cheetah_class c, element_class(name=name, **params) = construct).  Dicts that are written and merged are Json.v's association
    lists (newest first): {} -> [], d[k] = v -> dict_set, d.update(e) -> dict_update, d[k] -> lookup (KeyError = None), k in d ->
    dict_has; {k: e for k in l if c} -> dict_of_items (map .. (filter .. l)); {k: f(v) for k, v in d.items()} -> map.
    lattice_dict["elements"] / ["lattices"] of the loaded document -> the two tables E / LL (lattice_dict must be passed on unchanged).
    LOOPS: `for x in xs: body` -> foldM over the tuple of the local variables (bound before the loop) that the body assigns or
    mutates (.append, .update, item assignment); `if c: A else: B; rest` duplicates rest into both branches (join).  The recursive
    call is the parameter `rec` (open recursion): the lemmas instantiate it with Json.v's conv / parse at the smaller fuel.

NOT covered: float32 arithmetic inside cheetah's constructors beyond the ctor table; which exception is raised; `print` output; dtype
other than the default; evaluation of the assertion message of validate_understood_properties; the regex / `eval` / file front end
(see NOT translated; re.fullmatch of the validation lists is the subset matcher of ConvGenBase, checked to be the model's string
equality on plain patterns and [ematrix_key] on the two ematrix patterns); the JSON text layer (json.dumps / json.load,
CompactJSONEncoder); feature2nontorch / nontorch2feature and the class table (C14's regenerated class-table obligations).
Statements of the lemmas (Gen/ConvGenEquiv.v): per branch `gen_<dialect>_convert_element__<type> name ps = <model> name "<type>" ps`
for ALL ps (ematrix: under [ematrix_entries_numeric], the code and the model read the 42 entries in different orders); the dispatch
and the whole step `gen_*_convert_element (expand_v .. f ..) c name = expand_v .. (S f) .. c name` under [type_not_number] (a numeric
"element_type" is a modelling error of LatticeLang.v: the code falls through to the Drift fallback, [convert_v] says None).
"""
import ast
import hashlib
import re
import sys
from pathlib import Path

from translate_maps import TranslateError, Module, COQ_KEYWORDS

BMAD = "cheetah/converters/bmad.py"
ELEGANT = "cheetah/converters/elegant.py"
NAMELIST = "cheetah/converters/utils/fortran_namelist.py"
LJSON = "cheetah/latticejson.py"

HEADER = """(** GENERATED by harness/translate_conv.py from the source text of cheetah's converters. DO NOT EDIT.
    The committed copy only serves the full build; every check run regenerates this file from the working tree of /repo
    and compiles Gen/ConvGenEquiv.v and Gen/ConvGenProps.v against the fresh copy. *)
From Coq Require Import List String Ascii Bool ZArith PrimFloat Arith.
From Cheetah.Parse Require Import LatticeLang Lines.
From Cheetah.Ops Require Import Json.
From Cheetah.Gen Require Import ConvGenBase.
Import ListNotations.
Open Scope string_scope.

"""
FOOTER = ""

ORIGINS = {
    "cheetah": ("import", "cheetah"),
    "torch": ("import", "torch"),
    "np": ("import", "numpy as np"),
    "re": ("import", "re"),
    "json": ("import", "json"),
    "validate_understood_properties": ("from", "cheetah.converters.utils.fortran_namelist"),
    "merge_delimiter_continued_lines": ("from", "cheetah.converters.utils.fortran_namelist"),
    "read_clean_lines": ("from", "cheetah.converters.utils.fortran_namelist"),
    "parse_lines": ("from", "cheetah.converters.utils.fortran_namelist"),
    "deepcopy": ("from", "copy"),
}
BASE_NAMES = {"rec", "ctor", "get", "has", "mem", "guard", "half", "drift", "dipole", "cavity", "corrector", "aperture", "zero", "one", "two",
              "infinity", "collect", "map", "seq", "fst", "snd", "length", "pat", "mat", "pv", "props", "ctx", "getitem", "contains",
              "None", "Some", "string", "list", "option", "float", "nat", "bool", "true", "false", "eval", "step", "run", "keys", "opt", "req",
              "star", "glob", "understood", "convert", "expand", "denote", "leaves", "idx", "midx", "str", "strip", "lower", "clean", "tree",
              "dict", "lookup", "conv", "parse", "load", "save", "document", "names", "depth", "flat", "segs"}


def coq_string(s, mod, node):
    if not isinstance(s, str) or any(ord(c) < 32 or ord(c) > 126 for c in s):
        mod.fail(node, f"string literal {s!r} is not printable ASCII")
    return '"' + s.replace('"', '""') + '"'


def coq_float(x, mod, node):
    if isinstance(x, bool) or not isinstance(x, (int, float)):
        mod.fail(node, f"literal {x!r} is not a number")
    if isinstance(x, int):
        if not 0 <= x < 2 ** 53:
            mod.fail(node, f"integer literal {x} outside [0, 2^53)")
        return f"{x}%float"
    if x != x:
        mod.fail(node, "nan literal")
    if x in (float("inf"), float("-inf")):
        mod.fail(node, "inf literal")
    if x < 0 or (x == 0 and str(x).startswith("-")):
        mod.fail(node, "negative literal")
    if x == int(x) and x < 2 ** 53:
        return f"{int(x)}%float"
    return f"{x.hex()}%float"


class Val:
    def __init__(self, t, ty):
        self.t, self.ty = t, ty


PLAIN_RE = re.compile(r"^[A-Za-z0-9_%]*$")


def coq_pattern(p, mod, node):
    """A validation pattern: Plain (no regex metacharacter) or a sequence of literals and [a-b] ranges."""
    if PLAIN_RE.match(p):
        return f"Plain {coq_string(p, mod, node)}"
    items, i = [], 0
    while i < len(p):
        c = p[i]
        if c == "[":
            m = re.match(r"\[([A-Za-z0-9])-([A-Za-z0-9])\]", p[i:])
            if not m:
                mod.fail(node, f"pattern {p!r}: only [a-b] character ranges are in the regex subset")
            items.append(f'PRange "{m.group(1)}"%char "{m.group(2)}"%char')
            i += m.end()
        elif re.match(r"[A-Za-z0-9_%]", c):
            items.append(f'PLit "{c}"%char')
            i += 1
        else:
            mod.fail(node, f"pattern {p!r}: regex metacharacter {c!r} is outside the regex subset")
    return "Rx [" + "; ".join(items) + "]"


class Fn:
    """Translator of one function of the expression/branch fragment (convert_element of both dialects)."""

    def __init__(self, mod, f, coq_name):
        self.mod, self.f, self.coq_name = mod, f, coq_name
        self.used = set(BASE_NAMES) | {"properties"}
        self.in_tensor = 0
        self.outlined, self.outlined_names = [], set()

    def fail(self, node, reason):
        self.mod.fail(node, reason)

    def fresh(self, py):
        base = py if re.match(r"^[A-Za-z_][A-Za-z0-9_]*$", py) else "v"
        if base in COQ_KEYWORDS or base.startswith("gen_") or base == "_":
            base += "_"
        name, k = base, 0
        while name in self.used:
            k += 1
            name = f"{base}_{k}"
        self.used.add(name)
        return name

    def origin(self, name, node):
        b = self.mod.bind.get(name, [])
        want = ORIGINS.get(name)
        if want is None:
            self.fail(node, f"global name {name!r} is not part of the translated fragment")
        if len(b) != 1 or (b[0][0], b[0][1]) != want:
            self.fail(node, f"global name {name!r} must be bound exactly once by `{want[0]} {want[1]}`")

    @staticmethod
    def wrap(pre, body):
        out = body
        for b, m in reversed(pre):
            out = f"{b} <- {m} ;;\n{out}" if b != "!let" else f"{m}\n{out}"
        return out

    def mbind(self, pre, m, ty, hint="v"):
        b = self.fresh(hint)
        pre.append((b, m))
        return Val(b, ty)

    # ------------------------------------------------------------------ expressions
    def ev(self, n, env, pre):
        h = getattr(self, "e_" + type(n).__name__, None)
        if h is None:
            self.fail(n, f"expression {type(n).__name__} is outside the translated fragment")
        return h(n, env, pre)

    def evm(self, n, env):
        """The expression as a monadic term (own scope for what can raise): (text, type)."""
        pre = []
        v = self.ev(n, env, pre)
        if pre and pre[-1][0] == v.t:
            m = pre.pop()[1]
            return self.wrap(pre, m), v.ty
        return self.wrap(pre, f"Some {self.atom(v.t)}"), v.ty

    @staticmethod
    def atom(t):
        return t if re.match(r"^[\w']+$", t) or (t.startswith("(") and t.endswith(")")) or t.startswith('"') or t.startswith("[") else f"({t})"

    def e_Constant(self, n, env, pre):
        v = n.value
        if isinstance(v, str):
            return Val(coq_string(v, self.mod, n), "str")
        if v is None:
            return Val("VNone", "pv")
        if isinstance(v, bool):
            return Val("true" if v else "false", "bool")
        return Val(f"(VN {coq_float(v, self.mod, n)})", "pv")

    def e_Name(self, n, env, pre):
        if n.id not in env:
            self.fail(n, f"name {n.id!r} is not a local variable of the translated function")
        return env[n.id]

    def e_Attribute(self, n, env, pre):
        if isinstance(n.value, ast.Name) and n.value.id not in env:
            mod, a = n.value.id, n.attr
            if (mod, a) in (("np", "inf"), ("torch", "inf")):
                self.origin(mod, n)
                return Val("(VN infinity)", "pv")
            if (mod, a) == ("np", "pi"):
                self.origin(mod, n)
                if not self.in_tensor:
                    self.fail(n, "arithmetic outside the argument of torch.tensor")
                return Val("np_pi", "pv")
        self.fail(n, f"attribute {ast.unparse(n)} is outside the translated fragment")

    def const_str(self, n, what):
        if not (isinstance(n, ast.Constant) and isinstance(n.value, str)):
            self.fail(n, f"{what} must be a string literal")
        return coq_string(n.value, self.mod, n)

    def e_Subscript(self, n, env, pre):
        d = self.ev(n.value, env, pre)
        if d.ty == "dict":
            k = self.ev(n.slice, env, pre)
            if k.ty != "str":
                self.fail(n, "dict key must be a string")
            return self.mbind(pre, f"getitem {self.atom(d.t)} {self.atom(k.t)}", "pv")
        if d.ty == "ctx":
            k = self.ev(n.slice, env, pre)
            if k.ty != "str":
                self.fail(n, "context key must be a string")
            return self.mbind(pre, f"ctx_getitem {self.atom(d.t)} {self.atom(k.t)}", "cval")
        self.fail(n, f"subscript of a value of type {d.ty} (a dict use outside an isinstance(.., dict) branch?)")

    def e_UnaryOp(self, n, env, pre):
        if isinstance(n.op, ast.USub):
            if not self.in_tensor:
                self.fail(n, "arithmetic outside the argument of torch.tensor")
            a = self.ev(n.operand, env, pre)
            if a.ty != "pv":
                self.fail(n, "unary minus on a non-number")
            return self.mbind(pre, f"py_neg {self.atom(a.t)}", "pv")
        if isinstance(n.op, ast.Not):
            a = self.ev(n.operand, env, pre)
            if a.ty != "bool":
                self.fail(n, "`not` on a non-boolean")
            return Val(f"(negb {self.atom(a.t)})", "bool")
        self.fail(n, "unary operator outside the fragment")

    def e_BinOp(self, n, env, pre):
        if (isinstance(n.op, ast.Add) and isinstance(n.left, ast.Name) and env.get(n.left.id) is not None and env[n.left.id].ty == "nat"
                and isinstance(n.right, ast.Constant) and type(n.right.value) is int and 0 <= n.right.value < 100):
            return Val(f"({env[n.left.id].t} + {n.right.value})%nat", "nat")
        a = self.ev(n.left, env, pre)
        b = self.ev(n.right, env, pre)
        if isinstance(n.op, ast.Add) and a.ty == b.ty == "str":
            return Val(f"({a.t} ++ {b.t})", "str")
        if isinstance(n.op, ast.Add) and a.ty == b.ty == "nat":
            return Val(f"({a.t} + {b.t})%nat", "nat")
        ops = {ast.Mult: "py_mul", ast.Sub: "py_sub", ast.Div: "py_div", ast.Add: "py_add"}
        if type(n.op) in ops and a.ty == b.ty == "pv":
            if not self.in_tensor:
                self.fail(n, "arithmetic outside the argument of torch.tensor")
            return self.mbind(pre, f"{ops[type(n.op)]} {self.atom(a.t)} {self.atom(b.t)}", "pv")
        self.fail(n, f"binary operator {type(n.op).__name__} on ({a.ty}, {b.ty}) is outside the fragment")

    def e_BoolOp(self, n, env, pre):
        t, _ = self.cond(n, env, pre)
        return Val(t, "bool")

    def cond(self, n, env, pre):
        """A condition: (bool term, environment refined by the isinstance tests that hold in the true branch)."""
        if isinstance(n, ast.BoolOp) and isinstance(n.op, ast.And):
            terms, e = [], env
            for k, x in enumerate(n.values):
                p2 = []
                t, e = self.cond(x, e, p2)
                if p2 and k > 0:
                    self.fail(x, "a later operand of `and` can raise: outside the fragment")
                pre.extend(p2)
                terms.append(t)
            return "(" + " && ".join(terms) + ")", e
        if isinstance(n, ast.Call) and isinstance(n.func, ast.Name) and n.func.id == "isinstance" and n.func.id not in env:
            if len(n.args) != 2 or n.keywords or not isinstance(n.args[0], ast.Name) or not isinstance(n.args[1], ast.Name):
                self.fail(n, "isinstance(..) form outside the fragment")
            x, cls = n.args[0].id, n.args[1].id
            v = env.get(x)
            if v is None or v.ty != "cval" or cls not in ("list", "dict") or cls in env:
                self.fail(n, "isinstance is read only on a value of the parsed context against list / dict")
            e = dict(env)
            e[x] = Val(f"(as_{cls} {v.t})", "strlist" if cls == "list" else "dict")
            e["!raw_" + x] = v
            return f"is_{cls} {v.t}", e
        v = self.ev(n, env, pre)
        if v.ty != "bool":
            self.fail(n, f"condition of type {v.ty}")
        return v.t, env

    def e_IfExp(self, n, env, pre):
        p2 = []
        c, etrue = self.cond(n.test, env, p2)
        pre.extend(p2)
        a, ta = self.evm(n.body, etrue)
        b, tb = self.evm(n.orelse, env)
        if ta != tb:
            self.fail(n, f"branches of the conditional expression have types {ta} / {tb}")
        return self.mbind(pre, f"(if {c} then ({a}) else ({b}))", ta)

    def str_list(self, n, what):
        if not isinstance(n, ast.List) or not all(isinstance(x, ast.Constant) and isinstance(x.value, str) for x in n.elts):
            self.fail(n, f"{what} must be a list of string literals")
        return [x.value for x in n.elts]

    def e_Compare(self, n, env, pre):
        if len(n.ops) != 1:
            self.fail(n, "chained comparison")
        op, l, r = n.ops[0], n.left, n.comparators[0]
        if isinstance(op, ast.In):
            if isinstance(r, ast.List):
                a = self.ev(l, env, pre)
                names = "[" + "; ".join(coq_string(s, self.mod, n) for s in self.str_list(r, "right operand of `in`")) + "]"
                if a.ty == "pv":
                    return Val(f"(py_in_strs {self.atom(a.t)} {names})", "bool")
                if a.ty == "str":
                    return Val(f"(mem {self.atom(a.t)} {names})", "bool")
                self.fail(n, f"`in` on a value of type {a.ty}")
            a = self.ev(l, env, pre)
            d = self.ev(r, env, pre)
            if a.ty == "str" and d.ty == "dict":
                return Val(f"(contains {self.atom(d.t)} {self.atom(a.t)})", "bool")
            self.fail(n, f"`in` on ({a.ty}, {d.ty})")
        if isinstance(op, (ast.Eq, ast.NotEq)):
            a = self.ev(l, env, pre)
            if isinstance(r, ast.Constant) and isinstance(r.value, str) and a.ty == "pv":
                t = f"(py_eq_str {self.atom(a.t)} {coq_string(r.value, self.mod, n)})"
                return Val(t if isinstance(op, ast.Eq) else f"(negb {t})", "bool")
            if isinstance(r, ast.Constant) and isinstance(r.value, (int, float)) and not isinstance(r.value, bool) and a.ty == "pv":
                t = f"(py_ne_num {self.atom(a.t)} {coq_float(r.value, self.mod, n)})"
                return Val(t if isinstance(op, ast.NotEq) else f"(negb {t})", "bool")
            b = self.ev(r, env, pre)
            if a.ty == b.ty == "str":
                t = f"(String.eqb {self.atom(a.t)} {self.atom(b.t)})"
                return Val(t if isinstance(op, ast.Eq) else f"(negb {t})", "bool")
            self.fail(n, f"comparison of ({a.ty}, {b.ty})")
        self.fail(n, f"comparison operator {type(op).__name__} outside the fragment")

    def e_List(self, n, env, pre):
        vs = [self.ev(x, env, pre) for x in n.elts]
        tys = {v.ty for v in vs}
        if tys == {"ctree"}:
            return Val("[" + "; ".join(v.t for v in vs) + "]", "ctreelist")
        if tys == {"str"}:
            return Val("[" + "; ".join(v.t for v in vs) + "]", "strlist")
        self.fail(n, f"list literal of types {sorted(tys)}")

    def e_JoinedStr(self, n, env, pre):
        parts = []
        for p in n.values:
            if isinstance(p, ast.Constant) and isinstance(p.value, str):
                parts.append(coq_string(p.value, self.mod, n))
            elif isinstance(p, ast.FormattedValue) and p.conversion == -1 and p.format_spec is None:
                v = self.ev(p.value, env, pre)
                if v.ty != "nat":
                    self.fail(n, "only natural numbers are formatted inside f-strings of the fragment")
                parts.append(f"py_str_nat {self.atom(v.t)}")
            else:
                self.fail(n, "f-string part outside the fragment")
        return Val("(" + " ++ ".join(parts) + ")", "str")

    def e_ListComp(self, n, env, pre):
        if len(n.generators) != 1 or n.generators[0].ifs or n.generators[0].is_async or not isinstance(n.generators[0].target, ast.Name):
            self.fail(n, "comprehension shape outside the fragment")
        g = n.generators[0]
        it = g.iter
        if isinstance(it, ast.Call) and isinstance(it.func, ast.Name) and it.func.id == "range" and "range" not in env:
            if len(it.args) != 1 or it.keywords or not (isinstance(it.args[0], ast.Constant) and type(it.args[0].value) is int and 0 <= it.args[0].value < 100):
                self.fail(it, "range(k) with a small literal k only")
            src, ety = f"(py_range {it.args[0].value})", "nat"
        else:
            s = self.ev(it, env, pre)
            if s.ty != "strlist":
                self.fail(it, f"iteration over a value of type {s.ty}")
            src, ety = s.t, "str"
        if g.target.id in env:
            self.fail(g.target, "comprehension variable shadows a local variable")
        x = self.fresh(g.target.id)
        e = dict(env)
        e[g.target.id] = Val(x, ety)
        p2 = []
        v = self.ev(n.elt, e, p2)
        if not p2:
            lty = {"pv": "pvlist", "pvlist": "pvrows", "str": "strlist"}.get(v.ty)
            if lty is None:
                self.fail(n, f"comprehension over elements of type {v.ty}")
            return Val(f"(map (fun {x} => {v.t}) {src})", lty)
        if v.ty != "ctree":
            self.fail(n, "a comprehension whose element can raise must build elements")
        if p2[-1][0] == v.t:
            body = self.wrap(p2[:-1], p2[-1][1])
        else:
            body = self.wrap(p2, f"Some {self.atom(v.t)}")
        return self.mbind(pre, f"map_raising (fun {x} => {body}) {src}", "ctreelist", "elements")

    def meta_kw(self, kws, node, allowed_extra=()):
        """device=device / dtype=dtype bookkeeping keywords; returns the remaining keywords"""
        rest = []
        for k in kws:
            if k.arg is None:
                self.fail(node, "**kwargs outside the fragment")
            if k.arg in ("device", "dtype"):
                if not (isinstance(k.value, ast.Name) and k.value.id == k.arg and k.arg in self.meta):
                    self.fail(node, f"{k.arg}= must be the parameter {k.arg} itself")
            else:
                rest.append(k)
        names = [k.arg for k in rest]
        if len(set(names)) != len(names):
            self.fail(node, "repeated keyword")
        return rest

    def e_Call(self, n, env, pre):
        f = n.func
        # ---- d.get(k, default)
        if isinstance(f, ast.Attribute) and f.attr == "get" and isinstance(f.value, ast.Name) and f.value.id in env:
            d = self.ev(f.value, env, pre)
            if d.ty != "dict" or len(n.args) != 2 or n.keywords:
                self.fail(n, ".get(k, default) on an element dict with both arguments only")
            k = self.ev(n.args[0], env, pre)
            p2 = []
            dv = self.ev(n.args[1], env, p2)
            if p2 or dv.ty != "pv" or k.ty != "str":
                self.fail(n, ".get(k, default): k a string, default a literal")
            return Val(f"(get_default {self.atom(d.t)} {self.atom(k.t)} {self.atom(dv.t)})", "pv")
        if isinstance(f, ast.Attribute) and isinstance(f.value, ast.Name) and f.value.id not in env:
            mod, a = f.value.id, f.attr
            if mod == "torch" and a == "tensor":
                self.origin("torch", n)
                self.meta_kw(n.keywords, n) and self.fail(n, "torch.tensor keyword outside the fragment")
                if len(n.args) != 1:
                    self.fail(n, "torch.tensor(x) with one positional argument")
                self.in_tensor += 1
                try:
                    x = self.ev(n.args[0], env, pre)
                finally:
                    self.in_tensor -= 1
                if x.ty == "pv":
                    return self.mbind(pre, f"torch_tensor {self.atom(x.t)}", "pv")
                if x.ty == "pvrows":
                    return self.mbind(pre, f"tensor_rows {self.atom(x.t)}", "mat")
                if x.ty == "pvlist":
                    return self.mbind(pre, f"tensor_vec {self.atom(x.t)}", "vec")
                self.fail(n, f"torch.tensor of a value of type {x.ty}")
            if mod == "torch" and a == "zeros":
                self.origin("torch", n)
                self.meta_kw(n.keywords, n) and self.fail(n, "torch.zeros keyword outside the fragment")
                if len(n.args) != 1 or not isinstance(n.args[0], ast.Tuple) or len(n.args[0].elts) != 2 or not all(
                        isinstance(x, ast.Constant) and type(x.value) is int and 0 <= x.value < 100 for x in n.args[0].elts):
                    self.fail(n, "torch.zeros((r, c)) with small literal r, c only")
                return Val(f"(torch_zeros {n.args[0].elts[0].value} {n.args[0].elts[1].value})", "mat")
            if mod == "np" and a == "degrees":
                self.origin("np", n)
                if len(n.args) != 1 or n.keywords or not self.in_tensor:
                    self.fail(n, "np.degrees(x) inside torch.tensor only")
                x = self.ev(n.args[0], env, pre)
                if x.ty != "pv":
                    self.fail(n, "np.degrees of a non-number")
                return self.mbind(pre, f"np_degrees {self.atom(x.t)}", "pv")
            if mod == "cheetah":
                self.origin("cheetah", n)
                return self.construct(a, n, env, pre)
            self.fail(n, f"call {ast.unparse(f)} is outside the translated fragment")
        if isinstance(f, ast.Name) and f.id not in env:
            if f.id == self.f.name:
                # the recursive call: same context / device / dtype
                want = [a.arg for a in self.f.args.args]
                if n.keywords or len(n.args) != len(want) or any(not (isinstance(x, ast.Name) and x.id == w) for x, w in zip(n.args[1:], want[1:])):
                    self.fail(n, f"recursive call must pass {', '.join(want[1:])} unchanged")
                b = self.mod.bind.get(f.id, [])
                if len(b) != 1 or b[0][0] != "def":
                    self.fail(n, f"{f.id} is not bound exactly once as a function")
                x = self.ev(n.args[0], env, pre)
                if x.ty != "str":
                    self.fail(n, "recursive call on a non-string name")
                return self.mbind(pre, f"rec {self.atom(x.t)}", "ctree", "element")
        self.fail(n, f"call {ast.unparse(f)} is outside the translated fragment")

    def construct(self, cls, n, env, pre):
        if n.args:
            self.fail(n, f"cheetah.{cls}: positional arguments are outside the fragment")
        kws = self.meta_kw(n.keywords, n)
        name = [k for k in kws if k.arg == "name"]
        if len(name) != 1:
            self.fail(n, f"cheetah.{cls}(..) without name=")
        items, nm = [], None
        for k in kws:                                   # Python evaluates keyword arguments in source order
            if k.arg == "name":
                nm = self.ev(k.value, env, pre)
                if nm.ty != "str":
                    self.fail(n, "name= must be a string")
                continue
            v = self.ev(k.value, env, pre)
            items.append((k.arg, v))
        if cls == "Segment":
            if [a for a, _ in items] != ["elements"] or items[0][1].ty != "ctreelist":
                self.fail(n, "cheetah.Segment(elements=[..], name=..) only")
            return Val(f"(mk_segment {self.atom(nm.t)} {self.atom(items[0][1].t)})", "ctree")
        kw = []
        for a, v in sorted(items, key=lambda p: p[0]):   # keyword ORDER is not semantic: canonical order in the generated term
            if v.ty == "pv":
                kw.append(f"({coq_string(a, self.mod, n)}, {v.t})")
            elif v.ty == "str":
                kw.append(f"({coq_string(a, self.mod, n)}, VS {self.atom(v.t)})")
            elif v.ty == "mat":
                kw.append(f"({coq_string(a, self.mod, n)}, VMat {self.atom(v.t)})")
            else:
                self.fail(n, f"keyword {a}= of type {v.ty}")
        return self.mbind(pre, f"ctor {coq_string(cls, self.mod, n)} {self.atom(nm.t)} [" + "; ".join(kw) + "]", "ctree", "element")

    # ------------------------------------------------------------------ statements
    @classmethod
    def terminates(cls, stmts):
        if not stmts:
            return False
        s = stmts[-1]
        if isinstance(s, (ast.Return, ast.Raise)):
            return True
        if isinstance(s, ast.If):
            return cls.terminates(s.body) and cls.terminates(s.orelse)
        return False

    def block(self, stmts, env):
        if not stmts:
            self.fail(self.f, "a path of the function falls off its end (returns Python's None)")
        s, rest = stmts[0], stmts[1:]
        if isinstance(s, ast.Expr) and isinstance(s.value, ast.Constant) and isinstance(s.value.value, str):
            return self.block(rest, env)
        if isinstance(s, ast.Expr) and isinstance(s.value, ast.Call) and isinstance(s.value.func, ast.Name) and s.value.func.id not in env:
            c = s.value
            if c.func.id == "print":
                return self.block(rest, env)
            if c.func.id == "validate_understood_properties":
                self.origin("validate_understood_properties", c)
                if len(c.args) != 2 or c.keywords:
                    self.fail(c, "validate_understood_properties(list, dict) only")
                pats = [coq_pattern(p, self.mod, c) for p in self.str_list(c.args[0], "the list of understood properties")]
                pre = []
                d = self.ev(c.args[1], env, pre)
                if d.ty != "dict":
                    self.fail(c, "validate_understood_properties on a non-dict")
                pre.append(("_", f"gen_validate_understood_properties [{'; '.join(pats)}] {self.atom(d.t)}"))
                return self.wrap(pre, self.block(rest, env))
            self.fail(s, f"call statement {c.func.id}(..) is outside the fragment")
        if isinstance(s, ast.Return):
            if s.value is None:
                self.fail(s, "bare return")
            t, ty = self.evm(s.value, env)
            if ty != "ctree":
                self.fail(s, f"returns a value of type {ty}")
            return t
        if isinstance(s, ast.Raise):
            return "None"
        if isinstance(s, ast.If):
            tt = self.type_test(s.test, env)
            if tt is not None:
                # a branch of the element-type dispatch: its body becomes a definition of its own (parameters: name and the dict)
                label, dvar = tt
                pre = []
                c, _ = self.cond(s.test, env, pre)
                a = self.outline(label, s.body, dvar, env, s)
                if len(s.orelse) == 1 and isinstance(s.orelse[0], ast.If) and self.type_test(s.orelse[0].test, env) is not None:
                    b = self.block(s.orelse, env)
                else:
                    b = self.outline("otherwise", s.orelse, dvar, env, s)
                return self.wrap(pre, f"if {c} then (\n{a}\n) else (\n{b})")
            pre = []
            c, etrue = self.cond(s.test, env, pre)
            a = self.block(s.body if self.terminates(s.body) else s.body + rest, etrue)
            b = self.block(s.orelse if self.terminates(s.orelse) else s.orelse + rest, env)
            return self.wrap(pre, f"if {c} then (\n{a}\n) else (\n{b})")
        if isinstance(s, (ast.Assign, ast.AnnAssign)):
            tg = s.targets if isinstance(s, ast.Assign) else [s.target]
            if len(tg) != 1 or s.value is None:
                self.fail(s, "assignment shape outside the fragment")
            t = tg[0]
            pre = []
            if isinstance(t, ast.Name):
                v = self.ev(s.value, env, pre)
                e = {k: x for k, x in env.items() if k != "!raw_" + t.id}
                if pre and pre[-1][0] == v.t:
                    e[t.id] = v
                else:
                    b = self.fresh(t.id)
                    pre.append(("!let", f"let {b} := {v.t} in"))
                    e[t.id] = Val(b, v.ty)
                return self.wrap(pre, self.block(rest, e))
            if isinstance(t, ast.Subscript) and isinstance(t.value, ast.Name) and env.get(t.value.id) is not None and env[t.value.id].ty == "mat":
                R = env[t.value.id]
                sl = t.slice
                def upto(x):
                    return isinstance(x, ast.Slice) and x.lower is None and x.step is None and isinstance(x.upper, ast.Constant) and type(x.upper.value) is int and 0 <= x.upper.value < 100
                if not (isinstance(sl, ast.Tuple) and len(sl.elts) == 2 and upto(sl.elts[0])):
                    self.fail(s, "tensor slice assignment outside the fragment")
                r = sl.elts[0].upper.value
                v = self.ev(s.value, env, pre)
                if upto(sl.elts[1]) and v.ty == "mat":
                    nv = self.mbind(pre, f"set_block {R.t} {r} {sl.elts[1].upper.value} {self.atom(v.t)}", "mat", t.value.id)
                elif isinstance(sl.elts[1], ast.Constant) and type(sl.elts[1].value) is int and 0 <= sl.elts[1].value < 100 and v.ty == "vec":
                    nv = self.mbind(pre, f"set_col {R.t} {r} {sl.elts[1].value} {self.atom(v.t)}", "mat", t.value.id)
                else:
                    self.fail(s, "tensor slice assignment outside the fragment")
                e = dict(env)
                e[t.value.id] = nv
                return self.wrap(pre, self.block(rest, e))
            self.fail(s, "assignment target outside the fragment")
        self.fail(s, f"statement {type(s).__name__} is outside the translated fragment")

    def type_test(self, t, env):
        """`d["element_type"] == "x"` / `d["element_type"] in ["x", ..]` on an element dict d: (label, name of d)"""
        if not (isinstance(t, ast.Compare) and len(t.ops) == 1 and isinstance(t.left, ast.Subscript) and isinstance(t.left.value, ast.Name)
                and isinstance(t.left.slice, ast.Constant) and t.left.slice.value == "element_type"):
            return None
        d = t.left.value.id
        if env.get(d) is None or env[d].ty != "dict":
            return None
        r = t.comparators[0]
        if isinstance(t.ops[0], ast.Eq) and isinstance(r, ast.Constant) and isinstance(r.value, str):
            names = [r.value]
        elif isinstance(t.ops[0], ast.In) and isinstance(r, ast.List) and r.elts and all(isinstance(x, ast.Constant) and isinstance(x.value, str) for x in r.elts):
            names = [x.value for x in r.elts]
        else:
            return None
        return "_".join(re.sub(r"[^A-Za-z0-9]", "_", x) for x in names), d

    def outline(self, label, body, dvar, env, node):
        if not self.terminates(body):
            self.fail(node, "a branch of the element-type dispatch does not end in return / raise on every path")
        base, k = f"{self.coq_name}__{label}", 1
        coq = base
        while coq in self.outlined_names:
            k += 1
            coq = f"{base}_{k}"
        self.outlined_names.add(coq)
        e2 = {"name": Val("name", "str"), dvar: Val("properties", "dict")}     # the body may use nothing else (fails otherwise)
        text = self.block(body, e2)
        self.outlined.append((coq, f"Definition {coq} (name : string) (properties : props) : option ctree :=\n" + indent(text) + ".\n"))
        return f"{coq} {self.atom(env['name'].t)} {self.atom(env[dvar].t)}"

    def translate_convert_element(self):
        f, a = self.f, self.f.args
        names = [x.arg for x in a.args]
        if (names != ["name", "context", "device", "dtype"] or a.vararg or a.kwarg or a.kwonlyargs or a.posonlyargs or len(a.defaults) != 2
                or ast.dump(a.defaults[0]) != "Constant(value=None)" or ast.unparse(a.defaults[1]) != "torch.float32"):
            self.fail(f, "signature of convert_element changed (expected (name, context, device=None, dtype=torch.float32))")
        self.meta = {"device", "dtype"}
        self.used |= {"name", "context"}
        env = {"name": Val("name", "str"), "context": Val("context", "ctx")}
        body = self.block(f.body, env)
        return ("".join(t + "\n" for _, t in self.outlined)
                + f"Definition {self.coq_name} (rec : string -> option ctree) (context : ctx) (name : string) : option ctree :=\n"
                + indent(body) + ".\n")


def indent(text, by="  "):
    """Indent by nesting depth of parentheses opened at line ends (cosmetic; the text is the definition)."""
    out, depth = [], 0
    for ln in text.splitlines():
        s = ln.strip()
        if s.startswith(")"):
            depth -= 1
        out.append(by * (1 + max(depth, 0)) + s)
        if s.endswith("("):
            depth += 1
    return "\n".join(out)


# ====================================================================================================================
SPECS = [
    dict(file=NAMELIST, fn="validate_understood_properties", coq="gen_validate_understood_properties", kind="validate"),
    dict(file=BMAD, fn="convert_element", coq="gen_bmad_convert_element", kind="convert_element", precondition=True),
    dict(file=ELEGANT, fn="convert_element", coq="gen_elegant_convert_element", kind="convert_element", precondition=True),
    dict(file=BMAD, fn="convert_lattice_to_cheetah", coq="gen_bmad_merge_passes", kind="passes", part="merge passes"),
    dict(file=ELEGANT, fn="convert_lattice_to_cheetah", coq="gen_elegant_merge_passes", kind="passes", part="merge passes"),
    dict(file=NAMELIST, fn="define_element", coq="gen_define_element_pattern", kind="literal", var="pattern", part="regex literal"),
    dict(file=NAMELIST, fn="merge_delimiter_continued_lines", coq="gen_merge_delimiter_continued_lines_ast_sha256", kind="astpin", part="AST pin"),
    dict(file=LJSON, fn="convert_element", coq="gen_lj_convert_element", kind="lj", params=[("element", "leaf")], ret="(str,str,dictJv)", locals=[],
         section="lj"),
    dict(file=LJSON, fn="convert_segment", coq="gen_lj_convert_segment", kind="lj", params=[("segment", "tree")], ret="(dictJ,dictL)",
         rec="tree P -> option (dict J * dict (list string))", locals=["dictJ", "dictL", "strlist"],
         calls={"convert_element": ("gen_lj_convert_element", ["leaf"], "(str,str,dictJv)", [])}, section="lj"),
    dict(file=LJSON, fn="parse_element", coq="gen_lj_parse_element", kind="lj", params=[("name", "str"), ("lattice_dict", "ldict")], ret="tree",
         locals=[], section="lj"),
    dict(file=LJSON, fn="parse_segment", coq="gen_lj_parse_segment", kind="lj", params=[("name", "str"), ("lattice_dict", "ldict")], ret="tree",
         rec="string -> option (tree P)", locals=["treelist"],
         calls={"parse_element": ("gen_lj_parse_element", ["str", "ldict"], "tree", ["E", "LL"])}, section="lj"),
]

VALIDATE_REF = '''
def validate_understood_properties(understood, properties):
    for property in properties:
        assert any([re.fullmatch(pattern, property) for pattern in understood]), ""
'''


def strip_doc(body):
    return [s for s in body if not (isinstance(s, ast.Expr) and isinstance(s.value, ast.Constant) and isinstance(s.value.value, str))]


def translate_validate(mod, f, coq):
    """for property in properties: assert any([re.fullmatch(pattern, property) for pattern in understood]), msg
       -> guard (forallb (fun property => existsb (fun pattern => re_fullmatch pattern property) understood) (dict_keys properties))
    The loop shape `for x in d: assert c(x)` is read as guard (forallb c (dict_keys d)); the assertion message is not evaluated."""
    a = f.args
    if [x.arg for x in a.args] != ["understood", "properties"] or a.vararg or a.kwarg or a.kwonlyargs or a.defaults or a.posonlyargs:
        mod.fail(f, "signature of validate_understood_properties changed")
    body = strip_doc(f.body)
    if len(body) != 1 or not isinstance(body[0], ast.For) or body[0].orelse:
        mod.fail(f, "validate_understood_properties: expected a single for loop")
    lp = body[0]
    if not (isinstance(lp.target, ast.Name) and isinstance(lp.iter, ast.Name) and lp.iter.id == "properties"):
        mod.fail(lp, "validate_understood_properties: expected `for <x> in properties`")
    x = lp.target.id
    if len(lp.body) != 1 or not isinstance(lp.body[0], ast.Assert):
        mod.fail(lp, "validate_understood_properties: expected a single assert in the loop")
    t = lp.body[0].test

    def quant(n):
        # any([..]) / any(..) / all(..) over `for pattern in understood`
        if not (isinstance(n, ast.Call) and isinstance(n.func, ast.Name) and n.func.id in ("any", "all") and len(n.args) == 1 and not n.keywords
                and isinstance(n.args[0], (ast.ListComp, ast.GeneratorExp))):
            mod.fail(n, "validate_understood_properties: expected any([.. for pattern in understood])")
        c = n.args[0]
        if len(c.generators) != 1 or c.generators[0].ifs or not isinstance(c.generators[0].target, ast.Name) or not (
                isinstance(c.generators[0].iter, ast.Name) and c.generators[0].iter.id == "understood"):
            mod.fail(n, "validate_understood_properties: expected one generator over `understood`")
        p = c.generators[0].target.id
        e = c.elt
        if not (isinstance(e, ast.Call) and ast.unparse(e.func) == "re.fullmatch" and not e.keywords and len(e.args) == 2
                and all(isinstance(z, ast.Name) for z in e.args)):
            mod.fail(e, "validate_understood_properties: expected re.fullmatch(pattern, property)")
        b = mod.bind.get("re", [])
        if len(b) != 1 or (b[0][0], b[0][1]) != ("import", "re"):
            mod.fail(e, "re must be bound exactly once by `import re`")
        pa, st = e.args[0].id, e.args[1].id
        if {pa, st} != {p, x} or p == x:
            mod.fail(e, "validate_understood_properties: re.fullmatch arguments")
        call = f"re_fullmatch {pa} {st}"
        return f"{'existsb' if n.func.id == 'any' else 'forallb'} (fun {p} => {call}) understood"
    q = quant(t)
    return (f"Definition {coq} (understood : list pat) (properties : props) : option unit :=\n"
            f"  guard (forallb (fun {x} => {q}) (dict_keys properties)).\n")


class Translator:
    def __init__(self, repo):
        self.repo = Path(repo)
        self.mods = {}

    def module(self, rel):
        if rel not in self.mods:
            self.mods[rel] = Module(self.repo, rel)
        return self.mods[rel]

    def one(self, spec):
        mod = self.module(spec["file"])
        _, f, _ = mod.find_function(spec.get("cls"), spec["fn"])
        kind = spec["kind"]
        if kind == "convert_element":
            text = Fn(mod, f, spec["coq"]).translate_convert_element()
        elif kind == "validate":
            text = translate_validate(mod, f, spec["coq"])
        else:
            text = EXTRA[kind](self, mod, f, spec)
        return mod, f, text

    def run(self):
        out, info = [], []
        section = None
        for spec in SPECS:
            mod, f, text = self.one(spec)
            first, last, seg = mod.segment(f)
            if spec.get("section") != section:
                if section == "lj":
                    out.append(LJ_FOOTER)
                section = spec.get("section")
                if section == "lj":
                    out.append(LJ_HEADER)
            out.append(f"(* {spec['file']}: {spec['fn']} *)\n" + text)
            info.append(dict(function=f"{Path(spec['file']).stem}.{spec['fn']}" + (f"[{spec['part']}]" if spec.get("part") else ""),
                             file=spec["file"], first_line=first, last_line=last,
                             source_sha256=hashlib.sha256(seg.encode()).hexdigest(), coq_name=spec["coq"],
                             coq_sha256=hashlib.sha256(text.encode()).hexdigest(), has_precondition=bool(spec.get("precondition"))))
        if section == "lj":
            out.append(LJ_FOOTER)
        return HEADER + "\n".join(out) + FOOTER, info


EXTRA = {}


# ====================================================================================================================
# LatticeJSON (cheetah/latticejson.py): statement translator for the loop-shaped functions.
#   Types: tree (an Element object), treelist, str, strlist, dictJ (name -> [class, params]), dictL (name -> list of names),
#          dictV (feature -> value), J, P (payload of a leaf), V (attribute value), Jv (json-able value), ldict (the loaded document)
#   LOOPS: `for x in xs: body` -> st' <- foldM (fun '(v1, .., vn) x => [body; Some (v1', .., vn')]) xs (v1, .., vn) ;; let '(v1, .., vn) := st' in ..
#          where v1..vn are the local variables bound before the loop that the body assigns or mutates.
LJ_HEADER = """
(* ================================================================== cheetah/latticejson.py *)
Section LatticeJSON.
Variables (P J V Jv Cls : Type).
Variable class_name : P -> string.                        (* element.__class__.__name__ *)
Variable defining_features : P -> list string.            (* element.defining_features *)
Variable getattr_ : P -> string -> V.                     (* getattr(element, feature) *)
Variable feature2nontorch : V -> Jv.
Variable mk_entry : string -> dict Jv -> J.               (* the JSON list [element_class, element_params] *)
Variable entry_class : J -> option string.                (* entry[0] *)
Variable entry_params : J -> option (dict Jv).            (* entry[1] *)
Variable cheetah_class : string -> option Cls.            (* getattr(cheetah, class name) *)
Variable nontorch2feature : Jv -> V.
Variable construct : Cls -> string -> dict V -> option P. (* element_class(name=name, **converted_params) *)

"""
LJ_FOOTER = "End LatticeJSON.\n"


class LJ:
    def __init__(self, mod, f, coq_name, spec):
        self.mod, self.f, self.coq_name, self.spec = mod, f, coq_name, spec
        self.used = set(BASE_NAMES) | {"P", "J", "V", "Jv", "Cls", "E", "LL"}
        self.n_containers = 0

    def fail(self, node, reason):
        self.mod.fail(node, reason)

    def fresh(self, py):
        base = py if re.match(r"^[A-Za-z_][A-Za-z0-9_]*$", py) else "v"
        if base in COQ_KEYWORDS or base.startswith("gen_") or base == "_":
            base += "_"
        name, k = base, 0
        while name in self.used:
            k += 1
            name = f"{base}_{k}"
        self.used.add(name)
        return name

    wrap = staticmethod(Fn.wrap)
    atom = staticmethod(Fn.atom)

    def mbind(self, pre, m, ty, hint="v"):
        b = self.fresh(hint)
        pre.append((b, m))
        return Val(b, ty)

    def cheetah_segment(self, n):
        if not (isinstance(n, ast.Attribute) and n.attr == "Segment" and isinstance(n.value, ast.Name) and n.value.id == "cheetah"):
            return False
        b = self.mod.bind.get("cheetah", [])
        if len(b) != 1 or (b[0][0], b[0][1]) != ("import", "cheetah"):
            self.fail(n, "cheetah must be bound exactly once by `import cheetah`")
        return True

    def local_fn(self, name, node):
        b = self.mod.bind.get(name, [])
        if len(b) != 1 or b[0][0] != "def":
            self.fail(node, f"{name} is not bound exactly once as a function of the module")

    # ---- expressions
    def ev(self, n, env, pre):
        if isinstance(n, ast.Constant) and isinstance(n.value, str):
            return Val(coq_string(n.value, self.mod, n), "str")
        if isinstance(n, ast.Name):
            if n.id not in env:
                self.fail(n, f"name {n.id!r} is not a local variable")
            return env[n.id]
        if isinstance(n, ast.Dict) and not n.keys:
            return Val("[]", "dict?")
        if isinstance(n, ast.List) and not n.elts:
            return Val("[]", "list?")
        if isinstance(n, ast.List) and len(n.elts) == 2:
            a, b = self.ev(n.elts[0], env, pre), self.ev(n.elts[1], env, pre)
            if (a.ty, b.ty) == ("str", "dictJv"):
                return Val(f"(mk_entry {self.atom(a.t)} {self.atom(b.t)})", "J")
            self.fail(n, "list literal outside the fragment")
        if isinstance(n, ast.Attribute) and isinstance(n.value, ast.Name) and n.value.id in env:
            o = env[n.value.id]
            if o.ty == "tree" and n.attr == "name":
                return Val(f"(tname {o.t})", "str")
            if o.ty == "tree" and n.attr == "elements":
                return self.mbind(pre, f"seg_elements {o.t}", "treelist", "elements")
            if o.ty == "leaf" and n.attr == "name":
                return Val(f"(tname {o.t})", "str")
            if o.ty == "leaf" and n.attr == "defining_features":
                p = self.mbind(pre, f"leaf_payload {o.t}", "P", "payload")
                return Val(f"(defining_features {p.t})", "strlist")
            if o.ty == "leaf" and n.attr == "__class__":
                self.fail(n, "__class__ only as element.__class__.__name__")
            self.fail(n, f"attribute .{n.attr} of a value of type {o.ty}")
        if (isinstance(n, ast.Attribute) and n.attr == "__name__" and isinstance(n.value, ast.Attribute) and n.value.attr == "__class__"
                and isinstance(n.value.value, ast.Name) and env.get(n.value.value.id) is not None and env[n.value.value.id].ty == "leaf"):
            p = self.mbind(pre, f"leaf_payload {env[n.value.value.id].t}", "P", "payload")
            return Val(f"(class_name {p.t})", "str")
        if isinstance(n, ast.Subscript):
            # lattice_dict["lattices"] / lattice_dict["elements"]: the two tables of the loaded document
            if isinstance(n.value, ast.Name) and env.get(n.value.id) is not None and env[n.value.id].ty == "ldict":
                if isinstance(n.slice, ast.Constant) and n.slice.value == "lattices":
                    return Val("LL", "dictL")
                if isinstance(n.slice, ast.Constant) and n.slice.value == "elements":
                    return Val("E", "dictJ")
                if isinstance(n.slice, ast.Constant) and n.slice.value == "root":
                    return self.mbind(pre, "root", "str", "root_name")
                self.fail(n, "only the keys lattices / elements / root of the loaded document are read")
            d = self.ev(n.value, env, pre)
            if d.ty in ("dictL", "dictJ"):
                k = self.ev(n.slice, env, pre)
                if k.ty != "str":
                    self.fail(n, "dict key must be a string")
                return self.mbind(pre, f"lookup {self.atom(d.t)} {self.atom(k.t)}", "strlist" if d.ty == "dictL" else "J", "item")
            if d.ty == "J" and isinstance(n.slice, ast.Constant) and n.slice.value in (0, 1):
                return self.mbind(pre, ("entry_class " if n.slice.value == 0 else "entry_params ") + self.atom(d.t), "str" if n.slice.value == 0 else "dictJv", "field")
            self.fail(n, f"subscript of a value of type {d.ty}")
        if isinstance(n, ast.Compare) and len(n.ops) == 1:
            a = self.ev(n.left, env, pre)
            if isinstance(n.ops[0], ast.In):
                d = self.ev(n.comparators[0], env, pre)
                if a.ty == "str" and d.ty in ("dictL", "dictJ"):
                    return Val(f"(dict_has {self.atom(d.t)} {self.atom(a.t)})", "bool")
            if isinstance(n.ops[0], (ast.NotEq, ast.Eq)):
                b = self.ev(n.comparators[0], env, pre)
                if a.ty == b.ty == "str":
                    t = f"(String.eqb {self.atom(a.t)} {self.atom(b.t)})"
                    return Val(t if isinstance(n.ops[0], ast.Eq) else f"(negb {t})", "bool")
            self.fail(n, "comparison outside the fragment")
        if isinstance(n, ast.Call):
            f = n.func
            if isinstance(f, ast.Name) and f.id == "isinstance" and len(n.args) == 2 and not n.keywords and self.cheetah_segment(n.args[1]):
                x = self.ev(n.args[0], env, pre)
                if x.ty != "tree":
                    self.fail(n, "isinstance(x, cheetah.Segment) on an element only")
                return Val(f"(is_segment {x.t})", "bool")
            if isinstance(f, ast.Name) and f.id == "getattr" and len(n.args) == 2 and not n.keywords:
                if isinstance(n.args[0], ast.Name) and n.args[0].id == "cheetah" and "cheetah" not in env:
                    self.cheetah_segment(ast.Attribute(value=n.args[0], attr="Segment"))
                    c = self.ev(n.args[1], env, pre)
                    if c.ty != "str":
                        self.fail(n, "getattr(cheetah, <class name>)")
                    return self.mbind(pre, f"cheetah_class {self.atom(c.t)}", "Cls", "element_class")
                o, a = self.ev(n.args[0], env, pre), self.ev(n.args[1], env, pre)
                if (o.ty, a.ty) != ("leaf", "str"):
                    self.fail(n, "getattr(element, feature) only")
                p = self.mbind(pre, f"leaf_payload {o.t}", "P", "payload")
                return Val(f"(getattr_ {p.t} {self.atom(a.t)})", "V")
            if isinstance(f, ast.Name) and f.id in ("feature2nontorch", "nontorch2feature") and len(n.args) == 1 and not n.keywords:
                self.local_fn(f.id, n)
                x = self.ev(n.args[0], env, pre)
                want, got = ("V", "Jv") if f.id == "feature2nontorch" else ("Jv", "V")
                if x.ty != want:
                    self.fail(n, f"{f.id} on a value of type {x.ty}")
                return Val(f"({f.id} {self.atom(x.t)})", got)
            if isinstance(f, ast.Name) and f.id == self.f.name and f.id not in env:
                return self.rec_call(n, env, pre)
            if isinstance(f, ast.Name) and f.id in self.spec.get("calls", {}) and f.id not in env:
                self.local_fn(f.id, n)
                coq, argtys, ret, extra = self.spec["calls"][f.id]
                if n.keywords or len(n.args) != len(argtys):
                    self.fail(n, f"call of {f.id} outside the fragment")
                args = []
                for a, ty in zip(n.args, argtys):
                    v = self.ev(a, env, pre)
                    if ty == "ldict":
                        if v.ty != "ldict":
                            self.fail(n, "the loaded document must be passed on unchanged")
                        args += ["E", "LL"]
                        continue
                    if v.ty != ty:
                        self.fail(n, f"argument of type {v.ty} for {f.id}")
                    args.append(self.atom(v.t))
                return self.mbind(pre, " ".join([coq] + args), ret, "r")
            if isinstance(f, ast.Attribute) and self.cheetah_segment(f):
                kw = {k.arg: k.value for k in n.keywords}
                if n.args or set(kw) != {"elements", "name"}:
                    self.fail(n, "cheetah.Segment(elements=.., name=..) only")
                es, nm = self.ev(kw["elements"], env, pre), self.ev(kw["name"], env, pre)
                if (es.ty, nm.ty) != ("treelist", "str"):
                    self.fail(n, "cheetah.Segment arguments")
                return Val(f"(Sg {self.atom(nm.t)} {self.atom(es.t)})", "tree")
            if (isinstance(f, ast.Name) and env.get(f.id) is not None and env[f.id].ty == "Cls" and not n.args and len(n.keywords) == 2
                    and n.keywords[0].arg == "name" and n.keywords[1].arg is None):
                nm, kw = self.ev(n.keywords[0].value, env, pre), self.ev(n.keywords[1].value, env, pre)
                if (nm.ty, kw.ty) != ("str", "dictV"):
                    self.fail(n, "element_class(name=name, **converted_params) only")
                p = self.mbind(pre, f"construct {env[f.id].t} {self.atom(nm.t)} {self.atom(kw.t)}", "P", "payload")
                return Val(f"(Lf {self.atom(nm.t)} {p.t})", "tree")
            self.fail(n, f"call {ast.unparse(f)} is outside the fragment")
        if isinstance(n, ast.DictComp):
            if len(n.generators) != 1 or n.generators[0].is_async:
                self.fail(n, "dict comprehension shape")
            g = n.generators[0]
            e = dict(env)
            if isinstance(g.target, ast.Name):
                src = self.ev(g.iter, env, pre)
                if src.ty != "strlist" or g.target.id in env:
                    self.fail(n, "dict comprehension over a list of strings only")
                x = self.fresh(g.target.id)
                e[g.target.id] = Val(x, "str")
                conds, p2 = [], []
                for c in g.ifs:
                    cv = self.ev(c, e, p2)
                    conds.append(cv.t)
                k, v = self.ev(n.key, e, p2), self.ev(n.value, e, p2)
                if [b for b, _ in p2 if not _.startswith("leaf_payload ")] or k.ty != "str":
                    self.fail(n, "dict comprehension: key/value/condition may not raise")
                # leaf_payload binds inside the comprehension are hoisted: the payload does not depend on the loop variable
                names = {}
                for b, m in p2:
                    names.setdefault(m, b)
                    if names[m] != b:
                        v = Val(re.sub(rf"\b{b}\b", names[m], v.t), v.ty)
                        k = Val(re.sub(rf"\b{b}\b", names[m], k.t), k.ty)
                for m, b in names.items():
                    if x in m:
                        self.fail(n, "dict comprehension: a raising subexpression depends on the loop variable")
                    pre.append((b, m))
                flt = f"(filter (fun {x} => {' && '.join(conds)}) {src.t})" if conds else src.t
                return Val(f"(dict_of_items (map (fun {x} => ({k.t}, {v.t})) {flt}))", "dict" + v.ty)
            if (isinstance(g.target, ast.Tuple) and len(g.target.elts) == 2 and all(isinstance(z, ast.Name) for z in g.target.elts) and not g.ifs
                    and isinstance(g.iter, ast.Call) and isinstance(g.iter.func, ast.Attribute) and g.iter.func.attr == "items" and not g.iter.args):
                d = self.ev(g.iter.func.value, env, pre)
                if not d.ty.startswith("dict"):
                    self.fail(n, ".items() of a non-dict")
                kx, vx = self.fresh(g.target.elts[0].id), self.fresh(g.target.elts[1].id)
                e[g.target.elts[0].id], e[g.target.elts[1].id] = Val(kx, "str"), Val(vx, d.ty[4:])
                p2 = []
                k, v = self.ev(n.key, e, p2), self.ev(n.value, e, p2)
                if p2 or k.t != kx:
                    self.fail(n, "dict comprehension over .items(): {key: f(value) ..} only")
                return Val(f"(map (fun '({kx}, {vx}) => ({kx}, {v.t})) {self.atom(d.t)})", "dict" + v.ty)
            self.fail(n, "dict comprehension shape")
        self.fail(n, f"expression {type(n).__name__} is outside the fragment")

    def rec_call(self, n, env, pre):
        argtys = self.spec["params"]
        if n.keywords or len(n.args) != len(argtys):
            self.fail(n, "recursive call shape")
        args = []
        for a, (pn, ty) in zip(n.args, argtys):
            v = self.ev(a, env, pre)
            if ty == "ldict":
                if not (isinstance(a, ast.Name) and a.id == pn):
                    self.fail(n, "the loaded document must be passed on unchanged")
                continue
            if v.ty != ty:
                self.fail(n, f"recursive call with an argument of type {v.ty}")
            args.append(self.atom(v.t))
        return self.mbind(pre, "rec " + " ".join(args), self.spec["ret"], "r")

    # ---- statements
    def assigned(self, stmts):
        out = []
        for s in stmts:
            for nd in ast.walk(s):
                if isinstance(nd, ast.Name) and isinstance(nd.ctx, ast.Store) and nd.id not in out:
                    out.append(nd.id)
                if isinstance(nd, ast.Call) and isinstance(nd.func, ast.Attribute) and nd.func.attr in ("append", "update") and isinstance(nd.func.value, ast.Name) \
                        and nd.func.value.id not in out:
                    out.append(nd.func.value.id)
                if isinstance(nd, ast.Subscript) and isinstance(nd.ctx, ast.Store) and isinstance(nd.value, ast.Name) and nd.value.id not in out:
                    out.append(nd.value.id)
        return out

    def rebind(self, env, py, v):
        e = dict(env)
        e[py] = v
        return e

    def block(self, stmts, env, k):
        """k(env) -> text of what follows the statements"""
        if not stmts:
            return k(env)
        s, rest = stmts[0], stmts[1:]
        go = lambda e: self.block(rest, e, k)
        if isinstance(s, ast.Expr) and isinstance(s.value, ast.Constant) and isinstance(s.value.value, str):
            return go(env)
        if isinstance(s, ast.Return):
            pre = []
            if isinstance(s.value, ast.Tuple):
                vs = [self.ev(x, env, pre) for x in s.value.elts]
                ty, t = "(" + ",".join(v.ty for v in vs) + ")", "(" + ", ".join(v.t for v in vs) + ")"
            else:
                v = self.ev(s.value, env, pre)
                ty, t = v.ty, v.t
            if ty != self.spec["ret"]:
                self.fail(s, f"returns a value of type {ty}, expected {self.spec['ret']}")
            if pre and pre[-1][0] == t:
                return self.wrap(pre[:-1], pre[-1][1])
            return self.wrap(pre, f"Some {self.atom(t)}")
        if isinstance(s, ast.Assign) and len(s.targets) == 1:
            t = s.targets[0]
            pre = []
            if isinstance(t, ast.Name):
                v = self.ev(s.value, env, pre)
                if v.ty in ("dict?", "list?"):
                    # the types of the empty containers are given by the spec in the ORDER of their initialisation (not by name)
                    if self.n_containers >= len(self.spec["locals"]):
                        self.fail(s, f"unexpected empty container {t.id!r} (the spec lists {len(self.spec['locals'])})")
                    want = self.spec["locals"][self.n_containers]
                    self.n_containers += 1
                    if want.startswith("dict") != (v.ty == "dict?"):
                        self.fail(s, f"container {t.id!r}: a {v.ty[:-1]} where the spec expects {want}")
                    v = Val(f"([] : {LJ_TY[want]})", want)
                if pre and pre[-1][0] == v.t:
                    return self.wrap(pre, go(self.rebind(env, t.id, v)))
                b = self.fresh(t.id)
                return self.wrap(pre, f"let {b} := {v.t} in\n" + go(self.rebind(env, t.id, Val(b, v.ty))))
            if isinstance(t, ast.Tuple) and all(isinstance(x, ast.Name) for x in t.elts):
                v = self.ev(s.value, env, pre)
                tys = v.ty[1:-1].split(",") if v.ty.startswith("(") else None
                if not (pre and pre[-1][0] == v.t) or tys is None or len(tys) != len(t.elts):
                    self.fail(s, "tuple assignment from a call returning a tuple only")
                bs = [self.fresh(x.id) for x in t.elts]
                e = dict(env)
                for x, b, ty in zip(t.elts, bs, tys):
                    e[x.id] = Val(b, ty)
                return self.wrap(pre, f"let '({', '.join(bs)}) := {v.t} in\n" + go(e))
            if isinstance(t, ast.Subscript) and isinstance(t.value, ast.Name) and t.value.id in env and env[t.value.id].ty in ("dictJ", "dictL"):
                d = env[t.value.id]
                kx, v = self.ev(t.slice, env, pre), self.ev(s.value, env, pre)
                if kx.ty != "str" or v.ty != ("J" if d.ty == "dictJ" else "strlist"):
                    self.fail(s, f"item assignment of a {v.ty} into a {d.ty}")
                b = self.fresh(t.value.id)
                return self.wrap(pre, f"let {b} := dict_set {d.t} {self.atom(kx.t)} {self.atom(v.t)} in\n" + go(self.rebind(env, t.value.id, Val(b, d.ty))))
            self.fail(s, "assignment target outside the fragment")
        if isinstance(s, ast.Expr) and isinstance(s.value, ast.Call) and isinstance(s.value.func, ast.Attribute) and isinstance(s.value.func.value, ast.Name) \
                and s.value.func.value.id in env and len(s.value.args) == 1 and not s.value.keywords:
            c, x = s.value, s.value.func.value.id
            d = env[x]
            pre = []
            a = self.ev(c.args[0], env, pre)
            b = self.fresh(x)
            if c.func.attr == "append" and d.ty in ("strlist", "treelist") and a.ty == {"strlist": "str", "treelist": "tree"}[d.ty]:
                return self.wrap(pre, f"let {b} := ({d.t} ++ [{a.t}])%list in\n" + go(self.rebind(env, x, Val(b, d.ty))))
            if c.func.attr == "update" and d.ty in ("dictJ", "dictL") and a.ty == d.ty:
                return self.wrap(pre, f"let {b} := dict_update {d.t} {self.atom(a.t)} in\n" + go(self.rebind(env, x, Val(b, d.ty))))
            self.fail(s, f".{c.func.attr}(..) on a {d.ty} with a {a.ty}")
        if isinstance(s, ast.If):
            pre = []
            c = self.ev(s.test, env, pre)
            if c.ty != "bool":
                self.fail(s, "condition is not a boolean")
            et = env
            # inside the else branch of isinstance(x, cheetah.Segment) the element is a leaf (its attributes are read through leaf_payload)
            ef = env
            if isinstance(s.test, ast.Call) and isinstance(s.test.func, ast.Name) and s.test.func.id == "isinstance" and isinstance(s.test.args[0], ast.Name):
                x = s.test.args[0].id
                ef = self.rebind(env, x, Val(env[x].t, "leaf"))
            a = self.block(s.body + rest, et, k)
            b = self.block(s.orelse + rest, ef, k)
            return self.wrap(pre, f"if {c.t} then (\n{a}\n) else (\n{b})")
        if isinstance(s, ast.For):
            if s.orelse or not isinstance(s.target, ast.Name) or s.target.id in env:
                self.fail(s, "loop shape outside the fragment")
            pre = []
            xs = self.ev(s.iter, env, pre)
            if xs.ty not in ("treelist", "strlist"):
                self.fail(s, f"loop over a value of type {xs.ty}")
            st = [v for v in self.assigned(s.body) if v in env]
            if not st:
                self.fail(s, "loop without effect")
            x = self.fresh(s.target.id)
            binders = [self.fresh(v) for v in st]
            e = dict(env)
            for v, b in zip(st, binders):
                e[v] = Val(b, env[v].ty)
            e[s.target.id] = Val(x, "tree" if xs.ty == "treelist" else "str")
            tup = lambda names: names[0] if len(names) == 1 else "(" + ", ".join(names) + ")"
            body = self.block(s.body, e, lambda e2: "Some " + tup([e2[v].t for v in st]))
            after = [self.fresh(v) for v in st]
            e3 = dict(env)
            for v, b in zip(st, after):
                e3[v] = Val(b, env[v].ty)
            pat = (lambda names: names[0] if len(names) == 1 else "'(" + ", ".join(names) + ")")
            loop = f"foldM (fun {pat(binders)} {x} =>\n{body}\n) {self.atom(xs.t)} {tup([env[v].t for v in st])}"
            if len(after) == 1:
                pre.append((after[0], loop))
                return self.wrap(pre, go(e3))
            stv = self.fresh("st")
            pre.append((stv, loop))
            return self.wrap(pre, f"let {pat(after)} := {stv} in\n" + go(e3))
        self.fail(s, f"statement {type(s).__name__} is outside the translated fragment")

    def translate(self):
        a = self.f.args
        names = [x.arg for x in a.args]
        if names != [p for p, _ in self.spec["params"]] or a.vararg or a.kwarg or a.kwonlyargs or a.posonlyargs or a.defaults:
            self.fail(self.f, f"signature of {self.f.name} changed")
        env, binders = {}, []
        for p, ty in self.spec["params"]:
            self.used.add(p)
            env[p] = Val(p, ty)
            if ty == "ldict":
                binders.append("(E : dict J) (LL : dict (list string))")
            else:
                binders.append(f"({p} : {LJ_TY[ty]})")
        body = self.block(self.f.body, env, lambda e: self.fail(self.f, "a path of the function falls off its end"))
        rec = f"(rec : {self.spec['rec']}) " if self.spec.get("rec") else ""
        return f"Definition {self.coq_name} {rec}{' '.join(binders)} : option ({LJ_TY[self.spec['ret']]}) :=\n{indent(body)}.\n"


LJ_TY = {"dictJ": "dict J", "dictL": "dict (list string)", "strlist": "list string", "treelist": "list (tree P)", "tree": "tree P", "leaf": "tree P", "str": "string", "(dictJ,dictL)": "dict J * dict (list string)", "(str,str,dictJv)": "string * string * dict Jv"}


def _lj(tr, mod, f, spec):
    return LJ(mod, f, spec["coq"], spec).translate()


EXTRA["lj"] = _lj


# ====================================================================================================================
# The line front end (converters/utils/fortran_namelist.py and the head of convert_lattice_to_cheetah).
#   passes   the consecutive `x = merge_delimiter_continued_lines(prev, delimiter=d, remove_delimiter=b)` statements of
#            convert_lattice_to_cheetah -> gen_<dialect>_merge_passes merge lines (merge = the opaque primitive), data flow checked
#   literal  a regex literal assigned to `pattern` in a function -> gen_<fn>_pattern : string (the regex itself stays an opaque
#            primitive; the model Parse/Lines.v define_header is a model of exactly that pattern text)
#   astpin   a function too imperative for the fragment (index arithmetic on a list with holes): the sha256 of its AST with local
#            variable names normalised and docstring removed -> gen_<fn>_ast_sha256 : string.  NOT a translation: a pin.  Any
#            edit but comments / formatting / local renames / the docstring changes it.
def _passes(tr, mod, f, spec):
    calls = []
    prev = None
    for st in f.body:
        if (isinstance(st, ast.Assign) and len(st.targets) == 1 and isinstance(st.targets[0], ast.Name) and isinstance(st.value, ast.Call)
                and isinstance(st.value.func, ast.Name) and st.value.func.id == "merge_delimiter_continued_lines"):
            c = st.value
            b = mod.bind.get("merge_delimiter_continued_lines", [])
            if len(b) != 1 or (b[0][0], b[0][1]) != ORIGINS["merge_delimiter_continued_lines"]:
                mod.fail(c, "merge_delimiter_continued_lines must be imported exactly once from cheetah.converters.utils.fortran_namelist")
            kw = {k.arg: k.value for k in c.keywords}
            if len(c.args) != 1 or not isinstance(c.args[0], ast.Name) or set(kw) != {"delimiter", "remove_delimiter"}:
                mod.fail(c, "merge_delimiter_continued_lines(prev, delimiter=.., remove_delimiter=..) only")
            d, r = kw["delimiter"], kw["remove_delimiter"]
            if not (isinstance(d, ast.Constant) and isinstance(d.value, str) and len(d.value) == 1 and 32 < ord(d.value) < 127 and d.value != '"'
                    and isinstance(r, ast.Constant) and isinstance(r.value, bool)):
                mod.fail(c, "delimiter must be a one-character literal and remove_delimiter a boolean literal")
            if prev is None:
                if c.args[0].id != "lines":
                    mod.fail(c, "the first merge pass must read `lines`")
            elif c.args[0].id != prev:
                mod.fail(c, "a merge pass does not read the result of the previous pass")
            prev = st.targets[0].id
            calls.append((d.value, r.value))
    if not calls:
        mod.fail(f, "no merge pass found")
    # the result of the last pass is what parse_lines receives
    uses = [n for n in ast.walk(f) if isinstance(n, ast.Call) and isinstance(n.func, ast.Name) and n.func.id == "parse_lines"]
    if len(uses) != 1 or len(uses[0].args) != 1 or not isinstance(uses[0].args[0], ast.Name) or uses[0].args[0].id != prev or uses[0].keywords:
        mod.fail(f, "parse_lines must be called exactly once, on the result of the last merge pass")
    reads = [n for n in ast.walk(f) if isinstance(n, ast.Call) and isinstance(n.func, ast.Name) and n.func.id == "read_clean_lines"]
    tgt = [st for st in f.body if isinstance(st, ast.Assign) and st.value in reads]
    if len(reads) != 1 or len(tgt) != 1 or ast.unparse(tgt[0].targets[0]) != "lines":
        mod.fail(f, "`lines = read_clean_lines(..)` expected exactly once")
    t = "lines"
    for d, r in calls:
        t = f'(merge "{d}"%char {"true" if r else "false"} {t})'
    return f"Definition {spec['coq']} (merge : ascii -> bool -> list str -> list str) (lines : list str) : list str :=\n  {t}.\n"


def _literal(tr, mod, f, spec):
    vals = [st.value for st in f.body if isinstance(st, ast.Assign) and len(st.targets) == 1 and isinstance(st.targets[0], ast.Name)
            and st.targets[0].id == spec["var"]]
    if len(vals) != 1 or not (isinstance(vals[0], ast.Constant) and isinstance(vals[0].value, str)):
        mod.fail(f, f"`{spec['var']} = <string literal>` expected exactly once in {f.name}")
    uses = [n for n in ast.walk(f) if isinstance(n, ast.Call) and ast.unparse(n.func) == "re.fullmatch"]
    if len(uses) != 1 or ast.unparse(uses[0]) != f"re.fullmatch({spec['var']}, line)":
        mod.fail(f, f"re.fullmatch({spec['var']}, line) expected exactly once in {f.name}")
    return f"Definition {spec['coq']} : string := {coq_string(vals[0].value, mod, f)}.\n"


def normalised_dump(f):
    """ast.dump of the function without docstring, annotations and with local names (parameters and assigned names) numbered in order
    of first occurrence"""
    f = ast.parse(ast.unparse(f)).body[0]
    if f.body and isinstance(f.body[0], ast.Expr) and isinstance(f.body[0].value, ast.Constant) and isinstance(f.body[0].value.value, str):
        f.body = f.body[1:]
    f.returns = None
    local = [a.arg for a in f.args.args]
    for n in ast.walk(f):
        if isinstance(n, ast.Name) and isinstance(n.ctx, ast.Store) and n.id not in local:
            local.append(n.id)
    ren = {v: f"v{k}" for k, v in enumerate(local)}
    for n in ast.walk(f):
        if isinstance(n, ast.Name) and n.id in ren:
            n.id = ren[n.id]
        if isinstance(n, ast.arg):
            n.annotation = None
            n.arg = ren.get(n.arg, n.arg)
        if isinstance(n, ast.keyword) and False:
            pass
    f.name = "f"
    return ast.dump(f, include_attributes=False)


def _astpin(tr, mod, f, spec):
    sha = hashlib.sha256(normalised_dump(f).encode()).hexdigest()
    return f"Definition {spec['coq']} : string := \"{sha}\".\n"


EXTRA.update(passes=_passes, literal=_literal, astpin=_astpin)


def locate(repo):
    """Only locate the functions of SPECS: [(name, file, first_line, last_line, sha256)].  For the kinds that cover only a PART of a
    function (`literal`: the regex literal; `passes`: the merge passes) the hash is that of the covered part (the generated text)."""
    tr, out = Translator(repo), []
    for spec in SPECS:
        mod = tr.module(spec["file"])
        _, f, _ = mod.find_function(spec.get("cls"), spec["fn"])
        first, last, seg = mod.segment(f)
        if spec["kind"] in ("literal", "passes"):
            seg = EXTRA[spec["kind"]](tr, mod, f, spec)
        out.append((f"{Path(spec['file']).stem}.{spec['fn']}" + (f"[{spec['part']}]" if spec.get("part") else ""), spec["file"], first, last,
                    hashlib.sha256(seg.encode()).hexdigest()))
    return out


def generate(repo):
    """Returns (coq_text, info list).  Raises TranslateError."""
    return Translator(repo).run()


if __name__ == "__main__":
    repo = sys.argv[1] if len(sys.argv) > 1 else "/repo"
    try:
        text, info = generate(repo)
    except TranslateError as ex:
        print("TRANSLATOR FAILED:", ex)
        sys.exit(2)
    if len(sys.argv) > 2:
        Path(sys.argv[2]).write_text(text)
    else:
        print(text)
