"""Self-test of the converter / LatticeJSON source-to-Coq translator stage (harness/translate_stage.translator_obligation_conv).

Copies /repo (without .git) to a scratch directory under /tmp (removed afterwards), points VERIF_REPO at the copy and
runs the stage on
  * the unchanged copy                                   -> must be ok
  * one-line SEMANTIC mutations of translated functions  -> must be translator_failed or equivalence_broken
  * COSMETIC edits                                       -> must be ok
  * the seeded patches /verif/seeded/{C13,C14}-*/patch.diff: reports which touch a translated function and whether the
    stage notices them
  * the six importer repairs (commits ceccdfa 06102e3 20d6429 54b9ca8 a659dce b1fb110 of /repo) REVERTED one at a time
                                                         -> must be detected
Usage:  PYTHONPATH=/verif/harness /venv/bin/python harness/translate_conv_selftest.py [--only substring] [--skip-mutations] [--no-seeded] [--no-reverts]
Exit status 0 iff every expectation holds.
"""
import os
import re
import shutil
import subprocess
import sys
import time
from pathlib import Path

SCRATCH = Path(f"/tmp/translate_conv_selftest_{os.getpid()}")
COPY = SCRATCH / "repo"
os.environ["VERIF_REPO"] = str(COPY)
sys.path.insert(0, str(Path(__file__).resolve().parent))
import common  # noqa: E402
import translate_maps  # noqa: E402
import translate_conv  # noqa: E402
import translate_stage  # noqa: E402

BMAD, ELE = "cheetah/converters/bmad.py", "cheetah/converters/elegant.py"
NML, LJ = "cheetah/converters/utils/fortran_namelist.py", "cheetah/latticejson.py"
REPAIRS = [("ceccdfa", "F18a sbend g"), ("06102e3", "F43 sbend e1 default"), ("20d6429", "F18b kicker l/kick"),
           ("54b9ca8", "F40 white space before the first comma"), ("a659dce", "F41 continuation mark on the last line"),
           ("b1fb110", "F42 ecollimator segment name")]

# (id, expectation, file, old, new, description)   expectation: "detect" | "ok" | "info"
MUTATIONS = [
    # ---- bmad.convert_element
    ("B01", "detect", BMAD, 'bmad_parsed.get("hgap", 0.0)', 'bmad_parsed.get("hgap", 1.0)', "sbend: wrong default of hgap"),
    ("B02", "detect", BMAD, 'gap=torch.tensor(2 * bmad_parsed.get("hgap", 0.0))', 'gap=torch.tensor(bmad_parsed.get("hgap", 0.0))', "sbend: gap = hgap (factor 2 dropped)"),
    ("B03", "detect", BMAD, 'dipole_e1=torch.tensor(bmad_parsed.get("e1", 0.0))', 'dipole_e1=torch.tensor(bmad_parsed.get("e2", 0.0))', "sbend: e1 read from e2"),
    ("B04", "detect", BMAD, 'dipole_e2=torch.tensor(bmad_parsed.get("e2", 0.0))', 'dipole_e1=torch.tensor(bmad_parsed.get("e2", 0.0))', "sbend: keyword dipole_e2 -> dipole_e1 (repeated keyword)"),
    ("B05", "detect", BMAD, "-np.degrees(bmad_parsed", "np.degrees(bmad_parsed", "lcavity: minus sign of the phase dropped"),
    ("B06", "detect", BMAD, '"phi0", 0.0) * 2 * np.pi', '"phi0", 0.0) * np.pi', "lcavity: factor 2 of the phase dropped"),
    ("B07", "detect", BMAD, 'bmad_parsed["element_type"] == "sbend"', 'bmad_parsed["element_type"] == "sbends"', "element type string changed"),
    ("B08", "detect", BMAD, '                    "fint",\n                    "fintx",\n', '                    "fint",\n', "sbend: fintx dropped from the validation list"),
    ("B09", "detect", BMAD, '["element_type", "l", "ks", "alias"]', '["element_type", "l", "ks", "alias", "type"]', "solenoid: key added to the validation list"),
    ("B10", "detect", BMAD, 'frequency=torch.tensor(bmad_parsed["rf_frequency"])', 'frequency=torch.tensor(bmad_parsed.get("rf_frequency", 0.0))', "lcavity: [k] -> .get(k, 0.0)"),
    ("B11", "detect", BMAD, 'voltage=torch.tensor(bmad_parsed.get("voltage", 0.0))', 'voltage=torch.tensor(bmad_parsed["voltage"])', "lcavity: .get -> [k]"),
    ("B12", "detect", BMAD, '                name=name,\n                length=torch.tensor(bmad_parsed.get("l", 0.0)),', '                name=name,\n                length=torch.tensor(bmad_parsed.get("l", 1.0)),', "fallback Drift: default length 1"),
    ("B13", "detect", BMAD, "return cheetah.Undulator(", "return cheetah.Drift(", "wiggler: wrong class"),
    ("B14", "detect", BMAD, 'shape="elliptical"', 'shape="rectangular"', "ecollimator: rectangular aperture"),
    ("B15", "detect", BMAD, 'x_max=torch.tensor(bmad_parsed.get("x_limit", np.inf))', 'x_max=torch.tensor(bmad_parsed.get("y_limit", np.inf))', "rcollimator: x_max read from y_limit"),
    ("B16", "detect", BMAD, 'tilt=torch.tensor(bmad_parsed.get("ref_tilt", 0.0))', 'tilt=torch.tensor(bmad_parsed.get("tilt", 0.0))', "sbend: tilt read from the wrong key"),
    ("B17", "detect", BMAD, 'if "angle" in bmad_parsed\n', 'if "g" in bmad_parsed\n', "sbend: wrong key in the angle test"),
    ("B18", "detect", BMAD, 'else bmad_parsed.get("g", 0.0) * bmad_parsed["l"]', 'else bmad_parsed.get("g", 0.0)', "sbend: angle = g (length factor dropped)"),
    ("B19", "detect", BMAD, '                    if "fintx" in bmad_parsed\n                    else None', '                    if "fintx" in bmad_parsed\n                    else torch.tensor(0.0)', "sbend: exit fringe integral defaults to 0, not to fint"),
    ("B20", "detect", BMAD, 'k=torch.tensor(bmad_parsed["ks"])', 'k=torch.tensor(bmad_parsed["k1"])', "solenoid: wrong key"),
    ("B21", "detect", BMAD, 'name=name + "_drift"', 'name=name + "_drif"', "rcollimator: drift name suffix"),
    ("B22", "detect", BMAD, "for element_name in bmad_parsed\n", "for element_name in bmad_parsed[1:]\n", "line: first item skipped"),
    ("B23", "detect", BMAD, '        raise ValueError(f"Unknown Bmad element type for {name = }")  # noqa: E202, E251', "        return cheetah.Marker(name=name)", "non-element: Marker instead of ValueError"),
    ("B24", "detect", BMAD, 'angle=torch.tensor(bmad_parsed.get("kick", 0.0))', 'angle=torch.tensor(-bmad_parsed.get("kick", 0.0))', "hkicker: sign of the kick flipped"),
    ("B25", "detect", BMAD, '            if "l" in bmad_parsed:\n                return cheetah.Drift(', '            if "type" in bmad_parsed:\n                return cheetah.Drift(', "monitor: Drift/Marker decided by the wrong key"),
    ("B26", "detect", BMAD, 'k1=torch.tensor(bmad_parsed["k1"])', 'k1=torch.tensor(bmad_parsed["k1"] / 2)', "quadrupole: k1 halved"),
    ("B27", "detect", BMAD, '        elif bmad_parsed["element_type"] == "patch":\n', '        elif bmad_parsed["element_type"] == "patch" or bmad_parsed["element_type"] == "fork":\n', "a second type routed into the patch branch"),
    ("B28", "detect", BMAD, "                return cheetah.Marker(name=name)\n        elif bmad_parsed[\"element_type\"] == \"instrument\"", "                return cheetah.Marker(name=name + \"_m\")\n        elif bmad_parsed[\"element_type\"] == \"instrument\"", "monitor without l: marker name changed"),
    # ---- elegant.convert_element
    ("E01", "detect", ELE, 'phase=torch.tensor(parsed["phase"] - 90)', 'phase=torch.tensor(parsed["phase"] + 90)', "rfca: phase + 90"),
    ("E02", "detect", ELE, 'phase=torch.tensor(parsed["phase"] - 90),\n                voltage=torch.tensor(parsed["voltage"])', 'phase=torch.tensor(parsed["phase"]),\n                voltage=torch.tensor(parsed["voltage"])', "rfdf: phase offset dropped"),
    ("E03", "detect", ELE, 'voltage=torch.tensor(parsed["volt"])', 'voltage=torch.tensor(parsed["voltage"])', "rfca: wrong key for the voltage"),
    ("E04", "detect", ELE, 'length=torch.tensor(parsed["l"] / 2),\n                            name=name + "_postdrift"', 'length=torch.tensor(parsed["l"] / 4),\n                            name=name + "_postdrift"', "moni: post drift a quarter of the length"),
    ("E05", "detect", ELE, 'rbend_e1=torch.tensor(parsed.get("e1", 0.0))', 'rbend_e1=torch.tensor(parsed.get("e2", 0.0))', "rben: e1 read from e2"),
    ("E06", "detect", ELE, "return cheetah.RBend(", "return cheetah.Dipole(", "rben: wrong class"),
    ("E07", "detect", ELE, 'in ["hkick", "hkic"]', 'in ["hkick"]', "alias hkic dropped"),
    ("E08", "detect", ELE, 'shape="elliptical"', 'shape="rectangular"', "ecol: rectangular aperture"),
    ("E09", "detect", ELE, '                name=name + "_segment",\n            )\n        elif parsed["element_type"] == "rcol"', '                name=name,\n            )\n        elif parsed["element_type"] == "rcol"', "ecol: segment name without suffix"),
    ("E10", "detect", ELE, 'parsed.get(f"r{i + 1}{j + 1}", 0.0) for j in range(6)', 'parsed.get(f"r{j + 1}{i + 1}", 0.0) for j in range(6)', "ematrix: matrix transposed"),
    ("E11", "detect", ELE, "R[:6, 6] = torch.tensor(", "R[:6, 5] = torch.tensor(", "ematrix: affine part written into column 5"),
    ("E12", "detect", ELE, 'parsed.get("order", 1) != 1', 'parsed.get("order", 1) != 2', "ematrix: order test"),
    ("E13", "detect", ELE, '"c[1-6]"', '"c[1-5]"', "ematrix: validation regex narrowed"),
    ("E14", "detect", ELE, '                angle=torch.tensor(parsed.get("angle", 0.0)),\n                k1=torch.tensor(parsed.get("k1", 0.0)),\n', '                angle=torch.tensor(parsed.get("angle", 0.0)),\n', "sben: k1 not passed"),
    ("E15", "detect", ELE, "            else:\n                return cheetah.BPM(name=name)", "            else:\n                return cheetah.Marker(name=name)", "moni without l: Marker instead of BPM"),
    ("E16", "detect", ELE, '["element_type", "group", "filename"]', '["element_type", "group"]', "watch: filename dropped from the validation list"),
    ("E17", "detect", ELE, 'in ["charge", "wake"]', 'in ["charge"]', "wake no longer a Marker"),
    ("E18", "detect", ELE, 'tilt=torch.tensor(parsed.get("tilt", 0.0)),\n                name=name,\n                device=device,\n                dtype=dtype,\n            )\n        elif parsed["element_type"] == "sext"', 'tilt=torch.tensor(2 * parsed.get("tilt", 0.0)),\n                name=name,\n                device=device,\n                dtype=dtype,\n            )\n        elif parsed["element_type"] == "sext"', "quad: tilt doubled"),
    ("E19", "detect", ELE, '            return cheetah.Solenoid(\n                length=torch.tensor(parsed["l"]),', '            return cheetah.Solenoid(\n                length=torch.tensor(parsed.get("l", 0.0)),', "sole: l optional"),
    ("E20", "detect", ELE, '[parsed.get(f"c{i + 1}", 0.0) for i in range(6)]', '[parsed.get(f"c{i + 1}", 0.0) for i in range(5)]', "ematrix: five affine entries"),
    ("E21", "detect", ELE, 'torch.zeros((7, 7), device=device, dtype=dtype)', 'torch.zeros((7, 7), device=device, dtype=torch.float64)', "ematrix: dtype no longer the parameter"),
    # ---- fortran_namelist.validate_understood_properties
    ("V01", "detect", NML, "assert any([re.fullmatch(pattern, property) for pattern in understood])", "assert all([re.fullmatch(pattern, property) for pattern in understood])", "validate: any -> all"),
    ("V02", "detect", NML, "assert any([re.fullmatch(pattern, property) for pattern in understood])", "assert any([re.match(pattern, property) for pattern in understood])", "validate: fullmatch -> match (prefix match)"),
    ("V03", "detect", NML, "assert any([re.fullmatch(pattern, property) for pattern in understood])", "assert any([re.fullmatch(property, pattern) for pattern in understood])", "validate: arguments of fullmatch swapped"),
    # ---- cosmetic
    ("K01", "ok", BMAD, "    bmad_parsed = context[name]\n", "    # look the element up\n\n    bmad_parsed = context[name]  # may raise KeyError\n", "comments and blank lines"),
    ("K02", "ok", BMAD, '    """Convert a parsed Bmad element dict to a cheetah Element.', '    """Convert one parsed Bmad object (reworded docstring).', "docstring changed"),
    ("K03", "ok", BMAD, ("re", r"\bbmad_parsed\b"), "spec", "local variable bmad_parsed renamed"),
    ("K04", "ok", BMAD, '                length=torch.tensor(bmad_parsed["l"]),\n                k1=torch.tensor(bmad_parsed["k1"]),\n', '                k1=torch.tensor(bmad_parsed["k1"]),\n                length=torch.tensor(bmad_parsed["l"]),\n', "keyword arguments of Quadrupole reordered"),
    ("K05", "ok", BMAD, '            validate_understood_properties(\n                ["element_type", "l", "ks", "alias"], bmad_parsed\n            )', '            validate_understood_properties(\n                [\n                    "element_type",\n                    "l",\n                    "ks",\n                    "alias",\n                ],\n                bmad_parsed,\n            )', "reformatting of a call"),
    ("K06", "ok", BMAD, 'k=torch.tensor(bmad_parsed["ks"])', 'k=torch.tensor((bmad_parsed["ks"]))', "redundant parentheses"),
    ("K07", "ok", ELE, ("re", r"\bparsed\b"), "spec", "local variable parsed renamed (elegant)"),
    ("K08", "ok", ELE, '" be converted correctly. Using drift section instead."', '" is not supported; a drift is used."', "warning text changed"),
    ("K09", "ok", ELE, ("re", r"\belement_name\b"), "item", "comprehension variable renamed"),
    ("K10", "ok", NML, ("re", r"\bproperty\b"), "prop", "loop variable of validate_understood_properties renamed"),
    ("K11", "ok", ELE, "            R = torch.zeros((7, 7), device=device, dtype=dtype)\n", "            R = torch.zeros((7, 7), dtype=dtype, device=device)  # 7 x 7\n", "bookkeeping keywords reordered, comment"),
    # ---- semantics-preserving but outside what the tie accepts, or invisible by design (informational)
    ("I01", "info", BMAD, "2 * bmad_parsed.get(\"hgap\", 0.0)", "bmad_parsed.get(\"hgap\", 0.0) * 2", "2 * x written as x * 2 (equal in IEEE arithmetic; the tie compares terms, not values)"),
    ("I02", "info", BMAD, 'isinstance(bmad_parsed, dict) and "element_type" in bmad_parsed', "isinstance(bmad_parsed, dict)", "missing element_type: KeyError instead of ValueError (which exception is not recorded)"),
    ("I03", "info", ELE, 'elif parsed["element_type"] == "kick":', 'elif "kick" == parsed["element_type"]:', "comparison written the other way round"),
]
EXTRA_MUTATIONS = [
    # ---- latticejson.py
    ("J01", "detect", LJ, "        cell.append(element.name)", "        cell.append(element_name)", "convert_segment: stale element_name appended (finding F11 reintroduced)"),
    ("J02", "detect", LJ, "            lattices.update(segment_lattices)\n", "", "convert_segment: lattices of a sub-segment dropped"),
    ("J03", "detect", LJ, "    lattices[segment.name] = cell\n", '    lattices["cell"] = cell\n', "convert_segment: segment stored under a fixed key"),
    ("J04", "detect", LJ, 'if element_name in lattice_dict["lattices"]:', 'if element_name not in lattice_dict["elements"]:', "parse_segment: elements looked up before lattices"),
    ("J05", "detect", LJ, '        if feature != "name"\n', "", "convert_element: name written among the parameters"),
    ("J06", "detect", LJ, "    return cheetah.Segment(elements=elements, name=name)", "    return cheetah.Segment(elements=elements[::-1], name=name)", "parse_segment: elements reversed"),
    ("J07", "detect", LJ, "elements[element_name] = [element_class, element_params]", "elements[element_name] = [element_params, element_class]", "convert_segment: entry written as [params, class]"),
    ("J08", "detect", LJ, 'params = lattice_dict["elements"][name][1]', 'params = lattice_dict["elements"][name][0]', "parse_element: params read from entry[0]"),
    ("J09", "detect", LJ, "        elements.append(new_element)", "        elements.insert(0, new_element)", "parse_segment: elements prepended"),
    ("J10", "detect", LJ, "            elements.update(segment_elements)\n            lattices.update(segment_lattices)", "            lattices.update(segment_lattices)\n            elements = segment_elements", "convert_segment: elements replaced, not merged"),
    ("J11", "detect", LJ, "    return element.name, element.__class__.__name__, params", '    return element.name, "Drift", params', "convert_element: class name constant"),
    # ---- line front end
    ("F01", "detect", BMAD, 'lines, delimiter="&", remove_delimiter=True', 'lines, delimiter="&", remove_delimiter=False', "bmad: continuation mark & kept"),
    ("F02", "detect", ELE, 'merged_lines, delimiter=",", remove_delimiter=False', 'merged_lines, delimiter=";", remove_delimiter=False', "elegant: second pass on another delimiter"),
    ("F03", "detect", ELE, "    context = parse_lines(merged_lines)", "    context = parse_lines(lines)", "elegant: the unmerged lines are parsed"),
    ("F04", "detect", NML, 'pattern = r"([a-z0-9_\\.]+)\\s*\\:\\s*([a-z0-9_]+)\\s*(\\,(.*))?"', 'pattern = r"([a-z0-9_]+)\\s*\\:\\s*([a-z0-9_]+)\\s*(\\,(.*))?"', "define_element: dots no longer allowed in element names"),
    ("F05", "detect", NML, "    for i in range(len(merged_lines) - 1):", "    for i in range(len(merged_lines)):", "merge loop: last index visited (pinned AST)"),
    ("F06", "detect", NML, "merged_lines[i][:-1] + merged_lines[i + num_added_lines]", "merged_lines[i][:-2] + merged_lines[i + num_added_lines]", "merge loop: two characters removed (pinned AST)"),
    ("K12", "ok", NML, ("re", r"\bnum_added_lines\b"), "k", "merge loop: local variable renamed (pin is up to local names)"),
    ("K13", "ok", NML, "    # Prune None lines\n", "    # drop the holes\n\n", "merge loop: comment changed"),
    ("K14", "ok", LJ, ("re", r"\bcell\b(?!\")"), "names", "convert_segment: local variable cell renamed"),
    ("K15", "ok", LJ, "    Deconstruct a segment into its name, a list of its elements and a dictionary of", "    Take a segment apart into its name, a list of its elements and a dictionary of", "docstring of convert_segment changed"),
]
CLASS_MACHINERY = set()     # ids of mutations that do not change a translated function's text but what the reading assumes


def apply_mutation(m):
    _, _, rel, old, new, _ = m
    p = COPY / rel
    src = p.read_text()
    if isinstance(old, tuple):
        out, n = re.subn(old[1], new, src)
        if n == 0:
            raise RuntimeError(f"pattern {old[1]!r} not found in {rel}")
    else:
        if src.count(old) < 1:
            raise RuntimeError(f"text {old!r} not found in {rel}")
        out = src.replace(old, new, 1)
    p.write_text(out)
    return {rel: src}


def restore(backup):
    for rel, src in backup.items():
        p = COPY / rel
        if src is None:
            p.unlink(missing_ok=True)
        else:
            p.write_text(src)


def touched(base):
    try:
        now = translate_conv.locate(COPY)
    except translate_maps.TranslateError as ex:
        return [f"<{ex.reason}>"]
    b = {(x[0], x[1]): x[4] for x in base}
    return sorted({x[0] for x in now if b.get((x[0], x[1])) != x[4]})


def describe(r):
    if r["status"] == "ok":
        return "ok"
    if r["status"] == "translator_failed":
        return f"translator_failed  {r.get('file')}:{r.get('line')}  {str(r.get('reason'))[:90]}"
    if r["status"] == "equivalence_broken":
        return f"equivalence_broken  {str(r.get('lemma'))[:80]}"
    return f"{r['status']}  {str(r.get('reason'))[:120]}"


def main():
    only = sys.argv[sys.argv.index("--only") + 1] if "--only" in sys.argv else None
    if SCRATCH.exists():
        shutil.rmtree(SCRATCH)
    SCRATCH.mkdir(parents=True)
    bad = 0
    stage = translate_stage.translator_obligation_conv
    try:
        shutil.copytree("/repo", COPY, ignore=shutil.ignore_patterns(".git", "__pycache__", "*.pyc"))
        assert common.REPO == COPY
        t0 = time.time()
        r0 = stage()
        base = translate_conv.locate(COPY)
        print(f"{'BASE':5} {'ok':7} {describe(r0):60} unchanged copy of /repo   [{r0['wall_s']} s]")
        if r0["status"] != "ok":
            print(r0)
            return 1
        ndet = nok = 0
        for m in ([] if "--skip-mutations" in sys.argv else MUTATIONS + EXTRA_MUTATIONS):
            if only and only not in m[0] and only not in m[5]:
                continue
            backup = apply_mutation(m)
            try:
                r = stage()
                tch = touched(base)
            finally:
                restore(backup)
            exp = m[1]
            good = (r["status"] in ("translator_failed", "equivalence_broken")) if exp == "detect" else (r["status"] == "ok") if exp == "ok" else True
            if not tch and m[0] not in CLASS_MACHINERY:
                good = False        # a mutation that does not reach a translated function tests nothing
                r = dict(r, status="mutation-missed-its-target", reason="the edit changed no translated function")
            bad += 0 if good else 1
            ndet += 1 if (good and exp == "detect") else 0
            nok += 1 if (good and exp == "ok") else 0
            print(f"{m[0]:5} {exp:7} {'PASS' if good else 'FAIL'}  {describe(r):100}  | {m[5]}  [{r['wall_s']} s]", flush=True)
        print(f"semantic mutations detected: {ndet}; cosmetic edits accepted: {nok}")
        r1 = stage()
        if r1["status"] != "ok" or r1["generated_sha256"] != r0["generated_sha256"]:
            print("FAIL: the scratch copy was not restored faithfully")
            bad += 1
        if "--no-reverts" not in sys.argv and not only:
            print("\nimporter repairs reverted one at a time:")
            for commit, what in REPAIRS:
                diff = subprocess.run(["git", "-C", "/repo", "show", "--format=", commit], capture_output=True, text=True).stdout
                files = re.findall(r"^\+\+\+ b/(\S+)", diff, flags=re.M)
                backup = {f: ((COPY / f).read_text() if (COPY / f).exists() else None) for f in files}
                pr = subprocess.run(["patch", "-R", "-p1", "-s", "-F3", "--no-backup-if-mismatch"], input=diff, cwd=COPY, capture_output=True, text=True)
                try:
                    if pr.returncode != 0:
                        print(f"{commit} reverse patch does not apply: {pr.stdout[-200:]}")
                        bad += 1
                        continue
                    tch = touched(base)
                    r = stage()
                finally:
                    restore(backup)
                    for junk in list(COPY.rglob("*.orig")) + list(COPY.rglob("*.rej")):
                        junk.unlink()
                good = r["status"] in ("translator_failed", "equivalence_broken")
                bad += 0 if good else 1
                print(f"{commit} ({what}) reverted: touches {','.join(tch) or '-':40} {'DETECTED' if good else 'MISSED  '}  {describe(r)}  [{r['wall_s']} s]", flush=True)
        if "--no-seeded" not in sys.argv and not only:
            print("\nseeded patches:")
            seeded = sorted(p for p in (common.VERIF / "seeded").glob("C*-*/patch.diff") if p.parent.name[:3] in ("C13", "C14"))
            for pd in seeded:
                files = re.findall(r"^\+\+\+ b/(\S+)", pd.read_text(), flags=re.M)
                backup = {f: ((COPY / f).read_text() if (COPY / f).exists() else None) for f in files}
                pr = subprocess.run(["patch", "-p1", "-s", "--no-backup-if-mismatch", "-i", str(pd)], cwd=COPY, capture_output=True, text=True)
                try:
                    if pr.returncode != 0:
                        print(f"{pd.parent.name:6} patch does not apply: {pr.stdout[-200:]}")
                        bad += 1
                        continue
                    tch = touched(base)
                    r = stage()
                finally:
                    restore(backup)
                    for junk in list(COPY.rglob("*.orig")) + list(COPY.rglob("*.rej")):
                        junk.unlink()
                if tch:
                    good = r["status"] in ("translator_failed", "equivalence_broken")
                    bad += 0 if good else 1
                    print(f"{pd.parent.name:6} touches {','.join(tch):45} {'DETECTED' if good else 'MISSED  '}  {describe(r)}", flush=True)
                else:
                    good = r["status"] == "ok"
                    bad += 0 if good else 1
                    print(f"{pd.parent.name:6} touches no translated function ({', '.join(files)}): stage {describe(r)}", flush=True)
        print(f"\nself-test finished in {round(time.time() - t0, 1)} s: {'ALL EXPECTATIONS HOLD' if not bad else str(bad) + ' FAILED'}")
    finally:
        shutil.rmtree(SCRATCH, ignore_errors=True)
    return 1 if bad else 0


if __name__ == "__main__":
    sys.exit(main())
