"""translate_diag -- regenerate a Coq transcription of (C) the `split` methods of the element classes, (A) `Cavity._track_beam`
and (B) the Screen / BPM code from /repo's SOURCE TEXT (companion of harness/translate_maps.py; same rules: Python's `ast`
only, nothing of cheetah is imported or executed; syntax-directed; every construct outside the fragment raises TranslateError
with reason, file, line; nothing is skipped silently).

Output: `Gen/DiagGen.v` in up to three PARTS, each starting with a line `(** PART <name> *)` (names: split, cavity, screen).
`Gen/DiagGenEquiv.v` proves, definition by definition, `gen_<f> args = <hand-written model> args` (Lattice/Split.v,
Beam/MomCavity.v, Diag/Screen.v); `Gen/DiagGenProps.v` holds the final statements.  Both are cut into the same PARTS, so that
harness/translate_stage.translator_obligation_diag(run, parts=..) regenerates and re-proves exactly the parts a property is
anchored in (a change of screen.py must not alarm C16).

TRUSTED BASE (quoted in DESIGN.md): Python's `ast`; the READINGS and tables below; the SPECS (which functions, which `self`
attributes are parameters and of which kind); the primitives of Gen/DiagGenBase.v; the Coq kernel.

=========================================================================================================== PART split (C16)
Translated: the `split(self, resolution)` method of EVERY element class exported by cheetah/accelerator/__init__.py except
Segment (translated by harness/translate_seg.py) and Element (abstract):
    Drift, Quadrupole, HorizontalCorrector, VerticalCorrector          (pieces)
    Aperture, BPM, Cavity, CustomTransferMap, Dipole, Marker, Screen, Solenoid, SpaceChargeKick,
    TransverseDeflectingCavity, Undulator                               (`return [self]`)
    RBend: checked to derive from Dipole only and NOT to define `split` (it inherits Dipole's).
  The list of classes exported by cheetah/accelerator/__init__.py is checked to be exactly this list (a new class fails).
OBJECT READING over Q (exact arithmetic; the model Lattice/Split.v is over Q "with an exact ceiling"):
  * an element is a value of `Lattice.Split.sel`; `self` of a class with pieces is the constructor applied to its declared
    attributes (Drift: `SDrift length tracking_method`; Quadrupole: `SQuad length k1 mx my tilt num_steps tracking_method`,
    `misalignment` being the pair (mx, my); correctors: `SHCor/SVCor length angle`); `self` of a `[self]` class is an
    arbitrary `self_ : sel` (any attribute access fails);
  * a tensor attribute / `resolution` is ONE rational (no batch dimension): `torch.max(x)` = `torch.min(x)` = x (NOT visible:
    max <-> min, which matters only for vectorised lengths: C04/C16's vectorised oracle);
  * `torch.ceil(q)` = `Qceiling q`, `torch.floor(q)` = `Qfloor q` (an integer-valued tensor; `torch.round`, `torch.trunc` are
    outside the fragment), `.int()` / `.long()` / `int(..)` of such a value = that integer (`Z`); arithmetic `+ - *` of
    integers with integer literals stays in Z; `q / n` (n an integer) = `q / inject_Z n`; `n < k`, `<=`, `>`, `>=`, `==`, `!=`
    on integers = `Z.ltb` .. (Python bool);
  * `Cls(a1, .., kw=..)` with Cls the ENCLOSING class: arguments are resolved against the SOURCE signature of `Cls.__init__`;
    every modelled field must be given; `name` must be omitted (no piece keeps the name: a piece that passed `name=` would be
    a different object); `device=` / `dtype=` must be `self.<tensor attribute>.device` / `.dtype` (bookkeeping);
  * `[E for v in range(n)]` with n an integer and E not mentioning v = `py_repeat_range n E` = `repeat E (Z.to_nat n)`
    (empty for n <= 0, as `range`);  `[self]` = the one-element list;
  * statements: `x = e` (let), `if c: .. [else: ..]` followed by the rest (if-then-else, the continuation copied into a
    branch that does not return), `return e`, `pass`, docstrings, comments.
NOT covered: float rounding of the quotient and of `ceil` (a quotient within an ulp above an integer: C16's correspondence
generates such cases), vectorised lengths, dtype/device of the pieces, `Segment.split`, the constructors themselves.

=========================================================================================================== PART cavity (C06, C10)
Translated: `Cavity._track_beam` (cheetah/accelerator/cavity.py), ONCE PER BEAM TYPE: `isinstance(incoming, ParameterBeam)` /
`isinstance(incoming, ParticleBeam)` are Python bools known from the reading, an `if`/`else` on them keeps only the taken
branch (the other one is still parsed, not translated).  Definitions `gen_Cavity__track_beam_param` and
`gen_Cavity__track_beam_particle`.  The calls `compute_relativistic_factors(..)` and `self.transfer_map(..)` are calls of the
definitions of Gen/MapsGen.v (harness/translate_maps.py; regenerated and re-proved in the same stage), so `_cavity_rmatrix`,
`transfer_map` and `base_rmatrix` are part of this tie.
SCALAR / PER-PARTICLE READING (extends the scalar reading of translate_maps, whose expression and call machinery is reused):
  * `self.length/voltage/phase/frequency`, `incoming.energy` are reals; there is no batch dimension; `x.unsqueeze(-1)` of a
    real is that real (NOT covered: a dropped/added unsqueeze, i.e. broadcasting against the particle axis: C04);
    `torch.full_like(x, c)` = c; `torch.any(c)` of a scalar test = the test (`any` <-> `all` not visible);
  * ParameterBeam reading: `incoming._mu` is a `V7 R`, `incoming._cov` an `M7 R`, `incoming.total_charge` an opaque token;
    ParticleBeam reading: there is ONE particle, `incoming.particles` is its `V7 R` (so `particles[..., k]` is coordinate k of
    that particle), `incoming.particle_charges` / `.survival_probabilities` are opaque tokens; tokens may only be passed to the
    constructor keyword of the same name;
  * `v[..., k]` = c_k v, `m[..., i, j]` = c_j (c_i m) (literal indices 0..6), also of the tensors being built;
    `v[..., k] = e` is `vset k e v`, `m[..., i, j] = e` is `mset i j e m` (Gen/GenBase.v), only on tensors CREATED in the
    function that no other name aliases (ownership rule of translate_maps);
  * `tm.transpose(-2, -1)` = `transpose tm`; `torch.matmul(A, B)` of two 7x7 values = `rmmul A B`;
    `torch.matmul(A, v.unsqueeze(-1)).squeeze(-1)` = `rmvec A v` (matrix times column vector);
    `torch.matmul(P, B)` with P the particle tensor = `rvmat p B` (row vector times matrix, Base/Mat.v `vmat`): the code's
    `particles @ tm^T` is `rvmat p (transpose tm)`; that this is `tm p` is PROVED (Mat.vmat_transpose), not assumed;
  * `if c:` on a real test without `else`: if-then-else with the continuation copied into both branches;
  * a LOCAL name that is read on a path on which it was never assigned (Python: UnboundLocalError -- `outgoing_energy` when
    `incoming.energy + delta_energy <= 0`) makes that path the value `None`; every `return` is `Some ..`.  The generated
    functions have type `option (V7 R * M7 R * R)` (mu, cov, energy) and `option (V7 R * R)` (the particle, energy);
  * `ParameterBeam(mu=, cov=, energy=, total_charge=<token>, device=, dtype=)`, `ParticleBeam(particles=, energy=,
    particle_charges=<token>, survival_probabilities=<token>, device=, dtype=)`: keywords only, exactly these; `x = Ctor(..)`
    followed by `return x` is the returned beam.
NOT covered: float rounding; batching / broadcasting (C04); the dispatch in `Cavity.track`; the constructors (dtype conversion);
what the code does with a vectorised `torch.any(..)` test (one element decides for all: findings of C04/C06 stay with the
numeric checks).

=========================================================================================================== PART screen (C20, C10)
Translated (cheetah/accelerator/screen.py, bpm.py), over the records of Diag/Screen.v (exact arithmetic in Z and Q):
    Screen.effective_resolution, effective_pixel_size, extent, pixel_bin_edges, pixel_bin_centers   (properties; `gen_Screen_<name> s`)
    Screen.track     once per beam type: gen_Screen_track_particles / gen_Screen_track_params : beam * option beam
                     = (the beam passed on, the argument of set_read_beam or None when it is not called)
    Screen.reading   for method = "histogram", no cached reading, and the read beam None (gen_Screen_reading_none) or a
                     ParticleBeam (gen_Screen_reading_particles); the ParameterBeam image and the "kde" method are NOT translated
    BPM.track        once per beam type: gen_BPM_track_particles / _params : beam * list Q = (beam passed on, new `reading`)
OBJECT READING:
  * `self` is `s : screen` (Diag/Screen.v): self.resolution = (sW s, sH s) integers, self.binning = sbin s (integer),
    self.pixel_size = (spx s, spy s), self.misalignment = (sdx s, sdy s) rationals (`v[k]`, `v[..., k]`), self.is_active /
    self.is_blocking = the Coq bools sactive s / sblocking s (`if` on them is a Coq if-then-else with the continuation copied,
    `and` / `or` / `not` = andb / orb / negb); self.method = "histogram" and self.cached_reading = None in `reading`; a BPM is
    `active : bool`;
  * integers: `a // b` = Z division (floor, as Python), `+ - *`, `int(..)`; an integer in rational arithmetic is `inject_Z`;
    `a / b` of two integers is NOT an integer (a pixel count computed with `/` fails);
  * `torch.stack([q1, .., qn])` of numbers = the list; `torch.linspace(lo, hi, n, device=, dtype=)` = `py_linspace lo hi n`;
    on such 1-d tensors `x[1:]` = tl, `x[:-1]` = removelast, `a + b` = `py_ladd`, `a / d` = `py_ldiv`, `x[k]` = nth k;
    `torch.zeros((r, c), ..)` = `py_zeros2 r c` (Gen/DiagGenBase.v);
  * a beam is a `beam` of Diag/Screen.v.  ParticleBeam: the particle axis is the list `ps : list particle`; a tensor along it
    is a function of the particle `p`; `particles[..., k]` for k = 0..3 is p_x, p_px, p_y, p_py (other coordinates are outside
    the screen model: touching them fails); `.x` / `.y` are columns 0 / 2 (tied by harness/translate_stats.py),
    `.particle_charges` = p_q, `.survival_probabilities` = p_s, `.mu_x` / `.mu_y` = beam_mu_x / beam_mu_y (the getters tied by
    translate_stats).  ParameterBeam: `_mu[..., k]` for k = 0..3 is mx, mpx, my, mpy, `.total_charge` = q; `_cov`, `energy` are
    tokens that may only be passed through;
  * `incoming.clone()` is an equal beam that the function OWNS: `copy.particles[..., k] -= e` / `copy._mu[..., k] -= e`
    (only `-=`) update coordinate k of every particle / of mu; the same writes on `incoming` itself fail (tracking must not modify
    its input); `copy.particles, _ = torch.broadcast_tensors(copy.particles, ..)` and `copy.particles = copy.particles.clone()`
    are bookkeeping (same values); `x.unsqueeze(-1)` of a number is that number;
  * `self.set_read_beam(b)` / `self.get_read_beam()`: the accessors are checked to be exactly `self._read_beam = value;
    self.cached_reading = None` / `return self._read_beam`; the argument of set_read_beam is the second component of the result;
    a beam handed over may not be written afterwards;
  * `ParticleBeam(particles=, energy=, particle_charges=, survival_probabilities=)`, `ParameterBeam(mu=, cov=, energy=,
    total_charge=)`: keywords only, exactly these; charges / survival / total charge are `incoming.<same>` or
    `torch.zeros_like(incoming.<same>)` (= 0);
  * `isinstance(b, ParameterBeam | ParticleBeam)`, `x is None`, `self.method == "histogram"` are Python bools known from the case;
    an `if` on them keeps the taken branch; `if <len(X.shape) > k or ..>: raise NotImplementedError(..)` (vectorisation guard) is
    skipped (no batch dimension in the reading); a path that reaches the end of `track` without a return fails;
  * HISTOGRAM PRIMITIVE (opaque, documented in Gen/DiagGenBase.v): `torch.histogramdd(torch.stack((f0, f1)).T, bins=(e0, e1),
    weight=w)` = `py_histogramdd2 f0 f1 e0 e1 w ps`: column k of the sample goes to axis k with edges bins[k]; bin membership is
    Diag/Screen.v `bin_index` (aten: upper_bound - 1, rightmost bin closed, outside dropped).  WHICH coordinate goes to which
    axis, which edges, the weights, `.T` (transposeT) and `torch.flipud` / `fliplr` (flipudT / fliplrT) are translated;
  * `self.cached_reading = image` in `reading` is bookkeeping (the returned image); `self.reading = torch.stack([a, b])` in
    BPM.track is the second component `[a; b]`.
NOT covered: the ParameterBeam image (MultivariateNormal, meshgrid; findings F15), method "kde", Screen.__init__ (defaults, that
`pixel_size` is a buffer), vectorised beams, the dtype of the image, object identity / aliasing of the returned beam (C11),
the cache logic of `reading` beyond "a fresh read beam resets it".
"""
import ast
import hashlib
import re
import sys
from pathlib import Path

from translate_maps import COQ_KEYWORDS, Module, TranslateError

ACC = "cheetah/accelerator/"
PARTS = ("split", "cavity", "screen")


# ================================================================================================= shared helpers
def is_ellipsis(n):
    return isinstance(n, ast.Constant) and n.value is Ellipsis


def lit_int(n):
    return isinstance(n, ast.Constant) and isinstance(n.value, int) and not isinstance(n.value, bool)


def is_docstring(s):
    return isinstance(s, ast.Expr) and isinstance(s.value, ast.Constant) and isinstance(s.value.value, str)


def class_node(mod, cls, bases):
    b = mod.bind.get(cls, [])
    if len(b) != 1 or b[0][0] != "class":
        raise TranslateError(f"class {cls} is not defined exactly once", mod.rel, 0)
    cnode = b[0][2]
    got = [ast.unparse(x) for x in cnode.bases]
    if got != list(bases) or cnode.keywords:
        mod.fail(cnode, f"class {cls} must derive from {' and '.join(bases)} only (found {got})")
    if cnode.decorator_list:
        mod.fail(cnode, f"class {cls} carries decorators")
    return cnode


def import_origin(mod, name, node, allowed):
    """module-level `name` is bound exactly once, by one of the `allowed` (kind, detail) origins"""
    b = mod.bind.get(name, [])
    if len(b) != 1:
        mod.fail(node, f"global name {name!r} is bound {len(b)} times at module level (expected exactly once)")
    kind, detail, _ = b[0]
    if (kind, detail) not in allowed:
        mod.fail(node, f"global name {name!r} has an unexpected origin ({kind} {detail})")


def class_members(mod, cnode):
    cb = {}
    mod._collect(cnode.body, cb)
    return cb


def method_node(mod, cnode, cb, fn, decorators=()):
    b = cb.get(fn, [])
    if len(b) != 1 or b[0][0] != "def" or not isinstance(b[0][2], ast.FunctionDef):
        raise TranslateError(f"{cnode.name}.{fn} is not defined exactly once as a function", mod.rel, cnode.lineno)
    f = b[0][2]
    decs = [ast.unparse(d) for d in f.decorator_list]
    if decs != list(decorators):
        mod.fail(f, f"unexpected decorators on {cnode.name}.{fn}: {decs}")
    a = f.args
    if a.vararg or a.kwarg or a.kwonlyargs or a.posonlyargs:
        mod.fail(f, "unsupported parameter syntax")
    return f


def info_entry(mod, cls, f, coq, text):
    first, last, seg = mod.segment(f)
    return dict(function=f"{cls}.{f.name}" if cls else f.name, file=mod.rel, first_line=first, last_line=last,
                source_sha256=hashlib.sha256(seg.encode()).hexdigest(), coq_name=coq,
                coq_sha256=hashlib.sha256(text.encode()).hexdigest(), has_precondition=False)


class Val:
    """kind: Q | Z | bool | str | vec2 | meta | elem | list | (others per part); t: Coq term (or list of terms for vec2)"""

    def __init__(self, kind, t=None, **kw):
        self.kind, self.t = kind, t
        self.__dict__.update(kw)


# ================================================================================================= PART split
SPLIT_EXPORTS = ["Aperture", "BPM", "Cavity", "CustomTransferMap", "Dipole", "Drift", "Element", "HorizontalCorrector", "Marker",
                 "Quadrupole", "RBend", "Screen", "Segment", "Solenoid", "SpaceChargeKick", "TransverseDeflectingCavity", "Undulator",
                 "VerticalCorrector"]
SPLIT_SPECS = [
    dict(file="drift.py", cls="Drift", ctor="SDrift", fields=[("length", "Q"), ("tracking_method", "str")]),
    dict(file="quadrupole.py", cls="Quadrupole", ctor="SQuad",
         fields=[("length", "Q"), ("k1", "Q"), ("misalignment", "vec2"), ("tilt", "Q"), ("num_steps", "Z"), ("tracking_method", "str")]),
    dict(file="horizontal_corrector.py", cls="HorizontalCorrector", ctor="SHCor", fields=[("length", "Q"), ("angle", "Q")]),
    dict(file="vertical_corrector.py", cls="VerticalCorrector", ctor="SVCor", fields=[("length", "Q"), ("angle", "Q")]),
] + [dict(file=f, cls=c, ctor=None, fields=[]) for f, c in [
    ("aperture.py", "Aperture"), ("bpm.py", "BPM"), ("cavity.py", "Cavity"), ("custom_transfer_map.py", "CustomTransferMap"),
    ("dipole.py", "Dipole"), ("marker.py", "Marker"), ("screen.py", "Screen"), ("solenoid.py", "Solenoid"),
    ("space_charge_kick.py", "SpaceChargeKick"), ("transverse_deflecting_cavity.py", "TransverseDeflectingCavity"),
    ("undulator.py", "Undulator")]]
SPLIT_EMITTED = {"sel", "SDrift", "SQuad", "SHCor", "SVCor", "SOther", "SSeg", "Q", "Z", "string", "list", "Qceiling", "Qfloor", "inject_Z",
                 "py_repeat_range", "self_", "nil", "cons", "true", "false"}
SPLIT_TYPES = {"Q": "Q", "Z": "Z", "str": "string"}


class SplitFn:
    def __init__(self, mod, spec, cnode, cb, f):
        self.mod, self.spec, self.cnode, self.cb, self.f = mod, spec, cnode, cb, f
        self.used = set()

    def fail(self, node, reason):
        self.mod.fail(node, reason)

    def fresh(self, py):
        base = py
        if (base in COQ_KEYWORDS or base in SPLIT_EMITTED or base.startswith("gen_") or base.startswith("_")
                or not re.match(r"^[A-Za-z_][A-Za-z0-9_]*$", base)):
            base = "v_" + base.strip("_") + "_"
        name, k = base, 0
        while name in self.used:
            k += 1
            name = f"{base}_{k}"
        self.used.add(name)
        return name

    # ---- expressions
    def q(self, v, node, what="operand"):
        """Coq term of type Q"""
        if v.kind == "Q":
            return v.t
        if v.kind in ("Z", "qint"):
            return f"(inject_Z {v.t})"
        self.fail(node, f"{what} is not a number in the object reading (it is {v.kind})")

    def intlit(self, n):
        return f"{n.value}" if n.value >= 0 else f"({n.value})"

    def ev(self, n, env):
        if isinstance(n, ast.Name):
            if n.id in env:
                return env[n.id]
            self.fail(n, f"unknown name {n.id!r}")
        if isinstance(n, ast.Constant):
            if lit_int(n):
                return Val("Z", self.intlit(n), literal=True)
            self.fail(n, f"unsupported constant {n.value!r}")
        if isinstance(n, ast.Attribute):
            if isinstance(n.value, ast.Name) and n.value.id == "self" and env.get("self") is not None:
                attrs = env["self"].attrs
                if n.attr in attrs:
                    if n.attr in self.cb:
                        self.fail(n, f"attribute self.{n.attr} is declared a plain parameter but the class body binds {n.attr!r}")
                    return attrs[n.attr]
                self.fail(n, f"self.{n.attr} is not a declared attribute of {self.spec['cls']} in the object reading")
            v = self.ev(n.value, env)
            if n.attr in ("device", "dtype") and v.kind in ("Q", "vec2"):
                return Val("meta")
            self.fail(n, f"unsupported attribute .{n.attr} of a {v.kind} value")
        if isinstance(n, ast.UnaryOp) and isinstance(n.op, ast.USub):
            v = self.ev(n.operand, env)
            if v.kind == "Z":
                return Val("Z", f"(- {v.t})%Z")
            return Val("Q", f"(- {self.q(v, n)})")
        if isinstance(n, ast.BinOp):
            a, b = self.ev(n.left, env), self.ev(n.right, env)
            sym = {ast.Add: "+", ast.Sub: "-", ast.Mult: "*", ast.Div: "/"}.get(type(n.op))
            if sym is None:
                self.fail(n, f"unsupported binary operator {type(n.op).__name__}")
            if a.kind == "Z" and b.kind == "Z" and sym != "/":
                return Val("Z", f"({a.t} {sym} {b.t})%Z")
            return Val("Q", f"({self.q(a, n.left)} {sym} {self.q(b, n.right)})")
        if isinstance(n, ast.Compare):
            if len(n.ops) != 1:
                self.fail(n, "chained comparison")
            a, b = self.ev(n.left, env), self.ev(n.comparators[0], env)
            op = {ast.Lt: "<?", ast.LtE: "<=?", ast.Gt: ">?", ast.GtE: ">=?", ast.Eq: "=?"}.get(type(n.ops[0]))
            if a.kind == "Z" and b.kind == "Z":
                if isinstance(n.ops[0], ast.NotEq):
                    return Val("bool", f"(negb ({a.t} =? {b.t})%Z)")
                if op is None:
                    self.fail(n, f"unsupported comparison {type(n.ops[0]).__name__}")
                return Val("bool", f"({a.t} {op} {b.t})%Z")
            self.fail(n, f"comparison of a {a.kind} with a {b.kind} value is outside the fragment (only integers)")
        if isinstance(n, ast.Call):
            return self.call(n, env)
        if isinstance(n, ast.List):
            if len(n.elts) == 1:
                v = self.ev(n.elts[0], env)
                if v.kind == "elem":
                    return Val("list", f"[{v.t}]")
            if not n.elts:
                return Val("list", "[]")
            self.fail(n, "list display: only [] and [<element>] are understood")
        if isinstance(n, ast.ListComp):
            return self.listcomp(n, env)
        self.fail(n, f"unsupported expression syntax {type(n).__name__}")

    def call(self, n, env):
        f = n.func
        if isinstance(f, ast.Attribute) and isinstance(f.value, ast.Name) and f.value.id == "torch" and "torch" not in env:
            import_origin(self.mod, "torch", n, [("import", "torch")])
            if f.attr in ("max", "min", "ceil", "floor"):
                if len(n.args) != 1 or n.keywords:
                    self.fail(n, f"torch.{f.attr} takes one argument here")
                v = self.ev(n.args[0], env)
                if v.kind != "Q":
                    self.fail(n, f"argument of torch.{f.attr} is not a tensor value (it is {v.kind})")
                if f.attr in ("max", "min"):
                    return v
                return Val("qint", f"(Q{'ceiling' if f.attr == 'ceil' else 'floor'} {v.t})")
            self.fail(n, f"torch.{f.attr} is outside the translated fragment")
        if isinstance(f, ast.Attribute) and f.attr in ("int", "long") and not n.args and not n.keywords:
            v = self.ev(f.value, env)
            if v.kind == "qint":
                return Val("Z", v.t)
            self.fail(n, f".{f.attr}() of a {v.kind} value (only of an integer-valued torch.ceil / torch.floor result)")
        if isinstance(f, ast.Name) and f.id == "int" and "int" not in env and len(n.args) == 1 and not n.keywords:
            if "int" in self.mod.bind:
                self.fail(n, "`int` is rebound at module level")
            v = self.ev(n.args[0], env)
            if v.kind in ("qint", "Z"):
                return Val("Z", v.t)
            self.fail(n, f"int(..) of a {v.kind} value")
        if isinstance(f, ast.Name) and f.id not in env:
            return self.construct(n, env)
        self.fail(n, "unsupported call")

    def construct(self, n, env):
        spec = self.spec
        cls = n.func.id
        if cls != spec["cls"] or not spec["ctor"]:
            self.fail(n, f"call of {cls}: only the constructor of the enclosing class with pieces is understood")
        import_origin(self.mod, cls, n, [("class", self.mod.rel)])
        init = method_node(self.mod, self.cnode, self.cb, "__init__")
        names = [a.arg for a in init.args.args][1:]
        if any(isinstance(a, ast.Starred) for a in n.args) or any(k.arg is None for k in n.keywords):
            self.fail(n, "starred / ** arguments in a constructor call")
        if len(n.args) > len(names):
            self.fail(n, "too many positional arguments")
        given = dict(zip(names, n.args))
        for k in n.keywords:
            if k.arg not in names or k.arg in given:
                self.fail(n, f"unexpected or duplicate keyword {k.arg!r}")
            given[k.arg] = k.value
        out = []
        for nm, kind in spec["fields"]:
            if nm not in given:
                self.fail(n, f"constructor call omits {nm!r}: the piece would take the constructor's default")
            v = self.ev(given.pop(nm), env)
            if kind == "Q":
                out.append(self.q(v, n, f"argument {nm}"))
            elif kind == "vec2":
                if v.kind != "vec2":
                    self.fail(n, f"argument {nm} must be a pair value")
                out += v.t
            elif v.kind != kind:
                self.fail(n, f"argument {nm} must be of kind {kind} (it is {v.kind})")
            else:
                out.append(v.t)
        for nm, node in given.items():
            if nm in ("device", "dtype") and self.ev(node, env).kind == "meta" and ast.unparse(node).endswith("." + nm):
                continue
            self.fail(node, f"constructor argument {nm!r} is outside the object reading (pieces carry no name; device/dtype must be "
                            f"self.<attribute>.{nm if nm in ('device', 'dtype') else 'device'})")
        return Val("elem", "(" + " ".join([spec["ctor"]] + out) + ")")

    def listcomp(self, n, env):
        if len(n.generators) != 1:
            self.fail(n, "nested comprehension")
        g = n.generators[0]
        if g.ifs or g.is_async or not isinstance(g.target, ast.Name):
            self.fail(n, "comprehension with a filter / a structured target")
        it = g.iter
        if not (isinstance(it, ast.Call) and isinstance(it.func, ast.Name) and it.func.id == "range" and "range" not in env
                and "range" not in self.mod.bind and len(it.args) == 1 and not it.keywords):
            self.fail(n, "comprehension: only `for v in range(n)` is understood")
        cnt = self.ev(it.args[0], env)
        if cnt.kind != "Z":
            self.fail(it, f"range(..) of a {cnt.kind} value (Python needs an integer)")
        env2 = dict(env)
        env2.pop(g.target.id, None)                 # the loop variable shadows; any use of it in the element fails (unknown name)
        if any(isinstance(x, ast.Name) and x.id == g.target.id for x in ast.walk(n.elt)):
            self.fail(n.elt, "the element of the comprehension mentions the loop variable")
        e = self.ev(n.elt, env2)
        if e.kind != "elem":
            self.fail(n.elt, f"the element of the comprehension is not an element object (it is {e.kind})")
        return Val("list", f"(py_repeat_range {cnt.t} {e.t})")

    # ---- statements
    def block(self, stmts, env):
        if not stmts:
            raise TranslateError(f"{self.spec['cls']}.split: control reaches the end of the function without a return (returns None)",
                                 self.mod.rel, self.f.end_lineno)
        s, rest = stmts[0], stmts[1:]
        if is_docstring(s) or isinstance(s, ast.Pass):
            return self.block(rest, env)
        if isinstance(s, ast.Return):
            if rest:
                self.fail(rest[0], "statement after return")
            if s.value is None:
                self.fail(s, "return without value")
            v = self.ev(s.value, env)
            if v.kind != "list":
                self.fail(s, f"split returns a {v.kind} value, not a list of elements")
            return v.t
        if isinstance(s, (ast.Assign, ast.AnnAssign)):
            tg = s.targets[0] if isinstance(s, ast.Assign) and len(s.targets) == 1 else getattr(s, "target", None)
            if not isinstance(tg, ast.Name) or s.value is None or tg.id == "self":
                self.fail(s, "unsupported assignment")
            v = self.ev(s.value, env)
            if v.kind not in ("Q", "Z", "qint", "bool"):
                self.fail(s, f"assignment of a {v.kind} value")
            nm = self.fresh(tg.id)
            env = dict(env)
            env[tg.id] = Val(v.kind, nm)
            return f"let {nm} := {v.t} in\n  " + self.block(rest, env)
        if isinstance(s, ast.If):
            c = self.ev(s.test, env)
            if c.kind != "bool":
                self.fail(s.test, f"`if` on a {c.kind} value")
            a = self.block(list(s.body) + ([] if self.returns(s.body) else rest), env)
            b = self.block(list(s.orelse) + ([] if self.returns(s.orelse) else rest), env)
            return f"if {c.t} then {a}\n  else {b}"
        self.fail(s, f"unsupported statement {type(s).__name__}")

    @staticmethod
    def returns(body):
        return bool(body) and isinstance(body[-1], ast.Return)

    def translate(self):
        spec, f = self.spec, self.f
        pos = [a.arg for a in f.args.args]
        if pos != ["self", "resolution"] or f.args.defaults:
            self.fail(f, f"signature changed: split{tuple(pos)}")
        binders, attrs = [], {}
        for nm, kind in spec["fields"]:
            if kind == "vec2":
                ts = [self.fresh(f"{nm}_{i}") for i in range(2)]
                attrs[nm] = Val("vec2", ts)
                binders += [(t, "Q") for t in ts]
            else:
                c = self.fresh(nm)
                attrs[nm] = Val(kind, c)
                binders.append((c, SPLIT_TYPES[kind]))
        if spec["ctor"]:
            flat = [x for nm, _ in spec["fields"] for x in (attrs[nm].t if attrs[nm].kind == "vec2" else [attrs[nm].t])]
            selfv = Val("elem", "(" + " ".join([spec["ctor"]] + flat) + ")", attrs=attrs)
        else:
            self.used.add("self_")
            binders.append(("self_", "sel"))
            selfv = Val("elem", "self_", attrs={})
        res = self.fresh("resolution")
        binders.append((res, "Q"))
        env = {"self": selfv, "resolution": Val("Q", res)}
        body = self.block(list(f.body), env)
        coq = f"gen_{spec['cls']}_split"
        text = f"Definition {coq} " + " ".join(f"({n} : {t})" for n, t in binders) + f" : list sel :=\n  {body}.\n"
        return coq, text


def generate_split(repo):
    repo = Path(repo)
    init = Module(repo, ACC + "__init__.py")
    exported = sorted(a.asname or a.name for st in init.tree.body if isinstance(st, ast.ImportFrom) for a in st.names)
    if exported != sorted(SPLIT_EXPORTS):
        raise TranslateError(f"cheetah/accelerator/__init__.py exports {exported}: the list of element classes changed "
                             f"(expected {sorted(SPLIT_EXPORTS)}); a class without a translated split", init.rel, 1)
    out, info = [], []
    for spec in SPLIT_SPECS:
        mod = Module(repo, ACC + spec["file"])
        cnode = class_node(mod, spec["cls"], ["Element"])
        import_origin(mod, "Element", cnode, [("from", "cheetah.accelerator.element")])
        cb = class_members(mod, cnode)
        f = method_node(mod, cnode, cb, "split")
        coq, text = SplitFn(mod, spec, cnode, cb, f).translate()
        out.append(text)
        info.append(info_entry(mod, spec["cls"], f, coq, text))
    # RBend inherits Dipole.split
    mod = Module(repo, ACC + "rbend.py")
    cnode = class_node(mod, "RBend", ["Dipole"])
    import_origin(mod, "Dipole", cnode, [("from", "cheetah.accelerator.dipole")])
    if "split" in class_members(mod, cnode):
        mod.fail(cnode, "RBend defines `split`: the transcription of Dipole.split no longer applies to it")
    header = ("(** PART split *)\n"
              "From Coq Require Import List String ZArith QArith Qround.\n"
              "From Cheetah Require Import Lattice.Split Gen.DiagGenBase.\n"
              "Import ListNotations.\nOpen Scope Q_scope.\n\n")
    return header + "\n".join(out), info



# ================================================================================================= PART cavity
import translate_maps as TM  # noqa: E402

CAV_FILE = ACC + "cavity.py"
CAV_ATTRS = [("length", "R"), ("voltage", "R"), ("phase", "R"), ("frequency", "R")]
CAV_EMITTED = {"rvmat", "rmvec", "transpose", "vset", "c0", "c1", "c2", "c3", "c4", "c5", "c6", "V7", "mu", "cov", "energy", "particle", "Some", "None"}
BEAM_CLASSES = {"ParameterBeam": "param", "ParticleBeam": "particle"}


class Unbound(Exception):
    pass


class Vec7(TM.V):
    kind = "V7"

    def __init__(self, t, owned=True, tid=None):
        self.t, self.owned, self.tid = t, owned, tid or TM.new_tid()


class Col7(TM.V):           # v.unsqueeze(-1) of a V7 value, or a matrix applied to one (shape (.., 7, 1))
    kind = "column"

    def __init__(self, t, applied):
        self.t, self.applied = t, applied


class BeamIn(TM.V):
    kind = "incoming-beam"

    def __init__(self, reading, fields):
        self.reading, self.fields = reading, fields


class Token(TM.V):
    kind = "token"

    def __init__(self, name):
        self.name = name


class PyBool(TM.V):
    kind = "python-bool"

    def __init__(self, b):
        self.b = bool(b)


class BeamOut(TM.V):
    kind = "new-beam"

    def __init__(self, t):
        self.t = t


class CavFn(TM.FnTr):
    """Reuses from translate_maps.FnTr: number, sc, cond, ev dispatch, e_Constant, e_UnaryOp, e_BinOp, e_Compare, e_Tuple, e_Dict,
    self_attr, call_fn, torch_call (cos, sin, sqrt, deg2rad, any, all ..), the ownership rule of in-place writes."""

    def __init__(self, tr, spec, mod, reading):
        super().__init__(tr, spec, mod)
        self.reading = reading

    def fresh(self, py):
        if py in CAV_EMITTED:
            py = py + "_"
        return super().fresh(py)

    # ---- expressions
    def e_Name(self, n, env):
        if n.id not in env and n.id in self.locals_:
            raise Unbound(n.id)
        if n.id in BEAM_CLASSES and n.id not in env:
            import_origin(self.mod, n.id, n, [("from", "cheetah.particles")])
            return TM.Str("class:" + n.id)
        return super().e_Name(n, env)

    def e_Attribute(self, n, env):
        if isinstance(n.value, ast.Name) and n.value.id == "incoming" and isinstance(env.get("incoming"), BeamIn):
            b = env["incoming"]
            if n.attr in b.fields:
                return b.fields[n.attr]
            self.fail(n, f"incoming.{n.attr} is not part of the {b.reading} reading")
        if n.attr in ("device", "dtype") and not (isinstance(n.value, ast.Name) and n.value.id in ("torch", "constants")):
            v = self.ev(n.value, env)
            if isinstance(v, (Vec7, TM.Mx, TM.Sc)):
                return TM.Meta()
            self.fail(n, f".{n.attr} of a {v.kind} value")
        return super().e_Attribute(n, env)

    @staticmethod
    def comp(k, t):
        return f"(c{k} {t})"

    def e_Subscript(self, n, env):
        v = self.ev(n.value, env)
        s = n.slice
        if isinstance(v, (Vec7, TM.Mx)) and isinstance(s, ast.Tuple) and s.elts and is_ellipsis(s.elts[0]):
            idx = s.elts[1:]
            want = 1 if isinstance(v, Vec7) else 2
            if len(idx) != want or not all(lit_int(i) and 0 <= i.value <= 6 for i in idx):
                self.fail(n, f"index into a {v.kind} value must be [..., " + ", ".join("k" * 1 for _ in range(want)) + "] with literal 0 <= k <= 6")
            t = v.t
            for i in idx:
                t = self.comp(i.value, t)
            return TM.Sc(t, owned=False)
        if isinstance(v, (Vec7, TM.Mx)):
            self.fail(n, f"unsupported index into a {v.kind} value")
        return super().e_Subscript(n, env)

    def e_Call(self, n, env):
        f = n.func
        if isinstance(f, ast.Name) and f.id == "isinstance" and "isinstance" not in env and "isinstance" not in self.mod.bind:
            if len(n.args) != 2 or n.keywords or not (isinstance(n.args[0], ast.Name) and isinstance(env.get(n.args[0].id), BeamIn)):
                self.fail(n, "isinstance: only isinstance(incoming, <beam class>) is understood")
            c = self.ev(n.args[1], env)
            if not (isinstance(c, TM.Str) and c.s.startswith("class:")):
                self.fail(n, "isinstance: the second argument must be ParameterBeam or ParticleBeam")
            return PyBool(BEAM_CLASSES[c.s[6:]] == env[n.args[0].id].reading)
        if isinstance(f, ast.Name) and f.id in BEAM_CLASSES and f.id not in env:
            return self.construct(n, env)
        if isinstance(f, ast.Attribute) and not (isinstance(f.value, ast.Name) and f.value.id in ("torch", "self") and f.value.id not in env):
            m = f.attr
            minus1 = len(n.args) == 1 and not n.keywords and ast.unparse(n.args[0]) == "-1"
            if m in ("unsqueeze", "squeeze") and minus1:
                v = self.ev(f.value, env)
                if m == "unsqueeze" and isinstance(v, TM.Sc):
                    return v
                if m == "unsqueeze" and isinstance(v, Vec7):
                    return Col7(v.t, applied=False)
                if m == "squeeze" and isinstance(v, Col7) and v.applied:
                    return Vec7(v.t)
                self.fail(n, f".{m}(-1) of a {v.kind} value is outside the reading")
            if m == "transpose":
                v = self.ev(f.value, env)
                if isinstance(v, TM.Mx) and not n.keywords and sorted(ast.unparse(a) for a in n.args) == ["-1", "-2"]:
                    return TM.Mx(f"(transpose {v.t})", owned=False)
                self.fail(n, ".transpose: only M.transpose(-2, -1) of a 7x7 value is understood")
        return super().e_Call(n, env)

    def torch_call(self, name, n, env):
        if name == "matmul":
            if len(n.args) != 2 or n.keywords:
                self.fail(n, "torch.matmul takes two arguments")
            a, b = self.ev(n.args[0], env), self.ev(n.args[1], env)
            if isinstance(a, TM.Mx) and isinstance(b, TM.Mx):
                return TM.Mx(f"(rmmul {a.t} {b.t})")
            if isinstance(a, TM.Mx) and isinstance(b, Col7) and not b.applied:
                return Col7(f"(rmvec {a.t} {b.t})", applied=True)
            if isinstance(a, Vec7) and isinstance(b, TM.Mx) and self.reading == "particle":
                return Vec7(f"(rvmat {a.t} {b.t})")
            self.fail(n, f"torch.matmul of a {a.kind} and a {b.kind} value is outside the reading")
        if name == "full_like":
            if len(n.args) != 2 or n.keywords:
                self.fail(n, "torch.full_like takes two positional arguments here")
            self.sc(self.ev(n.args[0], env), n.args[0], "first argument of torch.full_like")
            if not isinstance(n.args[1], (ast.Constant, ast.UnaryOp)):
                self.fail(n, "torch.full_like: the fill value must be a number literal")
            return TM.Sc(self.sc(self.ev(n.args[1], env), n.args[1]))
        return super().torch_call(name, n, env)

    def construct(self, n, env):
        cls = n.func.id
        import_origin(self.mod, cls, n, [("from", "cheetah.particles")])
        if BEAM_CLASSES[cls] != self.reading:
            self.fail(n, f"{cls}(..) built from a {self.reading} beam")
        if n.args or any(k.arg is None for k in n.keywords):
            self.fail(n, f"{cls}(..) must be called with keywords only")
        kw = {k.arg: k.value for k in n.keywords}
        if len(kw) != len(n.keywords):
            self.fail(n, "duplicate keyword")
        want = {"param": ["mu", "cov", "energy", "total_charge", "device", "dtype"],
                "particle": ["particles", "energy", "particle_charges", "survival_probabilities", "device", "dtype"]}[self.reading]
        if sorted(kw) != sorted(want):
            self.fail(n, f"{cls}(..): expected exactly the keywords {want}")
        out = []
        for k in want:
            v = self.ev(kw[k], env)
            if k in ("device", "dtype"):
                if not isinstance(v, TM.Meta):
                    self.fail(kw[k], f"keyword {k} is not a device/dtype bookkeeping value")
            elif k in ("total_charge", "particle_charges", "survival_probabilities"):
                if not (isinstance(v, Token) and v.name == k):
                    self.fail(kw[k], f"keyword {k} must pass incoming.{k} through unchanged")
            elif k in ("mu", "particles"):
                if not isinstance(v, Vec7):
                    self.fail(kw[k], f"keyword {k} is not a 7-vector value (it is {v.kind})")
                out.append(v.t)
            elif k == "cov":
                out.append(self.mx(v, kw[k]))
            else:
                out.append(self.sc(v, kw[k], "keyword energy"))
        return BeamOut("(" + ", ".join(out) + ")")

    # ---- statements (own block: option-valued, static branches, Unbound paths)
    def stmt_block(self, stmts, env, cont):
        if not stmts:
            if cont is None:
                raise TranslateError("control reaches the end of the function without a return", self.mod.rel, self.fnode.end_lineno)
            return cont(env)
        s, rest = stmts[0], stmts[1:]
        if is_docstring(s) or isinstance(s, ast.Pass):
            return self.stmt_block(rest, env, cont)
        try:
            pre, env2, branch = self.one(s, env)
        except Unbound:
            return "None"
        if branch is not None:
            kind, a_body, b_body, c = branch
            k = (lambda e: self.stmt_block(rest, e, cont)) if (rest or cont is not None) else None
            if kind == "static":
                return self.stmt_block(a_body, env, k)
            return TM.ifc(c, self.stmt_block(a_body, env, k), self.stmt_block(b_body, env, k))
        if pre is None:                          # return
            if rest:
                self.fail(rest[0], "statement after return")
            return env2
        return pre + self.stmt_block(rest, env2, cont)

    def one(self, s, env):
        """(prefix text, new env, None) | (None, returned text, None) | (.., .., branch)"""
        if isinstance(s, ast.Return):
            if s.value is None:
                self.fail(s, "return without value")
            v = self.ev(s.value, env)
            if not isinstance(v, BeamOut):
                self.fail(s, f"return of a {v.kind} value (a newly built beam is expected)")
            return None, f"Some {v.t}", None
        if isinstance(s, ast.If):
            c = self.ev(s.test, env)
            if isinstance(c, PyBool):
                return "", env, ("static", list(s.body) if c.b else list(s.orelse), None, None)
            return "", env, ("cond", list(s.body), list(s.orelse), self.cond(c, s.test))
        if isinstance(s, (ast.Assign, ast.AnnAssign)):
            if isinstance(s, ast.Assign) and len(s.targets) != 1:
                self.fail(s, "chained assignment")
            tg = s.targets[0] if isinstance(s, ast.Assign) else s.target
            if s.value is None:
                self.fail(s, "annotation without value")
            if isinstance(tg, ast.Subscript):
                return self.write(s, tg, env)
            v = self.ev(s.value, env)
            if isinstance(tg, ast.Name) and isinstance(v, (Vec7, BeamOut, PyBool)):
                env = dict(env)
                if isinstance(v, Vec7):
                    nm = self.fresh(tg.id)
                    env[tg.id] = Vec7(nm, v.owned, v.tid)
                    return f"let {nm} := {v.t} in\n  ", env, None
                env[tg.id] = v
                return "", env, None
            pre, env2 = self.bind(tg, v, env, s)
            return pre, env2, None
        self.fail(s, f"unsupported statement {type(s).__name__}")

    def write(self, s, tg, env):
        if not isinstance(tg.value, ast.Name):
            self.fail(s, "unsupported subscript assignment")
        name = tg.value.id
        if name not in env:
            if name in self.locals_:
                raise Unbound(name)
            self.fail(s, f"unknown name {name!r}")
        cur = env[name]
        if not isinstance(cur, (Vec7, TM.Mx)):
            self.fail(s, f"subscript assignment into a {cur.kind} value")
        if not cur.owned:
            self.fail(s, f"in-place write into {name!r}, a tensor that was not created in this function (it would modify the incoming beam / the element)")
        holders = [k for k, v in env.items() if isinstance(v, (Vec7, TM.Mx, TM.Sc)) and v.tid == cur.tid]
        if holders != [name]:
            self.fail(s, f"in-place write into {name!r}, which is aliased by {sorted(set(holders) - {name})}")
        sl = tg.slice
        want = 1 if isinstance(cur, Vec7) else 2
        if not (isinstance(sl, ast.Tuple) and len(sl.elts) == want + 1 and is_ellipsis(sl.elts[0])
                and all(lit_int(e) and 0 <= e.value <= 6 for e in sl.elts[1:])):
            self.fail(s, "entry assignment must have the form v[..., k] = e / m[..., i, j] = e with literal indices 0..6")
        e = self.sc(self.ev(s.value, env), s.value, "assigned entry")
        idx = " ".join(str(x.value) for x in sl.elts[1:])
        nm = self.fresh(name)
        env = dict(env)
        env[name] = type(cur)(nm, True, cur.tid)
        return f"let {nm} := ({'vset' if want == 1 else 'mset'} {idx} {e} {cur.t}) in\n  ", env, None

    def translate(self):
        spec, mod = self.spec, self.mod
        cnode, f, cb = mod.find_function(spec["cls"], spec["fn"], False)
        self.fnode, self.class_bind = f, cb
        if [ast.dump(b) for b in cnode.bases] != ["Name(id='Element', ctx=Load())"] or cnode.keywords:
            mod.fail(cnode, "class Cavity must derive from Element only")
        mod.global_origin("Element", cnode)
        a = f.args
        if a.vararg or a.kwarg or a.kwonlyargs or a.posonlyargs or a.defaults or [x.arg for x in a.args] != ["self", "incoming"]:
            mod.fail(f, "signature changed: _track_beam(self, incoming) expected")
        # the local names of the function (Python: assigned anywhere in the body => local everywhere)
        self.locals_ = set()
        for node in ast.walk(f):
            if isinstance(node, (ast.Assign, ast.AnnAssign, ast.AugAssign)):
                for t in (node.targets if isinstance(node, ast.Assign) else [node.target]):
                    for x in ast.walk(t):
                        if isinstance(x, ast.Name) and isinstance(x.ctx, ast.Store):
                            self.locals_.add(x.id)
            elif isinstance(node, (ast.For, ast.While, ast.With, ast.Try, ast.Global, ast.Nonlocal, ast.Lambda, ast.FunctionDef, ast.NamedExpr,
                                   ast.ListComp, ast.Delete, ast.AugAssign)) and node is not f:
                mod.fail(node, f"{type(node).__name__} is outside the translated fragment")
        attrs, params = {}, []
        for nm, _ in spec["attrs"]:
            c = self.fresh(nm)
            attrs[nm] = TM.Sc(c, owned=False)
            params.append((c, "R"))
        env = {"self": attrs}
        en = self.fresh("energy")
        if self.reading == "param":
            mu, cov = self.fresh("mu"), self.fresh("cov")
            params += [(mu, "V7 R"), (cov, "M7 R"), (en, "R")]
            fields = {"_mu": Vec7(mu, owned=False), "_cov": TM.Mx(cov, owned=False), "energy": TM.Sc(en, owned=False), "total_charge": Token("total_charge")}
            ty = "option (V7 R * M7 R * R)"
        else:
            p = self.fresh("particle")
            params += [(p, "V7 R"), (en, "R")]
            fields = {"particles": Vec7(p, owned=False), "energy": TM.Sc(en, owned=False), "particle_charges": Token("particle_charges"),
                      "survival_probabilities": Token("survival_probabilities")}
            ty = "option (V7 R * R)"
        env["incoming"] = BeamIn(self.reading, fields)
        body = self.stmt_block(list(f.body), env, None)
        coq = f"gen_Cavity__track_beam_{self.reading}"
        text = f"Definition {coq} " + " ".join(f"({n} : {t})" for n, t in params) + f" : {ty} :=\n  {body}.\n"
        return coq, text, f


def generate_cavity(repo):
    tr = TM.Translator(repo)
    tr.run()                                   # fills tr.done: the callees compute_relativistic_factors, Cavity.transfer_map (Gen/MapsGen.v)
    mod = tr.module(CAV_FILE)
    spec = dict(file=CAV_FILE, cls="Cavity", fn="_track_beam", attrs=CAV_ATTRS, params=[])
    out, info = [], []
    for reading in ("param", "particle"):
        coq, text, f = CavFn(tr, spec, mod, reading).translate()
        out.append(text)
        info.append(info_entry(mod, "Cavity", f, coq, text))
    header = ("(** PART cavity *)\n"
              "From Coq Require Import Reals.\n"
              "From Cheetah Require Import Base.Mat Optics.Maps Gen.GenBase Gen.DiagGenBase.\n"
              "From Cheetah.Gen Require Import MapsGen.\n"
              "Open Scope R_scope.\n\n")
    return header + "\n".join(out), info


# ================================================================================================= PART screen
SCR_FILE, BPM_FILE = ACC + "screen.py", ACC + "bpm.py"
SCR_EMITTED = {"s", "p", "ps", "screen", "beam", "particle", "Particles", "Params", "mkP", "p_x", "p_px", "p_y", "p_py", "p_q", "p_s", "sW", "sH", "sbin",
               "spx", "spy", "sdx", "sdy", "sactive", "sblocking", "py_linspace", "py_ladd", "py_ldiv", "py_histogramdd2", "py_zeros2", "transposeT",
               "flipudT", "fliplrT", "tensor2", "beam_mu_x", "beam_mu_y", "centroid", "fst", "snd", "tl", "removelast", "Some", "None", "inject_Z",
               "mx", "mpx", "my", "mpy", "q", "active", "true", "false", "andb", "orb", "negb"}
PART_COLS = ["p_x", "p_px", "p_y", "p_py"]          # coordinates 0..3 of a particle as Diag/Screen.v keeps them
SCR_PROPS = {"effective_resolution": "zpair", "effective_pixel_size": "qpair", "extent": "qlist", "pixel_bin_edges": "qlistpair",
             "pixel_bin_centers": "qlistpair"}
SCR_TYPES = {"zpair": "(Z * Z)%type", "qpair": "(Q * Q)%type", "qlist": "list Q", "qlistpair": "(list Q * list Q)%type", "tensor2": "tensor2"}


class Falls(Exception):
    """control fell off the end of the function (Python returns None)"""


class ScrFn:
    """Object reading of Screen / BPM code over the records of Diag/Screen.v (see the module docstring, PART screen)."""

    def __init__(self, mod, cls, cnode, cb, f, case):
        self.mod, self.cls, self.cnode, self.cb, self.f, self.case = mod, cls, cnode, cb, f, case
        self.used = set()

    def fail(self, node, reason):
        self.mod.fail(node, reason)

    def fresh(self, py):
        base = py
        if (base in COQ_KEYWORDS or base in SCR_EMITTED or base.startswith("gen_") or base.startswith("_")
                or not re.match(r"^[A-Za-z_][A-Za-z0-9_]*$", base)):
            base = "v_" + base.strip("_") + "_"
        name, k = base, 0
        while name in self.used:
            k += 1
            name = f"{base}_{k}"
        self.used.add(name)
        return name

    # ---- coercions
    def q(self, v, node, what="operand"):
        if v.kind == "Q":
            return v.t
        if v.kind == "Z":
            return v.t if getattr(v, "literal", False) else f"(inject_Z {v.t})"
        self.fail(node, f"{what} is not a number in the object reading (it is {v.kind})")

    def z(self, v, node, what="operand"):
        if v.kind == "Z":
            return v.t
        self.fail(node, f"{what} is not an integer in the object reading (it is {v.kind})")

    def boolean(self, v, node):
        if v.kind == "bool":
            return v.t
        self.fail(node, f"not a truth value in the object reading (it is {v.kind})")

    # ---- self
    def self_attr(self, n, env):
        a = n.attr
        so = env["self"]
        if a in so.attrs:
            if a in self.cb:
                self.fail(n, f"attribute self.{a} is declared a plain attribute but the class body binds {a!r}")
            return so.attrs[a]
        if self.cls == "Screen" and a in SCR_PROPS:
            if a not in self.done:
                self.fail(n, f"self.{a} is used before its translation (order of SPECS)")
            if len(self.cb.get(a, [])) != 1:
                self.fail(n, f"self.{a} is not bound exactly once in the class body")
            k = SCR_PROPS[a]
            t = f"(gen_Screen_{a} s)"
            if k in ("zpair", "qpair", "qlistpair"):
                return Val(k, [f"(fst {t})", f"(snd {t})"])
            return Val(k, t)
        self.fail(n, f"self.{a} is not part of the object reading of {self.cls}")

    # ---- expressions
    def ev(self, n, env):
        m = getattr(self, "e_" + type(n).__name__, None)
        if m is None:
            self.fail(n, f"unsupported expression syntax {type(n).__name__}")
        return m(n, env)

    def e_Name(self, n, env):
        if n.id in env:
            return env[n.id]
        if n.id in BEAM_CLASSES:
            import_origin(self.mod, n.id, n, [("from", "cheetah.particles")])
            return Val("class", n.id)
        self.fail(n, f"unknown name {n.id!r}")

    def e_Constant(self, n, env):
        if n.value is None:
            return Val("none")
        if isinstance(n.value, str):
            return Val("str", n.value)
        if lit_int(n):
            return Val("Z", str(n.value), literal=True)
        self.fail(n, f"unsupported constant {n.value!r}")

    def e_Tuple(self, n, env):
        return Val("tuple", [self.ev(e, env) for e in n.elts])

    e_List = e_Tuple

    def e_Attribute(self, n, env):
        if isinstance(n.value, ast.Name) and n.value.id == "self" and "self" in env:
            return self.self_attr(n, env)
        v = self.ev(n.value, env)
        if n.attr in ("device", "dtype") and v.kind in ("qpair", "Q", "sample"):
            return Val("meta")
        if n.attr == "T" and v.kind == "samplestack":
            return Val("samplecols", v.t)
        if n.attr == "T" and v.kind == "tensor2":
            return Val("tensor2", f"(transposeT {v.t})")
        if v.kind in ("pbeam", "qbeam"):
            return self.beam_attr(v, n)
        self.fail(n, f"unsupported attribute .{n.attr} of a {v.kind} value")

    def beam_attr(self, b, n):
        a = n.attr
        if b.kind == "pbeam":
            if a == "particles":
                return Val("pcols", list(b.cols), owner=b)
            if a in ("x", "y"):                      # ParticleBeam.x / .y: columns 0 and 2 (tied by harness/translate_stats.py)
                return Val("sample", b.cols[0] if a == "x" else b.cols[2])
            if a == "particle_charges":
                return Val("sample", b.q, token="particle_charges")
            if a == "survival_probabilities":
                return Val("sample", b.s, token="survival_probabilities")
            if a == "energy":
                return Val("token", "energy")
            if a in ("mu_x", "mu_y"):
                return Val("Q", f"(beam_{a} {self.beam_term(b)})")
        else:
            if a == "_mu":
                return Val("qmu", list(b.mu), owner=b)
            if a in ("_cov", "energy"):
                return Val("token", a)
            if a == "total_charge":
                return Val("Q", b.q, token="total_charge")
            if a in ("mu_x", "mu_y"):
                return Val("Q", f"(beam_{a} {self.beam_term(b)})")
        self.fail(n, f"beam attribute .{a} is not part of the {b.kind} reading")

    @staticmethod
    def beam_term(b):
        if b.kind == "pbeam":
            if b.cols == [f"({c} p)" for c in PART_COLS] and b.q == "(p_q p)" and b.s == "(p_s p)":
                return "(Particles ps)"
            return f"(Particles (map (fun p => mkP {' '.join(b.cols)} {b.q} {b.s}) ps))"
        return f"(Params {' '.join(b.mu)} {b.q})"

    def e_UnaryOp(self, n, env):
        v = self.ev(n.operand, env)
        if isinstance(n.op, ast.USub):
            if v.kind == "Z":
                return Val("Z", f"(- {v.t})%Z")
            return Val("Q", f"(- {self.q(v, n)})")
        if isinstance(n.op, ast.Not):
            if v.kind == "pybool":
                return Val("pybool", not v.t)
            return Val("bool", f"(negb {self.boolean(v, n)})")
        self.fail(n, f"unsupported unary operator {type(n.op).__name__}")

    def e_BoolOp(self, n, env):
        vs = [self.ev(x, env) for x in n.values]
        if all(v.kind == "pybool" for v in vs):
            return Val("pybool", all(v.t for v in vs) if isinstance(n.op, ast.And) else any(v.t for v in vs))
        fn = "andb" if isinstance(n.op, ast.And) else "orb"
        t = self.boolean(vs[0], n)
        for v in vs[1:]:
            t = f"({fn} {t} {self.boolean(v, n)})"
        return Val("bool", t)

    def e_BinOp(self, n, env):
        a, b = self.ev(n.left, env), self.ev(n.right, env)
        op = type(n.op)
        if op is ast.FloorDiv:
            return Val("Z", f"({self.z(a, n.left, 'operand of //')} / {self.z(b, n.right, 'operand of //')})%Z")
        sym = {ast.Add: "+", ast.Sub: "-", ast.Mult: "*", ast.Div: "/"}.get(op)
        if sym is None:
            self.fail(n, f"unsupported binary operator {op.__name__}")
        if a.kind == "Z" and b.kind == "Z" and sym != "/":
            return Val("Z", f"({a.t} {sym} {b.t})%Z")
        if a.kind == "qlist" and b.kind == "qlist" and sym == "+":
            return Val("qlist", f"(py_ladd {a.t} {b.t})")
        if a.kind == "qlist" and sym == "/" and b.kind in ("Z", "Q"):
            return Val("qlist", f"(py_ldiv {a.t} {self.q(b, n.right)})")
        if a.kind == "qpair" and sym == "*" and b.kind in ("Z", "Q"):
            return Val("qpair", [f"({t} * {self.q(b, n.right)})" for t in a.t])
        if a.kind == "sample" and b.kind == "sample" and sym == "*":
            return Val("sample", f"({a.t} * {b.t})")
        return Val("Q", f"({self.q(a, n.left)} {sym} {self.q(b, n.right)})")

    def e_Compare(self, n, env):
        if len(n.ops) != 1:
            self.fail(n, "chained comparison")
        a, b = self.ev(n.left, env), self.ev(n.comparators[0], env)
        op = n.ops[0]
        if isinstance(op, (ast.Is, ast.IsNot)) and b.kind == "none":
            if a.kind in ("none", "pbeam", "qbeam", "tensor2"):
                return Val("pybool", (a.kind == "none") == isinstance(op, ast.Is))
            self.fail(n, f"`is None` test of a {a.kind} value")
        if isinstance(op, (ast.Eq, ast.NotEq)) and a.kind == "str" and b.kind == "str":
            return Val("pybool", (a.t == b.t) == isinstance(op, ast.Eq))
        if a.kind == "shapelen" and b.kind == "Z" and isinstance(op, ast.Gt):
            return Val("vecguard")
        self.fail(n, f"comparison of a {a.kind} with a {b.kind} value is outside the fragment")

    def index(self, n):
        """literal index of `x[k]` / `x[..., k]` (None if the slice has another form)"""
        sl = n.slice
        if lit_int(sl):
            return sl.value
        if isinstance(sl, ast.Tuple) and len(sl.elts) == 2 and is_ellipsis(sl.elts[0]) and lit_int(sl.elts[1]):
            return sl.elts[1].value
        return None

    def e_Subscript(self, n, env):
        v = self.ev(n.value, env)
        k = self.index(n)
        if v.kind in ("zpair", "qpair", "qlistpair") and k in (0, 1):
            plain = lit_int(n.slice)
            if v.kind != "qpair" and not plain:
                self.fail(n, f"index [..., k] into a {v.kind} value")
            return Val({"zpair": "Z", "qpair": "Q", "qlistpair": "qlist"}[v.kind], v.t[k])
        if v.kind == "qlist":
            sl = n.slice
            if lit_int(sl) and 0 <= sl.value <= 16:
                return Val("Q", f"(nth {sl.value} {v.t} 0)")
            if isinstance(sl, ast.Slice) and sl.step is None:
                lo, hi = (ast.unparse(sl.lower) if sl.lower else None), (ast.unparse(sl.upper) if sl.upper else None)
                if (lo, hi) == ("1", None):
                    return Val("qlist", f"(tl {v.t})")
                if (lo, hi) == (None, "-1"):
                    return Val("qlist", f"(removelast {v.t})")
            self.fail(n, "unsupported index / slice of a list value (only [k], [1:], [:-1])")
        if v.kind == "pcols" and k is not None and not lit_int(n.slice):
            if not 0 <= k <= 3:
                self.fail(n, f"particle coordinate {k} is outside the screen model (x, px, y, py only)")
            return Val("sample", v.t[k])
        if v.kind == "qmu" and k is not None and not lit_int(n.slice):
            if not 0 <= k <= 3:
                self.fail(n, f"mu component {k} is outside the screen model (x, px, y, py only)")
            return Val("Q", v.t[k])
        self.fail(n, f"unsupported subscript of a {v.kind} value")

    def e_Call(self, n, env):
        f = n.func
        if isinstance(f, ast.Attribute) and isinstance(f.value, ast.Name) and f.value.id == "torch" and "torch" not in env:
            import_origin(self.mod, "torch", n, [("import", "torch")])
            return self.torch_call(f.attr, n, env)
        if isinstance(f, ast.Name) and f.id not in env:
            if f.id in ("int", "len", "isinstance") and f.id in self.mod.bind:
                self.fail(n, f"`{f.id}` is rebound at module level")
            if f.id == "int" and len(n.args) == 1 and not n.keywords:
                return Val("Z", self.z(self.ev(n.args[0], env), n, "argument of int(..)"))
            if f.id == "len" and len(n.args) == 1 and not n.keywords and isinstance(n.args[0], ast.Attribute) and n.args[0].attr == "shape":
                v = self.ev(n.args[0].value, env)
                if v.kind in ("pcols", "sample", "token"):
                    return Val("shapelen")
                self.fail(n, f"len(X.shape) of a {v.kind} value")
            if f.id == "isinstance" and len(n.args) == 2 and not n.keywords:
                v, c = self.ev(n.args[0], env), self.ev(n.args[1], env)
                if c.kind != "class" or v.kind not in ("pbeam", "qbeam", "none"):
                    self.fail(n, "isinstance: only isinstance(<beam>, ParameterBeam | ParticleBeam) is understood")
                return Val("pybool", {"ParameterBeam": "qbeam", "ParticleBeam": "pbeam"}[c.t] == v.kind)
            if f.id in BEAM_CLASSES:
                return self.construct(n, env)
            self.fail(n, f"call of {f.id} is outside the translated fragment")
        if isinstance(f, ast.Attribute):
            if isinstance(f.value, ast.Name) and f.value.id == "self" and "self" in env:
                if f.attr == "get_read_beam" and self.cls == "Screen" and not n.args and not n.keywords:
                    self.accessor("get_read_beam", "return self._read_beam")
                    return env["self"].attrs["_read_beam"]
                self.fail(n, f"call of self.{f.attr} as an expression")
            v = self.ev(f.value, env)
            if f.attr == "clone" and not n.args and not n.keywords:
                if v.kind in ("pbeam", "qbeam"):
                    return self.copy_beam(v, owned=True)
                if v.kind in ("pcols", "qmu"):
                    return v
            if f.attr == "unsqueeze" and len(n.args) == 1 and not n.keywords and ast.unparse(n.args[0]) == "-1" and v.kind == "Q":
                return v
            self.fail(n, f"unsupported method call .{f.attr}(..) on a {v.kind} value")
        self.fail(n, "unsupported call")

    def accessor(self, name, body_src):
        """get_read_beam / set_read_beam are checked to be the trivial accessors of self._read_beam (+ cache reset)"""
        b = self.cb.get(name, [])
        if len(b) != 1 or b[0][0] != "def":
            raise TranslateError(f"Screen.{name} is not defined exactly once", self.mod.rel, self.cnode.lineno)
        body = [st for st in b[0][2].body if not is_docstring(st)]
        if "\n".join(ast.unparse(st) for st in body) != body_src or b[0][2].decorator_list:
            self.fail(b[0][2], f"Screen.{name} is no longer the plain accessor `{body_src}`")

    @staticmethod
    def copy_beam(b, owned):
        if b.kind == "pbeam":
            return Val("pbeam", None, cols=list(b.cols), q=b.q, s=b.s, owned=owned, frozen=False)
        return Val("qbeam", None, mu=list(b.mu), q=b.q, owned=owned, frozen=False)

    def meta_kw(self, n, env, allowed=("device", "dtype")):
        for kw in n.keywords:
            if kw.arg not in allowed:
                self.fail(n, f"unexpected keyword {kw.arg!r}")
            if self.ev(kw.value, env).kind != "meta":
                self.fail(n, f"keyword {kw.arg} is not a device/dtype bookkeeping value")

    def torch_call(self, name, n, env):
        args = n.args
        if name == "stack":
            if len(args) != 1 or n.keywords:
                self.fail(n, "torch.stack takes one argument here")
            v = self.ev(args[0], env)
            if v.kind == "tuple" and v.t and all(x.kind in ("Q", "Z") for x in v.t):
                return Val("qlist", "[" + "; ".join(self.q(x, n) for x in v.t) + "]")
            if v.kind == "tuple" and len(v.t) == 2 and all(x.kind == "sample" for x in v.t):
                return Val("samplestack", [x.t for x in v.t])
            self.fail(n, "torch.stack: only a list of numbers or a pair of per-particle values is understood")
        if name == "linspace":
            if len(args) != 3:
                self.fail(n, "torch.linspace takes three positional arguments here")
            self.meta_kw(n, env)
            lo, hi, cnt = (self.ev(a, env) for a in args)
            return Val("qlist", f"(py_linspace {self.q(lo, args[0])} {self.q(hi, args[1])} {self.z(cnt, args[2], 'number of steps')})")
        if name == "zeros":
            if len(args) != 1:
                self.fail(n, "torch.zeros takes one positional argument here")
            self.meta_kw(n, env)
            v = self.ev(args[0], env)
            if v.kind == "tuple" and len(v.t) == 2 and all(x.kind == "Z" for x in v.t):
                return Val("tensor2", f"(py_zeros2 {v.t[0].t} {v.t[1].t})")
            self.fail(n, "torch.zeros: only a (rows, columns) pair of integers is understood")
        if name == "zeros_like":
            if len(args) != 1 or n.keywords:
                self.fail(n, "torch.zeros_like takes one argument here")
            v = self.ev(args[0], env)
            if v.kind == "sample":
                return Val("sample", "0", token=getattr(v, "token", None), zeroed=True)
            if v.kind == "Q":
                return Val("Q", "0", token=getattr(v, "token", None), zeroed=True)
            self.fail(n, f"torch.zeros_like of a {v.kind} value")
        if name == "broadcast_tensors":
            if n.keywords:
                self.fail(n, "keywords of torch.broadcast_tensors")
            return Val("tuple", [self.ev(a, env) for a in args])
        if name == "histogramdd":
            if len(args) != 1 or sorted(k.arg or "" for k in n.keywords) != ["bins", "weight"]:
                self.fail(n, "torch.histogramdd: expected (sample, bins=.., weight=..)")
            kw = {k.arg: self.ev(k.value, env) for k in n.keywords}
            smp = self.ev(args[0], env)
            if smp.kind != "samplecols" or kw["bins"].kind != "qlistpair" or kw["weight"].kind != "sample":
                self.fail(n, f"torch.histogramdd of ({smp.kind}, bins={kw['bins'].kind}, weight={kw['weight'].kind}) is outside the reading")
            t = (f"(py_histogramdd2 (fun p => {smp.t[0]}) (fun p => {smp.t[1]}) {kw['bins'].t[0]} {kw['bins'].t[1]} "
                 f"(fun p => {kw['weight'].t}) ps)")
            return Val("tuple", [Val("tensor2", t), Val("meta")])
        if name in ("flipud", "fliplr"):
            if len(args) != 1 or n.keywords:
                self.fail(n, f"torch.{name} takes one argument")
            v = self.ev(args[0], env)
            if v.kind != "tensor2":
                self.fail(n, f"torch.{name} of a {v.kind} value")
            return Val("tensor2", f"({name}T {v.t})")
        self.fail(n, f"torch.{name} is outside the translated fragment")

    def construct(self, n, env):
        cls = n.func.id
        import_origin(self.mod, cls, n, [("from", "cheetah.particles")])
        if n.args or any(k.arg is None for k in n.keywords):
            self.fail(n, f"{cls}(..) must be called with keywords only")
        kw = {k.arg: self.ev(k.value, env) for k in n.keywords}
        if cls == "ParticleBeam":
            if sorted(kw) != ["energy", "particle_charges", "particles", "survival_probabilities"]:
                self.fail(n, "ParticleBeam(..): expected exactly particles, energy, particle_charges, survival_probabilities")
            if kw["particles"].kind != "pcols" or kw["energy"].kind != "token" or kw["energy"].t != "energy":
                self.fail(n, "ParticleBeam(..): particles / energy must be those of a beam")
            for k in ("particle_charges", "survival_probabilities"):
                if kw[k].kind != "sample" or getattr(kw[k], "token", None) != k:
                    self.fail(n, f"ParticleBeam(..): {k} must be incoming.{k} or zeros_like of it")
            b = Val("pbeam", None, cols=kw["particles"].t, q=kw["particle_charges"].t, s=kw["survival_probabilities"].t, owned=True, frozen=True)
            return Val("newbeam", self.beam_term(b))
        if sorted(kw) != ["cov", "energy", "mu", "total_charge"]:
            self.fail(n, "ParameterBeam(..): expected exactly mu, cov, energy, total_charge")
        if kw["mu"].kind != "qmu" or (kw["cov"].kind, kw["cov"].t) != ("token", "_cov") or (kw["energy"].kind, kw["energy"].t) != ("token", "energy"):
            self.fail(n, "ParameterBeam(..): mu / cov / energy must be those of a beam")
        if kw["total_charge"].kind != "Q" or getattr(kw["total_charge"], "token", None) != "total_charge":
            self.fail(n, "ParameterBeam(..): total_charge must be incoming.total_charge or zeros_like of it")
        return Val("newbeam", f"(Params {' '.join(kw['mu'].t)} {kw['total_charge'].t})")

    # ---- statements: continuation-passing; env["$state"] is the value written to the object (read beam / BPM reading)
    def block(self, stmts, env, cont):
        if not stmts:
            if cont is None:
                raise Falls()
            return cont(env)
        s, rest = stmts[0], stmts[1:]
        k = (lambda e: self.block(rest, e, cont)) if (rest or cont is not None) else None
        if is_docstring(s) or isinstance(s, ast.Pass):
            return self.block(rest, env, cont)
        if isinstance(s, ast.Return):
            if rest:
                self.fail(rest[0], "statement after return")
            if s.value is None:
                self.fail(s, "return without value")
            return self.finish(self.ev(s.value, env), env, s)
        if isinstance(s, ast.Raise):
            self.fail(s, "a `raise` is reached in the object reading")
        if isinstance(s, ast.If):
            c = self.ev(s.test, env)
            if c.kind == "vecguard" or (c.kind == "pybool" and not c.t and self.only_raises(s.body)):
                if not self.only_raises(s.body) or s.orelse:
                    self.fail(s, "vectorisation guard with a body other than `raise NotImplementedError(..)`")
                return self.block(rest, env, cont)
            if c.kind == "pybool":
                return self.block(list(s.body) if c.t else list(s.orelse), env, k)
            ct = self.boolean(c, s.test)
            try:
                a = self.block(list(s.body), env, k)
                b = self.block(list(s.orelse), env, k)
            except Falls:
                self.fail(s, "a path through this `if` reaches the end of the function without a return (the method would return None)")
            return f"(if {ct} then {a}\n   else {b})"
        if isinstance(s, ast.Expr) and isinstance(s.value, ast.Call):
            c = s.value
            f = c.func
            if (isinstance(f, ast.Attribute) and isinstance(f.value, ast.Name) and f.value.id == "self" and f.attr == "set_read_beam"
                    and self.cls == "Screen" and len(c.args) == 1 and not c.keywords):
                self.accessor("set_read_beam", "self._read_beam = value\nself.cached_reading = None")
                v = self.ev(c.args[0], env)
                env = dict(env)
                if v.kind in ("pbeam", "qbeam"):
                    v.frozen = True
                    env["$state"] = f"(Some {self.beam_term(v)})"
                elif v.kind == "none":
                    env["$state"] = "None"
                else:
                    self.fail(s, f"set_read_beam of a {v.kind} value")
                return self.block(rest, env, cont)
            self.fail(s, "expression statement (call for its side effect) is outside the translated fragment")
        if isinstance(s, ast.AugAssign):
            return self.block(rest, self.aug(s, env), cont)
        if isinstance(s, ast.Assign):
            if len(s.targets) != 1:
                self.fail(s, "chained assignment")
            return self.assign(s, s.targets[0], rest, env, cont)
        self.fail(s, f"unsupported statement {type(s).__name__}")

    @staticmethod
    def only_raises(body):
        return len(body) == 1 and isinstance(body[0], ast.Raise) and ast.unparse(body[0]).startswith("raise NotImplementedError(")

    def finish(self, v, env, node):
        raise NotImplementedError

    def local_beam(self, node, env, what):
        """(name, beam value) of `<local>.attr` where <local> is an owned, unfrozen copy"""
        if not (isinstance(node, ast.Attribute) and isinstance(node.value, ast.Name) and node.value.id in env):
            self.fail(node, f"{what}: only attributes of a local copy of the beam may be written")
        b = env[node.value.id]
        if b.kind not in ("pbeam", "qbeam"):
            self.fail(node, f"{what}: {node.value.id} is not a beam")
        if not b.owned:
            self.fail(node, f"{what}: write into {node.value.id!r}, which is the incoming beam itself (tracking must not modify its input)")
        if b.frozen:
            self.fail(node, f"{what}: write into {node.value.id!r} after it was handed to set_read_beam")
        return node.value.id, b

    def aug(self, s, env):
        if not isinstance(s.op, ast.Sub):
            self.fail(s, f"unsupported augmented assignment {type(s.op).__name__}")
        tg = s.target
        if not isinstance(tg, ast.Subscript):
            self.fail(s, "unsupported augmented assignment target")
        name, b = self.local_beam(tg.value, env, "in-place update")
        attr = tg.value.attr
        if (b.kind, attr) not in (("pbeam", "particles"), ("qbeam", "_mu")):
            self.fail(s, f"in-place update of .{attr} of a {b.kind}")
        k = self.index(tg)
        if k is None or lit_int(tg.slice):
            self.fail(s, "in-place update must have the form X[..., k] -= e")
        if not 0 <= k <= 3:
            self.fail(s, f"coordinate {k} is outside the screen model (x, px, y, py only)")
        d = self.q(self.ev(s.value, env), s.value, "subtracted value")
        nb = self.copy_beam(b, owned=True)
        col = nb.cols if b.kind == "pbeam" else nb.mu
        col[k] = f"({col[k]} - {d})"
        env = dict(env)
        env[name] = nb
        return env

    def assign(self, s, tg, rest, env, cont):
        v = self.ev(s.value, env)
        env = dict(env)
        if isinstance(tg, ast.Name):
            if tg.id == "self":
                self.fail(s, "assignment to self")
            if v.kind in ("Q", "Z", "qlist"):
                nm = self.fresh(tg.id)
                env[tg.id] = Val(v.kind, nm)
                return f"let {nm} := {v.t} in\n  " + self.block(rest, env, cont)
            env[tg.id] = v
            return self.block(rest, env, cont)
        if isinstance(tg, ast.Tuple) and v.kind == "tuple" and len(tg.elts) == len(v.t):
            for t, x in zip(tg.elts, v.t):
                if isinstance(t, ast.Name):
                    if t.id != "_":
                        env[t.id] = x
                elif isinstance(t, ast.Attribute):
                    env = self.attr_store(t, x, env, s)
                else:
                    self.fail(s, "unsupported assignment target")
            return self.block(rest, env, cont)
        if isinstance(tg, ast.Attribute):
            if isinstance(tg.value, ast.Name) and tg.value.id == "self":
                return self.self_store(s, tg, v, rest, env, cont)
            return self.block(rest, self.attr_store(tg, v, env, s), cont)
        self.fail(s, "unsupported assignment target")

    def attr_store(self, tg, v, env, s):
        """`copy.particles = <the same columns>` / `copy._mu = <the same components>` (broadcast / clone bookkeeping)"""
        name, b = self.local_beam(tg, env, "attribute assignment")
        want = {"pbeam": ("particles", "pcols"), "qbeam": ("_mu", "qmu")}[b.kind]
        if tg.attr != want[0] or v.kind != want[1]:
            self.fail(s, f"assignment of a {v.kind} value to .{tg.attr} of a {b.kind}")
        nb = self.copy_beam(b, owned=True)
        if b.kind == "pbeam":
            nb.cols = list(v.t)
        else:
            nb.mu = list(v.t)
        env = dict(env)
        env[name] = nb
        return env

    def self_store(self, s, tg, v, rest, env, cont):
        self.fail(s, f"assignment to self.{tg.attr} is outside the object reading")


class ScrProp(ScrFn):
    """a @property of Screen computed from the screen record alone"""

    def finish(self, v, env, node):
        k = SCR_PROPS[self.f.name]
        if k == "zpair" and v.kind == "tuple" and len(v.t) == 2 and all(x.kind == "Z" for x in v.t):
            return f"({v.t[0].t}, {v.t[1].t})"
        if k == "qlistpair" and v.kind == "tuple" and len(v.t) == 2 and all(x.kind == "qlist" for x in v.t):
            return f"({v.t[0].t}, {v.t[1].t})"
        if k == "qpair" and v.kind == "qpair":
            return f"({v.t[0]}, {v.t[1]})"
        if k == "qlist" and v.kind == "qlist":
            return v.t
        self.fail(node, f"{self.f.name} returns a {v.kind} value, expected {k}")


class ScrTrack(ScrFn):
    def finish(self, v, env, node):
        if v.kind == "newbeam":
            t = v.t
        elif v.kind in ("pbeam", "qbeam"):
            t = self.beam_term(v)              # incoming.clone(): an equal beam
        else:
            self.fail(node, f"track returns a {v.kind} value, not a beam")
        return f"({t}, {env['$state']})"


class BpmTrack(ScrTrack):
    def self_store(self, s, tg, v, rest, env, cont):
        if tg.attr != "reading" or v.kind != "qlist":
            self.fail(s, f"assignment of a {v.kind} value to self.{tg.attr}")
        env = dict(env)
        env["$state"] = v.t
        return self.block(rest, env, cont)


class ScrReading(ScrFn):
    def e_BoolOp(self, n, env):
        vs = [self.ev(x, env) for x in n.values]
        if isinstance(n.op, ast.Or) and all(v.kind == "vecguard" for v in vs):
            return Val("vecguard")
        return super().e_BoolOp(n, env)

    def self_store(self, s, tg, v, rest, env, cont):
        if tg.attr != "cached_reading" or v.kind != "tensor2":
            self.fail(s, f"assignment of a {v.kind} value to self.{tg.attr}")
        return self.block(rest, env, cont)          # the cache holds the image that is returned (bookkeeping)

    def finish(self, v, env, node):
        if v.kind != "tensor2":
            self.fail(node, f"reading returns a {v.kind} value, not an image")
        return v.t


def screen_self(extra=None):
    attrs = {"resolution": Val("zpair", ["(sW s)", "(sH s)"]), "binning": Val("Z", "(sbin s)"),
             "pixel_size": Val("qpair", ["(spx s)", "(spy s)"]), "misalignment": Val("qpair", ["(sdx s)", "(sdy s)"]),
             "is_active": Val("bool", "(sactive s)"), "is_blocking": Val("bool", "(sblocking s)")}
    attrs.update(extra or {})
    return Val("self", "s", attrs=attrs)


def incoming_beam(kind):
    if kind == "particles":
        return Val("pbeam", None, cols=[f"({c} p)" for c in PART_COLS], q="(p_q p)", s="(p_s p)", owned=False, frozen=False)
    return Val("qbeam", None, mu=["mx", "mpx", "my", "mpy"], q="q", owned=False, frozen=False)


BEAM_BINDERS = {"particles": "(ps : list particle)", "params": "(mx mpx my mpy q : Q)"}


def generate_screen(repo):
    repo = Path(repo)
    out, info, done = [], [], set()
    mod = Module(repo, SCR_FILE)
    cnode = class_node(mod, "Screen", ["Element"])
    import_origin(mod, "Element", cnode, [("from", "cheetah.accelerator.element")])
    cb = class_members(mod, cnode)

    def emit(tr, f, coq, binders, ty, env):
        tr.done = done
        for b in re.findall(r"\((\w[\w ]*) :", binders):
            tr.used.update(b.split())
        try:
            body = tr.block(list(f.body), env, None)
        except Falls:
            raise TranslateError(f"{tr.cls}.{f.name}: control reaches the end of the function without a return", tr.mod.rel, f.end_lineno)
        text = f"Definition {coq} {binders} : {ty} :=\n  {body}.\n"
        out.append(text)
        info.append(info_entry(tr.mod, tr.cls, f, coq, text))

    for prop in ("effective_resolution", "effective_pixel_size", "extent", "pixel_bin_edges", "pixel_bin_centers"):
        f = method_node(mod, cnode, cb, prop, decorators=("property",))
        if [a.arg for a in f.args.args] != ["self"]:
            mod.fail(f, "signature changed")
        emit(ScrProp(mod, "Screen", cnode, cb, f, None), f, f"gen_Screen_{prop}", "(s : screen)", SCR_TYPES[SCR_PROPS[prop]], {"self": screen_self()})
        done.add(prop)
    f = method_node(mod, cnode, cb, "track")
    if [a.arg for a in f.args.args] != ["self", "incoming"] or f.args.defaults:
        mod.fail(f, "signature changed: track(self, incoming) expected")
    for kind in ("particles", "params"):
        env = {"self": screen_self(), "incoming": incoming_beam(kind), "$state": "None"}
        emit(ScrTrack(mod, "Screen", cnode, cb, f, kind), f, f"gen_Screen_track_{kind}", f"(s : screen) {BEAM_BINDERS[kind]}", "(beam * option beam)%type", env)
    f = method_node(mod, cnode, cb, "reading", decorators=("property",))
    for kind in ("none", "particles"):
        rb = Val("none") if kind == "none" else incoming_beam("particles")
        env = {"self": screen_self({"cached_reading": Val("none"), "method": Val("str", "histogram"), "_read_beam": rb})}
        emit(ScrReading(mod, "Screen", cnode, cb, f, kind), f, f"gen_Screen_reading_{kind}",
             "(s : screen)" + ("" if kind == "none" else " " + BEAM_BINDERS["particles"]), "tensor2", env)
    # BPM
    bmod = Module(repo, BPM_FILE)
    bnode = class_node(bmod, "BPM", ["Element"])
    import_origin(bmod, "Element", bnode, [("from", "cheetah.accelerator.element")])
    bcb = class_members(bmod, bnode)
    f = method_node(bmod, bnode, bcb, "track")
    if [a.arg for a in f.args.args] != ["self", "incoming"] or f.args.defaults:
        bmod.fail(f, "signature changed: track(self, incoming) expected")
    for kind in ("particles", "params"):
        env = {"self": Val("self", "active", attrs={"is_active": Val("bool", "active")}), "incoming": incoming_beam(kind), "$state": None}
        tr = BpmTrack(bmod, "BPM", bnode, bcb, f, kind)
        emit(tr, f, f"gen_BPM_track_{kind}", f"(active : bool) {BEAM_BINDERS[kind]}", "(beam * list Q)%type", env)
    header = ("(** PART screen *)\n"
              "From Coq Require Import List Bool ZArith QArith.\n"
              "From Cheetah Require Import Diag.Screen Gen.DiagGenBase.\n"
              "Import ListNotations.\nOpen Scope Q_scope.\n\n")
    return header + "\n".join(out), info



# ================================================================================================= driver
GENERATORS = {"split": generate_split, "cavity": generate_cavity, "screen": generate_screen}
# (part, file, class, function) of everything translated: used by locate()
LOCATE = ([("split", ACC + sp["file"], sp["cls"], "split") for sp in SPLIT_SPECS]
          + [("cavity", CAV_FILE, "Cavity", fn) for fn in ("_track_beam", "transfer_map", "_cavity_rmatrix")]
          + [("cavity", "cheetah/utils/physics.py", None, "compute_relativistic_factors"), ("cavity", "cheetah/track_methods.py", None, "base_rmatrix")]
          + [("screen", ACC + "screen.py", "Screen", fn) for fn in ("effective_resolution", "effective_pixel_size", "extent", "pixel_bin_edges",
                                                                     "pixel_bin_centers", "track", "reading", "get_read_beam", "set_read_beam")]
          + [("screen", ACC + "bpm.py", "BPM", "track")])


def locate(repo, parts=PARTS):
    """Only locate the translated functions (no translation): [(part:qualified name, file, first_line, last_line, sha256)].
    Used to tell which translated functions an edit touches even when the translation itself fails."""
    out, mods = [], {}
    for part, rel, cls, fn in LOCATE:
        if part not in parts:
            continue
        if rel not in mods:
            mods[rel] = Module(Path(repo), rel)
        mod = mods[rel]
        cands = [c for c in mod.tree.body if isinstance(c, ast.ClassDef) and c.name == cls] if cls else [mod.tree]
        if isinstance(fn, tuple):
            fn = fn[0]
        fs = [f for c in cands for f in c.body if isinstance(f, ast.FunctionDef) and f.name == fn]
        if len(fs) != 1:
            raise TranslateError(f"{cls}.{fn} is not defined exactly once", rel, 0)
        first, last, seg = mod.segment(fs[0])
        out.append((f"{part}:{cls + '.' if cls else ''}{fn}", rel, first, last, hashlib.sha256(seg.encode()).hexdigest()))
    return out
FILE_HEADER = ("(** GENERATED by harness/translate_diag.py from the source text of /repo -- do not edit.\n"
               "    Readings and construct tables: see the docstring of harness/translate_diag.py.\n"
               "    The check regenerates this file on every run and compiles Gen/DiagGenEquiv.v against the fresh copy. *)\n")


def generate(repo, parts=PARTS):
    """Returns (coq_text, info list); each info entry carries `part`.  Raises TranslateError (with attribute `part`)."""
    texts, info = [FILE_HEADER + "\n"], []
    for p in PARTS:
        if p not in parts or p not in GENERATORS:
            continue
        try:
            t, i = GENERATORS[p](repo)
        except TranslateError as ex:
            ex.part = p
            raise
        for e in i:
            e["part"] = p
        texts.append(t + "\n")
        info += i
    return "".join(texts), info


def cut_parts(text, parts):
    """The hand-written companions are cut at lines `(** PART <name> *)`: keep the preamble and the requested parts."""
    chunks, cur, name = [], [], None
    for ln in text.splitlines(keepends=True):
        m = re.match(r"^\(\*\* PART (\w+) \*\)\s*$", ln)
        if m:
            chunks.append((name, "".join(cur)))
            cur, name = [], m.group(1)
        cur.append(ln)
    chunks.append((name, "".join(cur)))
    return "".join(t for nm, t in chunks if nm is None or nm in parts)


if __name__ == "__main__":
    repo = sys.argv[1] if len(sys.argv) > 1 else "/repo"
    parts = tuple(sys.argv[3].split(",")) if len(sys.argv) > 3 else PARTS
    try:
        text, info = generate(repo, parts)
    except TranslateError as ex:
        print("TRANSLATOR FAILED:", ex)
        sys.exit(2)
    if len(sys.argv) > 2 and sys.argv[2] != "-":
        Path(sys.argv[2]).write_text(text)
    else:
        print(text)
