"""Self-test of the source-to-Coq translator stage for the `split` methods, Cavity._track_beam and Screen / BPM
(harness/translate_diag.py, translate_stage.translator_obligation_diag).

Copies /repo (without .git) to a scratch directory under /tmp (removed afterwards), points VERIF_REPO at the copy and runs
translator_obligation_diag (with the part the edit belongs to) on
  * the unchanged copy                                   -> must be ok (all parts together and each part alone)
  * one-line SEMANTIC mutations of translated functions  -> must be translator_failed or equivalence_broken
  * COSMETIC edits                                       -> must be ok (the table says whether the generated text is identical)
  * the seeded patches /verif/seeded/{C06,C20,C16,C10}-*/patch.diff: reports which touch a translated function and whether the
    stage notices them
  * the reverted repairs 22a0e46 (F14: Screen shifted px instead of y) and 877be85 (F29: thin corrector lost when split),
    taken from /repo's git history and applied in reverse to the scratch copy -> must be detected.
Usage:  PYTHONPATH=/verif/harness /venv/bin/python harness/translate_diag_selftest.py [--only substring] [--no-seeded]
Exit status 0 iff every expectation holds.
"""
import os
import re
import shutil
import subprocess
import sys
import time

# seeded patches that edit a translated function in a way the reading does not cover (stated in the module docstring of translate_diag.py:
# float rounding, dtype and device are outside the translation); the property's check catches them through its oracles
EXPECTED_INVISIBLE = {"C16-8": "dtype/device-only edit of HorizontalCorrector.split (the same function over Q); caught by C16's split-after-history oracle"}
from pathlib import Path

SCRATCH = Path(f"/tmp/translate_diag_selftest_{os.getpid()}")
COPY = SCRATCH / "repo"
os.environ["VERIF_REPO"] = str(COPY)
sys.path.insert(0, str(Path(__file__).resolve().parent))
import common  # noqa: E402
import translate_diag  # noqa: E402
import translate_stage  # noqa: E402

ACC = "cheetah/accelerator/"
DR, QD, HC, VC, DP, SO, CV, SC, BP, RB = (ACC + x for x in ("drift.py", "quadrupole.py", "horizontal_corrector.py", "vertical_corrector.py",
                                                              "dipole.py", "solenoid.py", "cavity.py", "screen.py", "bpm.py", "rbend.py"))
NS = "num_splits = torch.ceil(torch.max(self.length) / resolution).int()"
THIN = "        if num_splits < 1:\n"
QUAD_SPLIT_HEAD = "    def split(self, resolution: torch.Tensor) -> list[Element]:\n        num_splits = torch.ceil(torch.max(self.length) / resolution).int()\n        return [\n            Quadrupole("

# (id, expectation, part, file, old, new, description)   expectation: "detect" | "ok" | "info"
MUTATIONS = [
    # ------------------------------------------------------------------------------------------------ split: semantic
    ("C01", "detect", "split", DR, NS, NS.replace("torch.ceil", "torch.floor"), "Drift.split: ceil -> floor"),
    ("C02", "detect", "split", QD, NS, NS.replace("torch.ceil", "torch.round"), "Quadrupole.split: ceil -> round"),
    ("C03", "detect", "split", DR, "self.length / num_splits,", "resolution,", "Drift.split: piece length = resolution"),
    ("C04", "detect", "split", HC, "self.angle / num_splits,", "self.angle,", "HorizontalCorrector.split: angle not divided"),
    ("C05", "detect", "split", VC, "self.angle / num_splits,", "self.angle / (num_splits + 1),", "VerticalCorrector.split: angle / (n + 1)"),
    ("C06", "detect", "split", VC, "self.length / num_splits,", "self.length / resolution,", "VerticalCorrector.split: length / resolution"),
    ("C07", "detect", "split", HC, THIN, "        if num_splits < 0:\n", "HorizontalCorrector.split: guard n < 1 -> n < 0 (F29 back)"),
    ("C08", "detect", "split", VC, THIN, "        if num_splits <= 1:\n", "VerticalCorrector.split: guard n < 1 -> n <= 1"),
    ("C09", "detect", "split", HC, "            return [self]\n", "            return []\n", "HorizontalCorrector.split: thin corrector dropped"),
    ("C10", "detect", "split", DR, "for i in range(num_splits)", "for i in range(num_splits - 1)", "Drift.split: one piece fewer"),
    ("C11", "detect", "split", QD, "for i in range(num_splits)", "for i in range(num_splits + 1)", "Quadrupole.split: one piece more"),
    ("C12", "detect", "split", QD, "                self.k1,\n                misalignment=self.misalignment,", "                self.k1 / num_splits,\n                misalignment=self.misalignment,",
     "Quadrupole.split: k1 divided"),
    ("C13", "detect", "split", QD, "                tilt=self.tilt,\n                num_steps=self.num_steps,", "                tilt=-self.tilt,\n                num_steps=self.num_steps,",
     "Quadrupole.split: tilt negated"),
    ("C14", "detect", "split", QD, "                tilt=self.tilt,\n                num_steps=self.num_steps,", "                num_steps=self.num_steps,",
     "Quadrupole.split: tilt dropped (pieces take the default)"),
    ("C15", "detect", "split", QD, "                tracking_method=self.tracking_method,\n                dtype=self.length.dtype,", "                dtype=self.length.dtype,",
     "Quadrupole.split: tracking method dropped"),
    ("C16", "detect", "split", DR, NS, NS.replace("/ resolution", "* resolution"), "Drift.split: length * resolution"),
    ("C17", "detect", "split", DR, NS, NS.replace("torch.max(self.length) / resolution", "resolution / torch.max(self.length)"), "Drift.split: inverted quotient"),
    ("C18", "detect", "split", DP, "        return [self]\n\n    def __repr__(self):", "        return []\n\n    def __repr__(self):", "Dipole.split: returns no element"),
    ("C19", "detect", "split", SO, "        return [self]\n\n    def plot", "        return [self, self]\n\n    def plot", "Solenoid.split: element duplicated"),
    ("C20", "detect", "split", RB, "    def __init__(", "    def split(self, resolution):\n        return []\n\n    def __init__(", "RBend overrides split"),
    ("C21", "detect", "split", HC, "                self.length / num_splits,\n                self.angle / num_splits,", "                self.angle / num_splits,\n                self.length / num_splits,",
     "HorizontalCorrector.split: length and angle swapped"),
    ("C22", "detect", "split", QD, "num_steps=self.num_steps,", "num_steps=self.num_steps * num_splits,", "Quadrupole.split: num_steps multiplied"),
    ("C23", "detect", "split", DR, "                self.length / num_splits,\n                tracking_method", "                self.length / num_splits,\n                name=self.name,\n                tracking_method",
     "Drift.split: pieces keep the name (duplicate names)"),
    # ------------------------------------------------------------------------------------------------ split: cosmetic
    ("K01", "ok", "split", DR, "for i in range(num_splits)", "for _ in range(num_splits)", "loop variable renamed"),
    ("K02", "ok", "split", HC, NS + "\n", "# number of pieces\n        " + NS.replace("num_splits", "n_pieces") + "\n        num_splits = n_pieces\n", "comment + renamed local + alias"),
    ("K03", "ok", "split", QD, "                misalignment=self.misalignment,\n                tilt=self.tilt,", "                tilt=self.tilt,\n                misalignment=self.misalignment,",
     "keyword order swapped"),
    ("K04", "ok", "split", VC, "            return [self]\n        return [", "            return [self]\n        else:\n            pass\n        return [", "else: pass added"),
    ("K05", "ok", "split", DR, "                self.length / num_splits,\n                tracking_method", "                length=self.length / num_splits,\n                tracking_method",
     "positional argument passed by keyword"),
    ("K06", "ok", "split", DP, "        # TODO: Implement splitting for dipole properly, for now just returns the\n        # element itself\n        return [self]",
     '        """Dipoles are not split."""\n        return [self]', "comment replaced by a docstring"),
    # ------------------------------------------------------------------------------------------------ cavity: semantic
    ("A01", "detect", "cavity", CV, "T566 = 1.5 * self.length * igamma2 / beta0**3", "T566 = -1.5 * self.length * igamma2 / beta0**3", "_track_beam: sign of the V = 0 T566"),
    ("A02", "detect", "cavity", CV, "T566 = 1.5 * self.length * igamma2 / beta0**3", "T566 = 1.5 * self.length * igamma2 / beta0**2", "_track_beam: exponent of beta0 in T566"),
    ("A03", "detect", "cavity", CV, "delta_energy = self.voltage * torch.cos(phi)", "delta_energy = self.voltage * torch.sin(phi)", "_track_beam: cos -> sin of the phase in the energy gain"),
    ("A04", "detect", "cavity", CV, "incoming._mu[..., 5] * incoming.energy * beta0 / (", "incoming._mu[..., 5] * incoming.energy / (", "_track_beam (ParameterBeam): dropped beta0 in the new delta"),
    ("A05", "detect", "cavity", CV, "if torch.any(delta_energy > 0):", "if torch.any(delta_energy >= 0):", "_track_beam: > -> >= in the energy-gain branch"),
    ("A06", "detect", "cavity", CV, "if torch.any(incoming.energy + delta_energy > 0):", "if torch.any(incoming.energy + delta_energy >= 0):", "_track_beam: > -> >= in the outer guard"),
    ("A07", "detect", "cavity", CV, "* torch.sin(phi)\n                    / (beta1**3 * gamma1**3 * (gamma0 - gamma1) ** 2)", "* torch.cos(phi)\n                    / (beta1**3 * gamma1**3 * (gamma0 - gamma1) ** 2)", "_track_beam: sin -> cos in T556"),
    ("A08", "detect", "cavity", CV, "                    / 2.0\n", "                    / 3.0\n", "_track_beam: constant of T555"),
    ("A09", "detect", "cavity", CV, "+ T556 * incoming._mu[..., 4] * incoming._mu[..., 5]", "- T556 * incoming._mu[..., 4] * incoming._mu[..., 5]", "_track_beam (ParameterBeam): sign of the T556 term"),
    ("A10", "detect", "cavity", CV, "+ T555.unsqueeze(-1) * incoming.particles[..., 4] ** 2", "+ T555.unsqueeze(-1) * incoming.particles[..., 4] ** 3", "_track_beam (ParticleBeam): exponent of the T555 term"),
    ("A11", "detect", "cavity", CV, "outgoing_cov[..., 5, 4] = outgoing_cov[..., 4, 5]", "outgoing_cov[..., 5, 4] = outgoing_cov[..., 5, 5]", "_track_beam: covariance entry (5,4) copied from (5,5)"),
    ("A12", "detect", "cavity", CV, "                outgoing_cov[..., 5, 5] = incoming._cov[..., 5, 5]\n", "", "_track_beam: covariance overwrite (5,5) removed"),
    ("A13", "detect", "cavity", CV, "outgoing_particles = torch.matmul(incoming.particles, tm.transpose(-2, -1))", "outgoing_particles = torch.matmul(incoming.particles, tm)", "_track_beam (ParticleBeam): particles @ tm instead of tm^T"),
    ("A14", "detect", "cavity", CV, "torch.matmul(incoming._cov, tm.transpose(-2, -1))", "torch.matmul(incoming._cov, tm)", "_track_beam (ParameterBeam): tm cov tm instead of tm cov tm^T"),
    ("A15", "detect", "cavity", CV, "            k = 2 * torch.pi * self.frequency / constants.speed_of_light", "            k = torch.pi * self.frequency / constants.speed_of_light", "_track_beam: wave number halved"),
    ("A16", "detect", "cavity", CV, "dgamma = self.voltage / electron_mass_eV", "dgamma = delta_energy / electron_mass_eV", "_track_beam: dgamma from delta_energy"),
    ("A17", "detect", "cavity", CV, "outgoing_energy = incoming.energy + delta_energy", "outgoing_energy = incoming.energy - delta_energy", "_track_beam: sign of the energy gain"),
    ("A18", "detect", "cavity", CV, "* k + phi) - torch.cos(phi)", "* k + phi) + torch.cos(phi)", "_track_beam (ParameterBeam): sign in the new delta"),
    ("A19", "detect", "cavity", CV, "                        -1\n                        * incoming.particles[..., 4]", "                        1\n                        * incoming.particles[..., 4]", "_track_beam (ParticleBeam): sign of tau in the phase"),
    ("A20", "detect", "cavity", CV, "                energy=outgoing_energy,\n                total_charge", "                energy=incoming.energy,\n                total_charge", "_track_beam (ParameterBeam): energy not updated"),
    ("A21", "detect", "cavity", CV, "survival_probabilities=incoming.survival_probabilities,", "survival_probabilities=incoming.particle_charges,", "_track_beam: survival probabilities replaced by charges"),
    ("A22", "detect", "cavity", CV, "r66 = Ei / Ef * beta0 / beta1", "r66 = Ei / Ef", "_cavity_rmatrix (called through transfer_map): dropped beta ratio"),
    ("A23", "detect", "cavity", CV, "outgoing_particles[..., 4] = outgoing_particles[..., 4] + (", "outgoing_particles[..., 4] = outgoing_particles[..., 5] + (", "_track_beam (ParticleBeam): tau update starts from delta"),
    ("A24", "detect", "cavity", CV, "                outgoing_mu[..., 4] = outgoing_mu[..., 4] + (", "                outgoing_mu[..., 5] = outgoing_mu[..., 4] + (", "_track_beam (ParameterBeam): second-order term written to index 5"),
    ("A25", "detect", "cavity", CV, "                    * (beta0**3 * gamma0**3 - beta1**3 * gamma1**3)", "                    * (beta0**3 * gamma0**3 + beta1**3 * gamma1**3)", "_track_beam: sign inside T566"),
    ("A26", "detect", "cavity", CV, "        phi = torch.deg2rad(self.phase)\n\n        tm", "        phi = self.phase\n\n        tm", "_track_beam: phase not converted to radians"),
    ("A27", "detect", "cavity", CV, "            (self.voltage != 0).unsqueeze(-1).unsqueeze(-1),", "            (self.voltage > 0).unsqueeze(-1).unsqueeze(-1),", "Cavity.transfer_map: switch V != 0 -> V > 0"),
    # ------------------------------------------------------------------------------------------------ cavity: cosmetic
    ("L01", "ok", "cavity", CV, ("all", "dgamma"), "d_gamma", "local renamed everywhere"),
    ("L02", "ok", "cavity", CV, "        T556 = torch.full_like(self.length, 0.0)\n        T555 = torch.full_like(self.length, 0.0)\n", "        T555 = torch.full_like(self.length, 0.0)\n        T556 = torch.full_like(self.length, 0.0)\n",
     "independent assignments reordered"),
    ("L03", "ok", "cavity", CV, "        else:  # ParticleBeam\n            outgoing_particles = torch.matmul", "        elif isinstance(incoming, ParticleBeam):  # explicit\n            outgoing_particles = torch.matmul",
     "else -> elif isinstance(incoming, ParticleBeam)"),
    ("L04", "ok", "cavity", CV, "        Track particles through the cavity. The input can be a `ParameterBeam` or a\n        `ParticleBeam`.\n        \"\"\"\n        gamma0", "        Track either kind of beam.\n        \"\"\"\n        # relativistic factors of the incoming beam\n        gamma0",
     "docstring + comment"),
    ("L05", "ok", "cavity", CV, "T566 * incoming._mu[..., 5] ** 2\n                    + T556 * incoming._mu[..., 4] * incoming._mu[..., 5]", "T566 * incoming._mu[..., 5] ** 2\n                    + T556 * (incoming._mu[..., 4] * incoming._mu[..., 5])",
     "re-associated product (ring identity)"),
    ("I01", "info", "cavity", CV, "            k = 2 * torch.pi * self.frequency / constants.speed_of_light", "            k = torch.pi * 2 * self.frequency / constants.speed_of_light",
     "commuted product inside the argument of cos (flagged: comparison under cos is syntactic)"),
    # ------------------------------------------------------------------------------------------------ screen: semantic
    ("B01", "detect", "screen", SC, "            self.resolution[0] // self.binning,", "            self.resolution[0] / self.binning,", "effective_resolution: // -> /"),
    ("B02", "detect", "screen", SC, "            self.resolution[0] // self.binning,\n            self.resolution[1] // self.binning,", "            self.resolution[1] // self.binning,\n            self.resolution[0] // self.binning,",
     "effective_resolution: width and height swapped"),
    ("B03", "detect", "screen", SC, "return self.pixel_size * self.binning", "return self.pixel_size / self.binning", "effective_pixel_size: * -> /"),
    ("B04", "detect", "screen", SC, "                -self.resolution[0] * self.pixel_size[0] / 2,\n                self.resolution[0]", "                self.resolution[0] * self.pixel_size[0] / 2,\n                self.resolution[0]",
     "extent: sign of the left edge"),
    ("B05", "detect", "screen", SC, "                self.resolution[1] * self.pixel_size[1] / 2,\n            ]", "                self.resolution[1] * self.pixel_size[0] / 2,\n            ]", "extent: top edge with the pixel width"),
    ("B06", "detect", "screen", SC, "int(self.effective_resolution[0]) + 1,", "int(self.effective_resolution[0]),", "pixel_bin_edges: one edge fewer in x"),
    ("B07", "detect", "screen", SC, "int(self.effective_resolution[1]) + 1,", "int(self.effective_resolution[0]) + 1,", "pixel_bin_edges: y edges counted with the x resolution"),
    ("B08", "detect", "screen", SC, "int(self.effective_resolution[0]) + 1,", "int(self.resolution[0]) + 1,", "pixel_bin_edges: binning ignored"),
    ("B09", "detect", "screen", SC, "(self.pixel_bin_edges[0][1:] + self.pixel_bin_edges[0][:-1]) / 2,", "(self.pixel_bin_edges[1][1:] + self.pixel_bin_edges[0][:-1]) / 2,", "pixel_bin_centers: x centers from y edges"),
    ("B10", "detect", "screen", SC, "(self.pixel_bin_edges[1][1:] + self.pixel_bin_edges[1][:-1]) / 2,", "(self.pixel_bin_edges[1][1:] + self.pixel_bin_edges[1][:-1]) / 4,", "pixel_bin_centers: / 2 -> / 4"),
    ("B11", "detect", "screen", SC, "copy_of_incoming.particles[..., 2] -= self.misalignment[", "copy_of_incoming.particles[..., 1] -= self.misalignment[", "track: y-misalignment applied to px (F14 back)"),
    ("B12", "detect", "screen", SC, "copy_of_incoming._mu[..., 2] -= self.misalignment[..., 1]", "copy_of_incoming._mu[..., 2] -= self.misalignment[..., 0]", "track (ParameterBeam): y shifted by the x-misalignment"),
    ("B13", "detect", "screen", SC, "copy_of_incoming._mu[..., 0] -= self.misalignment[..., 0]", "copy_of_incoming._mu[..., 0] += self.misalignment[..., 0]", "track (ParameterBeam): sign of the shift"),
    ("B14", "detect", "screen", SC, "if self.is_active and self.is_blocking:", "if self.is_active and not self.is_blocking:", "track: blocking logic inverted"),
    ("B15", "detect", "screen", SC, "if self.is_active and self.is_blocking:", "if self.is_blocking:", "track: an inactive screen blocks"),
    ("B16", "detect", "screen", SC, "        if self.is_active:\n            copy_of_incoming", "        if not self.is_active:\n            copy_of_incoming", "track: records when inactive"),
    ("B17", "detect", "screen", SC, "survival_probabilities=torch.zeros_like(\n                        incoming.survival_probabilities\n                    ),", "survival_probabilities=incoming.survival_probabilities,",
     "track: blocking screen lets the particles survive"),
    ("B18", "detect", "screen", SC, "particle_charges=incoming.particle_charges,\n                    survival_probabilities=torch.zeros_like(", "particle_charges=torch.zeros_like(incoming.particle_charges),\n                    survival_probabilities=torch.zeros_like(",
     "track: blocking zeroes the charges too"),
    ("B19", "detect", "screen", SC, "total_charge=torch.zeros_like(incoming.total_charge),", "total_charge=incoming.total_charge,", "track (ParameterBeam): blocking keeps the charge"),
    ("B20", "detect", "screen", SC, "copy_of_incoming = incoming.clone()", "copy_of_incoming = incoming", "track: the incoming beam itself is shifted"),
    ("B21", "detect", "screen", SC, "self.set_read_beam(copy_of_incoming)", "self.set_read_beam(incoming)", "track: the unshifted beam is recorded"),
    ("B22", "detect", "screen", SC, "torch.stack((read_beam.x, read_beam.y)).T,", "torch.stack((read_beam.y, read_beam.x)).T,", "reading: x and y axes swapped"),
    ("B23", "detect", "screen", SC, "image = torch.flipud(image.T)", "image = image.T", "reading: flip dropped"),
    ("B24", "detect", "screen", SC, "image = torch.flipud(image.T)", "image = torch.flipud(image)", "reading: transpose dropped"),
    ("B25", "detect", "screen", SC, "image = torch.flipud(image.T)", "image = torch.fliplr(image.T)", "reading: flipud -> fliplr"),
    ("B26", "detect", "screen", SC, "weight=read_beam.particle_charges\n                    * read_beam.survival_probabilities,", "weight=read_beam.particle_charges,", "reading: survival probabilities ignored"),
    ("B27", "detect", "screen", SC, "(int(self.effective_resolution[1]), int(self.effective_resolution[0])),", "(int(self.effective_resolution[0]), int(self.effective_resolution[1])),", "reading (no beam): shape transposed"),
    ("B28", "detect", "screen", SC, "bins=self.pixel_bin_edges,", "bins=self.pixel_bin_centers,", "reading: histogram over the bin centers"),
    ("B29", "detect", "screen", BP, "        elif isinstance(incoming, ParticleBeam):\n            self.reading = torch.stack([incoming.mu_x, incoming.mu_y])", "        elif isinstance(incoming, ParticleBeam):\n            self.reading = torch.stack([incoming.mu_y, incoming.mu_x])",
     "BPM.track (ParticleBeam): x and y swapped"),
    ("B30", "detect", "screen", BP, "self.reading = torch.stack([incoming.mu_x, incoming.mu_y])", "self.reading = torch.stack([incoming.mu_x, incoming.mu_x])", "BPM.track (ParameterBeam): mu_x twice"),
    ("B31", "detect", "screen", SC, "        self._read_beam = value\n        self.cached_reading = None\n", "        self._read_beam = value\n", "set_read_beam no longer resets the cached reading"),
    ("B32", "detect", "screen", SC, "                    * read_beam.survival_probabilities,", "                    * read_beam.particle_charges,", "reading: weight = charge squared"),
    # ------------------------------------------------------------------------------------------------ screen: cosmetic
    ("M01", "ok", "screen", SC, ("all", "copy_of_incoming"), "snapshot", "local renamed everywhere"),
    ("M02", "ok", "screen", SC, "        # Record the beam only when the screen is active\n", "        # record\n", "comment changed"),
    ("M03", "ok", "screen", SC, "                image, _ = torch.histogramdd(", "                image, bin_edges = torch.histogramdd(", "unused result named"),
    ("M04", "ok", "screen", SC, "                copy_of_incoming._mu[..., 0] -= self.misalignment[..., 0]\n                copy_of_incoming._mu[..., 2] -= self.misalignment[..., 1]\n",
     "                copy_of_incoming._mu[..., 2] -= self.misalignment[..., 1]\n                copy_of_incoming._mu[..., 0] -= self.misalignment[..., 0]\n", "independent in-place updates reordered"),
    ("M05", "ok", "screen", SC, "    def effective_pixel_size(self) -> torch.Tensor:\n        return", "    def effective_pixel_size(self) -> torch.Tensor:\n        \"\"\"Size of a binned pixel.\"\"\"\n        return", "docstring added"),
    ("M06", "ok", "screen", SC, "            self.resolution[0] // self.binning,", "            (self.resolution[0]) // (self.binning),", "redundant parentheses"),
    ("M07", "ok", "screen", BP, "        return incoming.clone()\n", "        outgoing = incoming.clone()\n        return outgoing\n", "BPM.track: result bound to a local first"),
]
# the repairs whose reversal must be detected: (finding, commit, part)
REVERTS = [("F14", "22a0e46", "screen"), ("F29", "877be85", "split")]
SEEDED_PROPS = ("C06", "C20", "C16", "C10")


def apply_mutation(m):
    _, _, _, rel, old, new, _ = m
    p = COPY / rel
    src = p.read_text()
    if isinstance(old, tuple):
        if src.count(old[1]) < 1:
            raise RuntimeError(f"text {old[1]!r} not found in {rel}")
        p.write_text(src.replace(old[1], new))
        return {rel: src}
    if src.count(old) < 1:
        raise RuntimeError(f"text {old!r} not found in {rel}")
    p.write_text(src.replace(old, new, 1))
    return {rel: src}


def restore(backup):
    for rel, src in backup.items():
        p = COPY / rel
        if src is None:
            p.unlink(missing_ok=True)
        else:
            p.write_text(src)


def touched(base, parts=translate_diag.PARTS):
    try:
        now = translate_diag.locate(COPY, parts)
    except translate_diag.TranslateError as ex:
        return [f"<{ex.reason}>"]
    b = {x[0]: x[4] for x in base}
    return [x[0] for x in now if b.get(x[0]) != x[4]]


def describe(r):
    if r["status"] == "ok":
        return "ok"
    if r["status"] == "translator_failed":
        return f"translator_failed  {r.get('file')}:{r.get('line')}  {str(r.get('reason'))[:90]}"
    if r["status"] == "equivalence_broken":
        return f"equivalence_broken  {r.get('file')} {r.get('lemma')}"
    return f"{r['status']}  {str(r.get('reason'))[:120]}"


def apply_patch(text, reverse=False):
    files = re.findall(r"^\+\+\+ b/(\S+)", text, flags=re.M)
    backup = {f: ((COPY / f).read_text() if (COPY / f).exists() else None) for f in files}
    pr = subprocess.run(["patch", "-p1", "-s", "--no-backup-if-mismatch"] + (["-R"] if reverse else []), cwd=COPY, input=text, capture_output=True, text=True)
    return files, backup, pr


def cleanup_patch(backup):
    restore(backup)
    for junk in list(COPY.rglob("*.orig")) + list(COPY.rglob("*.rej")):
        junk.unlink()


def main():
    only = sys.argv[sys.argv.index("--only") + 1] if "--only" in sys.argv else None
    if SCRATCH.exists():
        shutil.rmtree(SCRATCH)
    SCRATCH.mkdir(parents=True)
    bad = 0
    try:
        shutil.copytree("/repo", COPY, ignore=shutil.ignore_patterns(".git", "__pycache__", "*.pyc"))
        assert common.REPO == COPY
        t0 = time.time()
        r0 = translate_stage.translator_obligation_diag()
        base = translate_diag.locate(COPY)
        print(f"{'BASE':5} {'ok':7} {describe(r0):60} unchanged copy of /repo, all parts   [{r0['wall_s']} s]")
        if r0["status"] != "ok":
            print(r0)
            return 1
        sha0 = {}
        for part in translate_diag.PARTS:
            rp = translate_stage.translator_obligation_diag(parts=(part,))
            sha0[part] = rp.get("generated_sha256")
            print(f"{'BASE':5} {'ok':7} {describe(rp):60} part {part} alone   [{rp['wall_s']} s]")
            if rp["status"] != "ok":
                print(rp)
                return 1
        counts = {"detect": [0, 0], "ok": [0, 0], "info": [0, 0]}
        for m in MUTATIONS:
            if only and only not in m[0] and only not in m[6] and only != m[2]:
                continue
            backup = apply_mutation(m)
            try:
                r = translate_stage.translator_obligation_diag(parts=(m[2],))
                tch = touched(base)
            finally:
                restore(backup)
            exp = m[1]
            good = (r["status"] in ("translator_failed", "equivalence_broken")) if exp == "detect" else (r["status"] == "ok") if exp == "ok" else True
            if not tch and r["status"] != "translator_failed":      # (a translator failure shows by itself that the edit reached the fragment)
                good = False        # a mutation that does not reach a translated function tests nothing
                r = dict(r, status="mutation-missed-its-target", reason="the edit changed no translated function")
            bad += 0 if good else 1
            counts[exp][0] += 1
            counts[exp][1] += 1 if good else 0
            same = ""
            if r["status"] == "ok":
                same = "  (generated text identical)" if r.get("generated_sha256") == sha0[m[2]] else "  (generated text differs: proofs absorb it)"
            print(f"{m[0]:5} {exp:7} {'PASS' if good else 'FAIL'}  {describe(r) + same:100}  | {m[6]}  [{r['wall_s']} s]", flush=True)
        r1 = translate_stage.translator_obligation_diag()
        if r1["status"] != "ok" or r1["generated_sha256"] != r0["generated_sha256"]:
            print("FAIL: the scratch copy was not restored faithfully")
            bad += 1
        if "--no-seeded" not in sys.argv and not only:
            print("\nreverted repairs:")
            for fid, commit, part in REVERTS:
                diff = subprocess.run(["git", "-C", "/repo", "show", "--format=", commit, "--", "cheetah"], capture_output=True, text=True).stdout
                files, backup, pr = apply_patch(diff, reverse=True)
                try:
                    if pr.returncode != 0:
                        print(f"{fid:6} reverse of {commit} does not apply: {pr.stdout[-200:]}")
                        bad += 1
                        continue
                    tch = touched(base)
                    r = translate_stage.translator_obligation_diag(parts=(part,))
                finally:
                    cleanup_patch(backup)
                good = r["status"] in ("translator_failed", "equivalence_broken")
                bad += 0 if good else 1
                print(f"{fid:6} {commit} reverted: touches {','.join(tch):40} {'DETECTED' if good else 'MISSED  '}  {describe(r)}", flush=True)
            print("\nseeded patches:")
            seeded = sorted(p for p in (common.VERIF / "seeded").glob("C*-*/patch.diff") if p.parent.name[:3] in SEEDED_PROPS)
            for pd in seeded:
                files, backup, pr = apply_patch(pd.read_text())
                try:
                    if pr.returncode != 0:
                        print(f"{pd.parent.name:6} patch does not apply: {pr.stdout[-200:]}")
                        bad += 1
                        continue
                    tch = touched(base)
                    r = translate_stage.translator_obligation_diag()
                finally:
                    cleanup_patch(backup)
                if tch and r["status"] == "ok" and r.get("generated_sha256") == r0["generated_sha256"]:
                    # the edit lies inside a translated function but in a branch that no reading reaches (documented as NOT
                    # covered, e.g. method "kde" / the ParameterBeam image of Screen.reading): the generated text is unchanged
                    print(f"{pd.parent.name:6} touches {','.join(tch):45} NOT COVERED  only an untranslated branch of the function changed "
                          f"(generated text identical)", flush=True)
                elif tch and pd.parent.name in EXPECTED_INVISIBLE and r["status"] == "ok":
                    print(f"{pd.parent.name:6} touches {','.join(tch):45} INVISIBLE (documented)  {EXPECTED_INVISIBLE[pd.parent.name]}", flush=True)
                elif tch:
                    good = r["status"] in ("translator_failed", "equivalence_broken")
                    bad += 0 if good else 1
                    print(f"{pd.parent.name:6} touches {','.join(tch):45} {'DETECTED' if good else 'MISSED  '}  {describe(r)}", flush=True)
                else:
                    good = r["status"] == "ok"
                    bad += 0 if good else 1
                    print(f"{pd.parent.name:6} touches no translated function ({', '.join(files)}): stage {describe(r)}", flush=True)
        print(f"\nsemantic mutations detected {counts['detect'][1]}/{counts['detect'][0]}, cosmetic edits accepted {counts['ok'][1]}/{counts['ok'][0]}, "
              f"informational {counts['info'][0]}")
        print(f"self-test finished in {round(time.time() - t0, 1)} s: {'ALL EXPECTATIONS HOLD' if not bad else str(bad) + ' FAILED'}")
    finally:
        shutil.rmtree(SCRATCH, ignore_errors=True)
    return 1 if bad else 0


if __name__ == "__main__":
    sys.exit(main())
