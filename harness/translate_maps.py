"""translate_maps -- regenerate a Coq transcription of cheetah's linear-optics core from /repo's SOURCE TEXT.

Second tie between model and code (the first is numeric: harness/optics.py + `interval` goals).  This module reads
the Python sources with `ast` (nothing of cheetah is imported or executed), translates a fixed list of functions
into Coq definitions over the reals (`Gen/MapsGen.v`), and `Gen/MapsGenEquiv.v` proves, definition by definition,
`generated = hand-written model (Optics/Maps.v)`.  Any edit of a translated function changes the generated term;
if the change is semantic the equivalence lemma is false and stops compiling, if the edit uses syntax outside the
fragment below the translator FAILS (TranslateError carrying reason, file, line).  Nothing is skipped silently.

TRUSTED BASE (this text is quoted in DESIGN.md).  What is trusted is exactly: Python's `ast` parser, the
SCALAR READING below, the IDIOM TABLE below, the list SPECS (which functions, which `self` attributes are real
parameters), and the Coq kernel.  The translator is syntax-directed and total on the fragment; every construct
outside it raises.

Translated functions (SPECS, in this order; later ones may call earlier ones):
  cheetah/utils/physics.py     compute_relativistic_factors
  cheetah/track_methods.py     rotation_matrix, base_rmatrix, misalignment_matrix
  cheetah/accelerator/*.py     Drift.transfer_map, HorizontalCorrector.transfer_map, VerticalCorrector.transfer_map,
                               Solenoid.transfer_map, Undulator.transfer_map, Quadrupole.transfer_map,
                               Dipole.hx (property), Dipole._transfer_map_enter, Dipole._transfer_map_exit,
                               Dipole.transfer_map, RBend.__init__ (only: the values it passes to Dipole.__init__ as
                               dipole_e1 / dipole_e2), Cavity._cavity_rmatrix, Cavity.transfer_map

SCALAR READING.  Every tensor-valued parameter / `self` attribute listed in SPECS is ONE real number (kind "R"),
an optional one (kind "optR": Python default None, Coq `option R`), or a pair of reals (kind "vec2":
`misalignment`, indexed `m[..., 0]`, `m[..., 1]`).  A 7x7 tensor is `M7 R`.  Batch dimensions do not exist.
  statements
    x = e  /  x: T = e         let x := e in ..            (every Coq binder is fresh: a re-bound Python name x becomes
                                                            x_1, x_2..; a name that clashes with an emitted Coq
                                                            identifier gets a trailing `_`; `_` binds nothing)
    a, b, c = e                let '(a, b, c) := e in ..   (e a tuple of the same length, else failure)
    M[..., i, j] = e           M becomes  mset i j e M     (i, j literal integers in 0..6; M a 7x7 value)
    x[c] = e                   x becomes  if c then e else x    (masked write; c a condition, see below)
                               Both in-place forms are accepted only on a tensor CREATED in the function (x.clone(),
                               torch.eye(..).repeat(..), an arithmetic/call result) that no other name aliases: a
                               write into a parameter / self attribute (it would change the caller's tensor, e.g. after
                               dropping `.clone()`), or into a tensor bound to two names, fails.
    if c: A else: B ; rest     if c then [A; rest] else [B; rest]   (the continuation is duplicated; a branch may return)
    return e                   e  (a tuple of names/expressions becomes a Coq tuple)
    assert c, "msg"            contributes `c` to the separate definition gen_<f>_pre : Prop; no effect on the value
    "docstring"                nothing
  bookkeeping that is RECOGNISED and has no scalar content (kind Meta; any use of a Meta value in arithmetic fails):
    X.device, X.dtype, X.shape, X.shape[:-1] (X a scalar/vec2 value), torch.broadcast_shapes(Meta..),
    {"device": Meta, "dtype": Meta}, verify_device_and_dtype([names..], device, dtype),
    torch.eye(7, device=Meta, dtype=Meta | **Meta)[.repeat(*Meta, 1, 1) | .repeat((*Meta, 1, 1))]   = rI  (identity 7x7)
    torch.broadcast_tensors(a, b, ..) = (a, b, ..) (views: not writable);  x.clone() = x as a NEW tensor;
    c.unsqueeze(-1) = c (c a condition);
    torch.tensor(<number literal>, device=.., dtype=.. | **Meta) = that number;  torch.as_tensor(x, ..) = x;
    torch.zeros_like(x) = 0
  expressions over R
    number literals (decimal text kept exactly: 1e-12 is the real 10^-12, not the float), + - * / unary -,
    e ** n (n a literal natural number) = e ^ n,
    torch.cos sin tan sqrt log = cos sin tan sqrt ln,  torch.pi = PI,  torch.deg2rad x = x * (PI / 180),
    torch.where(c, a, b) = if c then a else b  (reals or 7x7 values),
    p if p is not None else d  /  d if p is None else p   (p of kind optR) = match p with Some v => .. | None => .. end,
    torch.matmul(A, B), A @ B = rmmul A B;  torch.einsum("...ij,...jk,...kl->...il", A, B, C) = rmmul A (rmmul B C)
    (exact subscript string; also "...ij,...jk->...ik"),  M.real = M for a 7x7 value of reals,
    f(args) / self.m(args) / self.prop for the translated functions = gen_f args (keywords resolved against the
    SOURCE signature; an omitted optR argument is None, a given one is `Some e`),
    electron_mass_eV = m_e  ONLY if bound in the module by exactly
        electron_mass_eV = physical_constants["electron mass energy equivalent in MeV"][0] * 1e6
    (physical_constants imported from scipy.constants) -- the VALUE 510998.95069 is asserted numerically by the
    correspondence harness, not here;  constants.speed_of_light = c_light (from scipy import constants).
  conditions (whole-tensor tests collapse, because there is a single element):
    a == b, a != b   (Req_EM_T),  a > b, a < b, a >= b, a <= b (Rlt_dec / Rle_dec),  c & d,  c | d,
    torch.any(c) = torch.all(c) = c for a scalar;  for a vec2 v:  all(v == 0) = (v0 == 0) & (v1 == 0),
    any(v != 0) = (v0 != 0) | (v1 != 0).   NOTE: swapping torch.any <-> torch.all on a SCALAR test is therefore not
    visible to this translation (it matters only for batched inputs; that is property C04's subject).

IDIOM TABLE (complex arithmetic of base_rmatrix; cannot be expressed operator by operator in stdlib reals).
Values are tracked through assignments, so the match is on data flow, not on variable names:
    torch.complex(K, 0)                       K real, imaginary part the literal 0           -> Cplx(K)
    torch.sqrt(Cplx(K))                                                                      -> CSqrt(K)
    CSqrt(K) * L                              in this operand order, L real                  -> CArg(K, L)
    torch.cos(CArg(K, L)).real                                                               -> Cf K L
    (torch.sin(CArg(K, L)) / CSqrt(K')).real  K' the SAME term as K                          -> Sf K L
  with Optics/Maps.v:  Cf K L = cos(sqrt K * L) | cosh(sqrt(-K) * L) | 1   and
                       Sf K L = sin(sqrt K * L)/sqrt K | sinh(sqrt(-K) * L)/sqrt(-K) | L     for K > 0 | K < 0 | K = 0
  (at K = 0 torch yields nan for the sine form; Sf takes the limit L; K = 0 is excluded by the k1 guard for ky2 and
  is a don't-care point for kx2, DESIGN 2.6).  Any other use of a complex-tagged value (no `.real`, no `/ kx`,
  different K, cos of something else, arithmetic on it) is a failure, never a guess.

NOT covered (stated so that nobody assumes otherwise): float rounding; broadcasting/batching; the class machinery
that stores constructor arguments into `self` attributes (Dipole.__init__ storing dipole_e1 as self._e1, buffers,
nn.Module); dispatch in `track`; anything outside the listed functions.  Names are checked to be bound exactly once
in their module/class and to be imported from the expected module, so that shadowing a translated function or
attribute by another definition in the same file fails; element classes must derive from `Element` only (RBend from
`Dipole` only, without redefining the translated Dipole methods); translated functions carry no decorators
(`Dipole.hx`: exactly `@property`).
"""
import ast
import hashlib
import re
import sys
from decimal import Decimal, InvalidOperation
from pathlib import Path


class TranslateError(Exception):
    def __init__(self, reason, file=None, line=None):
        super().__init__(f"{file}:{line}: {reason}")
        self.reason, self.file, self.line = reason, file, line


# ---------------------------------------------------------------------------------------------- specification
TM = "cheetah/track_methods.py"
PH = "cheetah/utils/physics.py"
ACC = "cheetah/accelerator/"
DIP_ENTER = [("length", "R"), ("angle", "R"), ("_e1", "R"), ("fringe_integral", "R"), ("gap", "R")]
DIP_EXIT = [("length", "R"), ("angle", "R"), ("_e2", "R"), ("fringe_integral_exit", "R"), ("gap", "R")]
DIP_ALL = [("length", "R"), ("angle", "R"), ("k1", "R"), ("_e1", "R"), ("_e2", "R"), ("tilt", "R"), ("gap", "R"),
           ("fringe_integral", "R"), ("fringe_integral_exit", "R")]
CAV = [("length", "R"), ("voltage", "R"), ("phase", "R"), ("frequency", "R")]

SPECS = [
    dict(file=PH, cls=None, fn="compute_relativistic_factors", params=["R"]),
    dict(file=TM, cls=None, fn="rotation_matrix", params=["R"]),
    dict(file=TM, cls=None, fn="base_rmatrix", params=["R", "R", "R", "optR", "optR"]),
    dict(file=TM, cls=None, fn="misalignment_matrix", params=["vec2"]),
    dict(file=ACC + "drift.py", cls="Drift", fn="transfer_map", attrs=[("length", "R")], params=["R"]),
    dict(file=ACC + "horizontal_corrector.py", cls="HorizontalCorrector", fn="transfer_map",
         attrs=[("length", "R"), ("angle", "R")], params=["R"]),
    dict(file=ACC + "vertical_corrector.py", cls="VerticalCorrector", fn="transfer_map",
         attrs=[("length", "R"), ("angle", "R")], params=["R"]),
    dict(file=ACC + "solenoid.py", cls="Solenoid", fn="transfer_map",
         attrs=[("length", "R"), ("k", "R"), ("misalignment", "vec2")], params=["R"]),
    dict(file=ACC + "undulator.py", cls="Undulator", fn="transfer_map", attrs=[("length", "R")], params=["R"]),
    dict(file=ACC + "quadrupole.py", cls="Quadrupole", fn="transfer_map",
         attrs=[("length", "R"), ("k1", "R"), ("misalignment", "vec2"), ("tilt", "R")], params=["R"]),
    dict(file=ACC + "dipole.py", cls="Dipole", fn="hx", attrs=[("length", "R"), ("angle", "R")], params=[], prop=True),
    dict(file=ACC + "dipole.py", cls="Dipole", fn="_transfer_map_enter", attrs=DIP_ENTER, params=[]),
    dict(file=ACC + "dipole.py", cls="Dipole", fn="_transfer_map_exit", attrs=DIP_EXIT, params=[]),
    dict(file=ACC + "dipole.py", cls="Dipole", fn="transfer_map", attrs=DIP_ALL, params=["R"]),
    # RBend: only the two expressions handed to Dipole.__init__ as dipole_e1 / dipole_e2; every other keyword of the
    # super().__init__ call must pass the same-named variable through; RBend must not redefine the Dipole methods above
    dict(file=ACC + "rbend.py", cls="RBend", fn="__init__", super_init=["dipole_e1", "dipole_e2"],
         exposed={"angle": "optR", "rbend_e1": "optR", "rbend_e2": "optR"},
         must_not_define=["transfer_map", "_transfer_map_enter", "_transfer_map_exit", "hx", "_e1", "_e2", "track"],
         base="Dipole", coq="gen_RBend_init_edges"),
    dict(file=ACC + "cavity.py", cls="Cavity", fn="_cavity_rmatrix", attrs=CAV, params=["R"]),
    dict(file=ACC + "cavity.py", cls="Cavity", fn="transfer_map", attrs=CAV, params=["R"]),
]

# where a global name used inside a translated function may come from
ORIGINS = {
    "torch": [("import", "torch")],
    "Element": [("from", "cheetah.accelerator.element")],
    "Dipole": [("from", "cheetah.accelerator.dipole")],
    "compute_relativistic_factors": [("from", "cheetah.utils"), ("from", "cheetah.utils.physics"), ("def", PH)],
    "rotation_matrix": [("from", "cheetah.track_methods"), ("def", TM)],
    "base_rmatrix": [("from", "cheetah.track_methods"), ("def", TM)],
    "misalignment_matrix": [("from", "cheetah.track_methods"), ("def", TM)],
    "verify_device_and_dtype": [("from", "cheetah.utils"), ("from", "cheetah.utils.argument_verification")],
    "constants": [("from", "scipy")],
    "physical_constants": [("from", "scipy.constants")],
    "electron_mass_eV": [("from", "cheetah.utils.physics"), ("idiom", None)],
}
M_E_IDIOM = ast.dump(ast.parse('physical_constants["electron mass energy equivalent in MeV"][0] * 1e6', mode="eval").body)

COQ_KEYWORDS = {"as", "at", "cofix", "else", "end", "exists", "exists2", "fix", "for", "forall", "fun", "if", "IF", "in", "let",
                "match", "mod", "Prop", "return", "Set", "then", "Type", "using", "where", "with", "SProp"}
EMITTED = {"R", "M7", "cos", "sin", "tan", "sqrt", "ln", "PI", "rI", "rmmul", "mset", "Cf", "Sf", "m_e", "c_light", "deg2rad",
           "Req_EM_T", "Rlt_dec", "Rle_dec", "Some", "None", "option", "True", "False", "pow", "nat"}
NUM_RE = re.compile(r"^(\d+\.?\d*|\.\d+)([eE][+-]?\d+)?$")


# ---------------------------------------------------------------------------------------------- values
class V:
    kind = "?"


_TID = [0]


def new_tid():
    _TID[0] += 1
    return _TID[0]


class Sc(V):            # real-valued Coq term; tid = identity of the tensor object, owned = created inside the function
    kind = "R"          # (in-place writes are only accepted on owned, un-aliased tensors)

    def __init__(self, t, owned=True, tid=None):
        self.t, self.owned, self.tid = t, owned, tid or new_tid()


class Vec(V):           # pair of real-valued Coq terms
    kind = "vec2"

    def __init__(self, ts):
        self.ts = list(ts)


class Mx(V):            # 7x7 Coq term
    kind = "M7"

    def __init__(self, t, owned=True, tid=None):
        self.t, self.owned, self.tid = t, owned, tid or new_tid()


class Tup(V):
    kind = "tuple"

    def __init__(self, vs):
        self.vs = list(vs)


class TupT(V):          # tuple-typed Coq term whose components are known only by kind (result of a call)
    kind = "tuple-term"

    def __init__(self, t, kinds):
        self.t, self.kinds = t, kinds


class Meta(V):
    kind = "Meta"


class Opt(V):           # variable of type option R
    kind = "optR"

    def __init__(self, t):
        self.t = t


class Opaque(V):        # constructor parameter that is not part of the translation; any use fails
    kind = "opaque"


class Cond(V):          # ('eq'|'ne'|'gt'|'ge'|'lt'|'le', a, b) | ('and'|'or', c, d)
    kind = "cond"

    def __init__(self, c):
        self.c = c


class VecCond(V):
    kind = "vec-cond"

    def __init__(self, cs):
        self.cs = cs


class Eye(V):
    kind = "eye"


class Cx(V):            # complex-tagged value of the idiom table
    kind = "complex"

    def __init__(self, tag, K, L=None):
        self.tag, self.K, self.L = tag, K, L


class Str(V):
    kind = "str"

    def __init__(self, s):
        self.s = s


def ifc(c, a, b):
    op = c[0]
    if op == "eq":
        return f"(if Req_EM_T {c[1]} {c[2]} then {a} else {b})"
    if op == "ne":
        return ifc(("eq", c[1], c[2]), b, a)
    if op == "lt":
        return f"(if Rlt_dec {c[1]} {c[2]} then {a} else {b})"
    if op == "gt":
        return ifc(("lt", c[2], c[1]), a, b)
    if op == "le":
        return f"(if Rle_dec {c[1]} {c[2]} then {a} else {b})"
    if op == "ge":
        return ifc(("le", c[2], c[1]), a, b)
    if op == "and":
        return ifc(c[1], ifc(c[2], a, b), b)
    if op == "or":
        return ifc(c[1], a, ifc(c[2], a, b))
    raise AssertionError(op)


def propc(c):
    op = c[0]
    sym = {"eq": "=", "ne": "<>", "lt": "<", "gt": ">", "le": "<=", "ge": ">="}
    if op in sym:
        return f"({c[1]} {sym[op]} {c[2]})"
    if op == "and":
        return f"({propc(c[1])} /\\ {propc(c[2])})"
    if op == "or":
        return f"({propc(c[1])} \\/ {propc(c[2])})"
    raise AssertionError(op)


def coq_type(kind):
    if kind == "R":
        return "R"
    if kind == "M7":
        return "M7 R"
    if isinstance(kind, tuple):
        return "(" + " * ".join(coq_type(k) for k in kind) + ")%type"
    raise AssertionError(kind)


# ---------------------------------------------------------------------------------------------- modules
class Module:
    def __init__(self, repo: Path, rel: str):
        self.rel = rel
        self.path = repo / rel
        if not self.path.exists():
            raise TranslateError("source file missing", rel, 0)
        self.src = self.path.read_text()
        try:
            self.tree = ast.parse(self.src)
        except SyntaxError as ex:
            raise TranslateError(f"syntax error: {ex.msg}", rel, ex.lineno)
        self.bind = {}
        self._collect(self.tree.body, self.bind)

    def _collect(self, body, out):
        for st in body:
            if isinstance(st, ast.Import):
                for a in st.names:
                    out.setdefault((a.asname or a.name).split(".")[0], []).append(("import", a.name if not a.asname else a.name + " as " + a.asname, st))
            elif isinstance(st, ast.ImportFrom):
                for a in st.names:
                    out.setdefault(a.asname or a.name, []).append(("from", ("." * st.level) + (st.module or "") if not a.asname else "<renamed>", st))
            elif isinstance(st, (ast.FunctionDef, ast.AsyncFunctionDef)):
                out.setdefault(st.name, []).append(("def", self.rel, st))
            elif isinstance(st, ast.ClassDef):
                out.setdefault(st.name, []).append(("class", self.rel, st))
            elif isinstance(st, (ast.Assign, ast.AnnAssign, ast.AugAssign)):
                tgts = st.targets if isinstance(st, ast.Assign) else [st.target]
                for t in tgts:
                    for n in ast.walk(t):
                        if isinstance(n, ast.Name):
                            out.setdefault(n.id, []).append(("assign", None, st))
            elif isinstance(st, (ast.If, ast.Try, ast.With, ast.For, ast.While)):
                for fld in ("body", "orelse", "finalbody"):
                    self._collect(getattr(st, fld, []) or [], out)
                for h in getattr(st, "handlers", []) or []:
                    self._collect(h.body, out)
            elif isinstance(st, ast.Delete):
                for t in st.targets:
                    for n in ast.walk(t):
                        if isinstance(n, ast.Name):
                            out.setdefault(n.id, []).append(("del", None, st))

    def fail(self, node, reason):
        raise TranslateError(reason, self.rel, getattr(node, "lineno", 0))

    def global_origin(self, name, node):
        """Check that the module-level name is bound exactly once and comes from an accepted origin."""
        b = self.bind.get(name, [])
        if len(b) != 1:
            self.fail(node, f"global name {name!r} is bound {len(b)} times at module level (expected exactly once)")
        kind, detail, st = b[0]
        ok = ORIGINS.get(name)
        if ok is None:
            self.fail(node, f"global name {name!r} is not part of the translated fragment")
        for k, d in ok:
            if k == "idiom" and kind == "assign":
                if (isinstance(st, ast.Assign) and len(st.targets) == 1 and isinstance(st.targets[0], ast.Name)
                        and ast.dump(st.value) == M_E_IDIOM):
                    self.global_origin("physical_constants", node)
                    return
            elif k == kind and d == detail:
                return
        self.fail(node, f"global name {name!r} has an unexpected origin ({kind} {detail})")

    def find_function(self, cls, fn, want_prop=False):
        scope_body, where = self.tree.body, self.rel
        cnode = None
        if cls:
            b = self.bind.get(cls, [])
            if len(b) != 1 or b[0][0] != "class":
                raise TranslateError(f"class {cls} is not defined exactly once", self.rel, 0)
            cnode = b[0][2]
            scope_body = cnode.body
        cb = {}
        self._collect(scope_body, cb)
        b = cb.get(fn, [])
        if len(b) != 1 or b[0][0] != "def" or not isinstance(b[0][2], ast.FunctionDef):
            raise TranslateError(f"{(cls + '.') if cls else ''}{fn} is not defined exactly once as a function", self.rel,
                                 getattr(cnode, "lineno", 0))
        f = b[0][2]
        decs = [ast.dump(d) for d in f.decorator_list]
        want = ["Name(id='property', ctx=Load())"] if want_prop else []
        if decs != want:
            self.fail(f, f"unexpected decorators on {fn}: {decs}")
        return cnode, f, cb

    def segment(self, f):
        first = min([f.lineno] + [d.lineno for d in f.decorator_list])
        lines = self.src.splitlines()[first - 1:f.end_lineno]
        return first, f.end_lineno, "\n".join(lines)


# ---------------------------------------------------------------------------------------------- function translator
class FnTr:
    def __init__(self, tr, spec, mod):
        self.tr, self.spec, self.mod = tr, spec, mod
        self.used = set()
        self.asserts = 0
        self.mode = "value"
        self.ret_kind = None

    # -- helpers
    def fail(self, node, reason):
        self.mod.fail(node, reason)

    def fresh(self, py):
        base = py
        if base in COQ_KEYWORDS or base in EMITTED or base.startswith("gen_") or not re.match(r"^[A-Za-z_][A-Za-z0-9_]*$", base) or base == "_":
            base = base + "_"
        name, k = base, 0
        while name in self.used:
            k += 1
            name = f"{base}_{k}"
        self.used.add(name)
        return name

    def number(self, node):
        seg = ast.get_source_segment(self.mod.src, node)
        if isinstance(node.value, bool) or not isinstance(node.value, (int, float)) or seg is None:
            self.fail(node, f"unsupported constant {node.value!r}")
        seg = seg.replace("_", "")
        if not NUM_RE.match(seg):
            self.fail(node, f"unsupported number literal {seg!r}")
        try:
            d = Decimal(seg)
        except InvalidOperation:
            self.fail(node, f"unsupported number literal {seg!r}")
        sign, digits, exp = d.as_tuple()
        n = int("".join(map(str, digits)))
        while n and n % 10 == 0 and exp < 0:
            n //= 10
            exp += 1
        if n == 0:
            return "0"
        if 0 <= exp <= 18:
            return str(n * 10 ** exp)
        return f"{n}e{exp}"

    def sc(self, v, node, what="operand"):
        if isinstance(v, Sc):
            return v.t
        self.fail(node, f"{what} is not a real scalar in the scalar reading (it is {v.kind})")

    def mx(self, v, node):
        if isinstance(v, Mx):
            return v.t
        self.fail(node, f"operand of a matrix product is not a 7x7 value (it is {v.kind})")

    def cond(self, v, node):
        if isinstance(v, Cond):
            return v.c
        self.fail(node, f"not a condition in the scalar reading (it is {v.kind})")

    # -- expressions
    def ev(self, n, env):
        m = getattr(self, "e_" + type(n).__name__, None)
        if m is None:
            self.fail(n, f"unsupported expression syntax {type(n).__name__}")
        return m(n, env)

    def e_Constant(self, n, env):
        if isinstance(n.value, str):
            return Str(n.value)
        return Sc(self.number(n))

    def e_Name(self, n, env):
        if n.id in env:
            v = env[n.id]
            if isinstance(v, Opaque):
                self.fail(n, f"constructor parameter {n.id!r} is outside the translated fragment")
            return v
        if n.id == "electron_mass_eV":
            self.mod.global_origin("electron_mass_eV", n)
            return Sc("m_e")
        self.fail(n, f"unknown name {n.id!r}")

    def e_Attribute(self, n, env):
        # self.X
        if isinstance(n.value, ast.Name) and n.value.id == "self" and "self" in env:
            return self.self_attr(n, env)
        if isinstance(n.value, ast.Name) and n.value.id == "torch" and "torch" not in env:
            self.mod.global_origin("torch", n)
            if n.attr == "pi":
                return Sc("PI")
            self.fail(n, f"unsupported torch attribute torch.{n.attr}")
        if isinstance(n.value, ast.Name) and n.value.id == "constants" and "constants" not in env:
            self.mod.global_origin("constants", n)
            if n.attr == "speed_of_light":
                return Sc("c_light")
            self.fail(n, f"unsupported constant constants.{n.attr}")
        v = self.ev(n.value, env)
        if n.attr in ("device", "dtype", "shape"):
            if isinstance(v, (Sc, Vec)):
                return Meta()
            self.fail(n, f".{n.attr} of a {v.kind} value")
        if n.attr == "real":
            if isinstance(v, Mx):
                return v
            if isinstance(v, Cx) and v.tag == "cos":
                return Sc(f"(Cf {v.K} {v.L})")
            if isinstance(v, Cx) and v.tag == "sin_over":
                return Sc(f"(Sf {v.K} {v.L})")
            self.fail(n, f".real of a {v.kind}{'/' + v.tag if isinstance(v, Cx) else ''} value is not in the idiom table")
        self.fail(n, f"unsupported attribute .{n.attr}")

    def self_attr(self, n, env):
        a = n.attr
        attrs = env["self"]
        if a in attrs:
            if a in self.class_bind:
                self.fail(n, f"attribute self.{a} is declared a plain parameter but the class body binds {a!r}")
            return attrs[a]
        callee = self.tr.lookup(self.spec["cls"], a)
        if callee is not None and callee["spec"].get("prop"):
            return self.call_fn(callee, [], {}, n, env)
        self.fail(n, f"self.{a} is neither a declared parameter of {self.spec['cls']}.{self.spec['fn']} nor a translated property")

    def e_UnaryOp(self, n, env):
        if isinstance(n.op, ast.USub):
            return Sc(f"(- {self.sc(self.ev(n.operand, env), n)})")
        self.fail(n, f"unsupported unary operator {type(n.op).__name__}")

    def e_BinOp(self, n, env):
        op = n.op
        if isinstance(op, ast.Pow):
            base = self.sc(self.ev(n.left, env), n, "base of **")
            if not (isinstance(n.right, ast.Constant) and isinstance(n.right.value, int) and not isinstance(n.right.value, bool)
                    and 0 <= n.right.value <= 64):
                self.fail(n, "exponent of ** must be a literal natural number")
            return Sc(f"({base} ^ {n.right.value})")
        a, b = self.ev(n.left, env), self.ev(n.right, env)
        if isinstance(op, ast.MatMult):
            return Mx(f"(rmmul {self.mx(a, n)} {self.mx(b, n)})")
        if isinstance(op, (ast.BitAnd, ast.BitOr)):
            return Cond(("and" if isinstance(op, ast.BitAnd) else "or", self.cond(a, n), self.cond(b, n)))
        # idiom table
        if isinstance(op, ast.Mult) and isinstance(a, Cx) and a.tag == "sqrt" and isinstance(b, Sc):
            return Cx("arg", a.K, b.t)
        if isinstance(op, ast.Div) and isinstance(a, Cx) and a.tag == "sin" and isinstance(b, Cx) and b.tag == "sqrt":
            if a.K != b.K:
                self.fail(n, f"complex idiom: sin(sqrt({a.K}) * {a.L}) divided by sqrt of a different quantity ({b.K})")
            return Cx("sin_over", a.K, a.L)
        if isinstance(a, Cx) or isinstance(b, Cx):
            self.fail(n, "arithmetic on a complex value outside the idiom table")
        sym = {ast.Add: "+", ast.Sub: "-", ast.Mult: "*", ast.Div: "/"}.get(type(op))
        if sym is None:
            self.fail(n, f"unsupported binary operator {type(op).__name__}")
        return Sc(f"({self.sc(a, n.left)} {sym} {self.sc(b, n.right)})")

    def e_Compare(self, n, env):
        if len(n.ops) != 1:
            self.fail(n, "chained comparison")
        op = {ast.Eq: "eq", ast.NotEq: "ne", ast.Gt: "gt", ast.GtE: "ge", ast.Lt: "lt", ast.LtE: "le"}.get(type(n.ops[0]))
        if op is None:
            self.fail(n, f"unsupported comparison {type(n.ops[0]).__name__}")
        a, b = self.ev(n.left, env), self.ev(n.comparators[0], env)
        if isinstance(a, Vec):
            bt = self.sc(b, n, "right-hand side of a vec2 comparison")
            return VecCond([(op, t, bt) for t in a.ts])
        return Cond((op, self.sc(a, n.left, "comparison operand"), self.sc(b, n.comparators[0], "comparison operand")))

    def e_IfExp(self, n, env):
        t = n.test
        if not (isinstance(t, ast.Compare) and len(t.ops) == 1 and isinstance(t.ops[0], (ast.Is, ast.IsNot))
                and isinstance(t.left, ast.Name) and isinstance(t.comparators[0], ast.Constant) and t.comparators[0].value is None):
            self.fail(n, "conditional expression: only `p is [not] None` tests on an optional parameter are understood")
        v = env.get(t.left.id)
        if not isinstance(v, Opt):
            self.fail(n, f"`{t.left.id} is None` test on something that is not an optional parameter ({getattr(v, 'kind', 'unbound')})")
        some_node, none_node = (n.body, n.orelse) if isinstance(t.ops[0], ast.IsNot) else (n.orelse, n.body)
        env_some = dict(env)
        bn = self.fresh("v__")
        env_some[t.left.id] = Sc(bn, owned=False)
        env_none = dict(env)
        env_none[t.left.id] = Opaque()
        s = self.sc(self.ev(some_node, env_some), some_node, "not-None branch")
        d = self.sc(self.ev(none_node, env_none), none_node, "None branch")
        return Sc(f"(match {v.t} with Some {bn} => {s} | None => {d} end)", owned=False)

    def e_Subscript(self, n, env):
        v = self.ev(n.value, env)
        s = n.slice
        if isinstance(v, Vec):
            if (isinstance(s, ast.Tuple) and len(s.elts) == 2 and isinstance(s.elts[0], ast.Constant) and s.elts[0].value is Ellipsis
                    and isinstance(s.elts[1], ast.Constant) and isinstance(s.elts[1].value, int) and 0 <= s.elts[1].value < len(v.ts)):
                return Sc(v.ts[s.elts[1].value], owned=False)
            self.fail(n, "unsupported index into a vec2 value (only [..., 0] and [..., 1])")
        if isinstance(v, Meta):
            if (isinstance(s, ast.Slice) and s.lower is None and s.step is None and isinstance(s.upper, ast.UnaryOp)
                    and isinstance(s.upper.op, ast.USub) and isinstance(s.upper.operand, ast.Constant) and s.upper.operand.value == 1):
                return Meta()
            self.fail(n, "unsupported slice of a shape")
        self.fail(n, f"unsupported subscript of a {v.kind} value")

    def e_Dict(self, n, env):
        for k, v in zip(n.keys, n.values):
            if not (isinstance(k, ast.Constant) and k.value in ("device", "dtype") and isinstance(self.ev(v, env), Meta)):
                self.fail(n, "only {'device': .., 'dtype': ..} dictionaries of bookkeeping values are understood")
        return Meta()

    def e_Tuple(self, n, env):
        return Tup([self.ev(e, env) for e in n.elts])

    def meta_kwargs(self, n, env, allowed=("device", "dtype")):
        for kw in n.keywords:
            if kw.arg is not None and kw.arg not in allowed:
                self.fail(n, f"unexpected keyword {kw.arg!r}")
            if not isinstance(self.ev(kw.value, env), Meta):
                self.fail(n, f"keyword {kw.arg or '**'} is not a device/dtype bookkeeping value")

    def e_Call(self, n, env):
        f = n.func
        # torch.xxx(...)
        if isinstance(f, ast.Attribute) and isinstance(f.value, ast.Name) and f.value.id == "torch" and "torch" not in env:
            self.mod.global_origin("torch", n)
            return self.torch_call(f.attr, n, env)
        # self.method(...)
        if isinstance(f, ast.Attribute) and isinstance(f.value, ast.Name) and f.value.id == "self" and "self" in env:
            callee = self.tr.lookup(self.spec["cls"], f.attr)
            if callee is None or callee["spec"].get("prop"):
                self.fail(n, f"call of self.{f.attr}, which is not a translated method")
            if f.attr not in self.class_bind or len(self.class_bind[f.attr]) != 1:
                self.fail(n, f"self.{f.attr} is not bound exactly once in the class body")
            return self.call_fn(callee, n.args, {k.arg: k.value for k in n.keywords}, n, env)
        # value.method(...)
        if isinstance(f, ast.Attribute):
            v = self.ev(f.value, env)
            if f.attr == "clone" and isinstance(v, Sc) and not n.args and not n.keywords:
                return Sc(v.t)          # same value, NEW tensor (owned: later in-place writes stay local)
            if f.attr == "unsqueeze" and isinstance(v, Cond) and len(n.args) == 1 and not n.keywords and ast.dump(n.args[0]) in (
                    "UnaryOp(op=USub(), operand=Constant(value=1))",):
                return v
            if f.attr == "repeat" and isinstance(v, Eye) and not n.keywords:
                args = n.args
                if len(args) == 1 and isinstance(args[0], ast.Tuple):
                    args = args[0].elts
                if (len(args) == 3 and isinstance(args[0], ast.Starred) and isinstance(self.ev(args[0].value, env), Meta)
                        and all(isinstance(a, ast.Constant) and a.value == 1 and not isinstance(a.value, bool) for a in args[1:])):
                    return Mx("rI")
                self.fail(n, "torch.eye(7).repeat(..): only (*shape, 1, 1) is understood")
            self.fail(n, f"unsupported method call .{f.attr}(..) on a {v.kind} value")
        # plain function
        if isinstance(f, ast.Name) and f.id not in env:
            if f.id == "verify_device_and_dtype":
                self.mod.global_origin(f.id, n)
                if (len(n.args) == 3 and not n.keywords and isinstance(n.args[0], ast.List) and all(isinstance(e, ast.Name) and e.id in env for e in n.args[0].elts)
                        and all(isinstance(a, ast.Name) and isinstance(env.get(a.id), (Meta, Opaque)) for a in n.args[1:])):
                    return Tup([Meta(), Meta()])
                self.fail(n, "unexpected arguments of verify_device_and_dtype")
            callee = self.tr.lookup(None, f.id)
            if callee is None:
                self.fail(n, f"call of {f.id}, which is not a translated function")
            self.mod.global_origin(f.id, n)
            return self.call_fn(callee, n.args, {k.arg: k.value for k in n.keywords}, n, env)
        self.fail(n, "unsupported call")

    def call_fn(self, callee, args, kwargs, n, env):
        cs = callee["spec"]
        names, kinds = callee["pnames"], cs["params"]
        if None in kwargs:
            self.fail(n, "**kwargs in a call of a translated function")
        if len(args) > len(names):
            self.fail(n, "too many positional arguments")
        if any(isinstance(a, ast.Starred) for a in args):
            self.fail(n, "starred argument in a call of a translated function")
        given = dict(zip(names, args))
        for k, v in kwargs.items():
            if k not in names or k in given:
                self.fail(n, f"unexpected or duplicate keyword {k!r}")
            given[k] = v
        out = []
        # attributes of the callee come from the caller's `self`
        for a, kind in cs.get("attrs", []):
            mine = env.get("self", {}).get(a) if isinstance(env.get("self"), dict) else None
            if mine is None or mine.kind != kind:
                self.fail(n, f"callee needs self.{a}, which the caller does not declare")
            if a in self.class_bind:
                self.fail(n, f"attribute self.{a} is declared a plain parameter but the class body binds {a!r}")
            out += mine.ts if isinstance(mine, Vec) else [mine.t]
        for nm, kind in zip(names, kinds):
            if nm not in given:
                if kind == "optR":
                    out.append("None")
                    continue
                self.fail(n, f"missing argument {nm!r}")
            v = self.ev(given[nm], env)
            if kind == "R":
                out.append(self.sc(v, given[nm], f"argument {nm}"))
            elif kind == "optR":
                out.append(v.t if isinstance(v, Opt) else f"(Some {self.sc(v, given[nm], 'argument ' + nm)})")
            elif kind == "vec2":
                if not isinstance(v, Vec):
                    self.fail(n, f"argument {nm} must be a vec2 value")
                out += v.ts
        t = "(" + " ".join([callee["coq"]] + out) + ")"
        rk = callee["ret"]
        if rk == "R":
            return Sc(t)
        if rk == "M7":
            return Mx(t)
        return TupT(t, rk)

    def torch_call(self, name, n, env):
        args = n.args
        if any(isinstance(a, ast.Starred) for a in args) and name not in ("broadcast_shapes",):
            self.fail(n, f"starred argument of torch.{name}")
        if name in ("cos", "sin", "tan", "sqrt", "log", "deg2rad"):
            if len(args) != 1 or n.keywords:
                self.fail(n, f"torch.{name} takes one argument here")
            v = self.ev(args[0], env)
            if isinstance(v, Cx):
                if name == "sqrt" and v.tag == "cplx":
                    return Cx("sqrt", v.K)
                if name in ("cos", "sin") and v.tag == "arg":
                    return Cx(name, v.K, v.L)
                self.fail(n, f"torch.{name} of a complex value ({v.tag}) is not in the idiom table")
            x = self.sc(v, args[0], f"argument of torch.{name}")
            if name == "deg2rad":
                return Sc(f"(deg2rad {x})")
            return Sc(f"({ {'log': 'ln'}.get(name, name)} {x})")
        if name == "complex":
            if len(args) != 2 or n.keywords:
                self.fail(n, "torch.complex takes two arguments")
            re_, im = self.ev(args[0], env), self.ev(args[1], env)
            if self.sc(im, args[1], "imaginary part") != "0":
                self.fail(n, "complex idiom: the imaginary part must be the literal 0")
            return Cx("cplx", self.sc(re_, args[0], "real part"))
        if name == "tensor":
            if len(args) != 1 or not isinstance(args[0], (ast.Constant, ast.UnaryOp)):
                self.fail(n, "torch.tensor: only a number literal is understood")
            self.meta_kwargs(n, env)
            return Sc(self.sc(self.ev(args[0], env), args[0]))
        if name == "as_tensor":
            if len(args) != 1:
                self.fail(n, "torch.as_tensor takes one positional argument here")
            self.meta_kwargs(n, env)
            v = self.ev(args[0], env)
            self.sc(v, args[0], "argument of torch.as_tensor")
            return v
        if name == "zeros_like":
            if len(args) != 1 or n.keywords:
                self.fail(n, "torch.zeros_like takes one argument here")
            self.sc(self.ev(args[0], env), args[0], "argument of torch.zeros_like")
            return Sc("0")
        if name == "where":
            if len(args) != 3 or n.keywords:
                self.fail(n, "torch.where takes three arguments")
            c = self.cond(self.ev(args[0], env), args[0])
            a, b = self.ev(args[1], env), self.ev(args[2], env)
            if isinstance(a, Mx) and isinstance(b, Mx):
                return Mx(ifc(c, a.t, b.t))
            return Sc(ifc(c, self.sc(a, args[1], "branch of torch.where"), self.sc(b, args[2], "branch of torch.where")))
        if name in ("any", "all"):
            if len(args) != 1 or n.keywords:
                self.fail(n, f"torch.{name} takes one argument here")
            v = self.ev(args[0], env)
            if isinstance(v, VecCond):
                c = v.cs[0]
                for d in v.cs[1:]:
                    c = ("and" if name == "all" else "or", c, d)
                return Cond(c)
            return Cond(self.cond(v, args[0]))
        if name == "eye":
            if len(args) != 1 or not (isinstance(args[0], ast.Constant) and args[0].value == 7 and isinstance(args[0].value, int)):
                self.fail(n, "torch.eye: only eye(7, ..) is understood")
            self.meta_kwargs(n, env)
            return Eye()
        if name == "broadcast_shapes":
            for a in args:
                v = self.ev(a.value if isinstance(a, ast.Starred) else a, env)
                if not isinstance(v, Meta):
                    self.fail(n, "torch.broadcast_shapes of something that is not a shape")
            if n.keywords:
                self.fail(n, "keywords of torch.broadcast_shapes")
            return Meta()
        if name == "broadcast_tensors":
            if n.keywords:
                self.fail(n, "keywords of torch.broadcast_tensors")
            return Tup([Sc(self.sc(self.ev(a, env), a, "argument of torch.broadcast_tensors"), owned=False) for a in args])
        if name == "matmul":
            if len(args) != 2 or n.keywords:
                self.fail(n, "torch.matmul takes two arguments")
            return Mx(f"(rmmul {self.mx(self.ev(args[0], env), args[0])} {self.mx(self.ev(args[1], env), args[1])})")
        if name == "einsum":
            if n.keywords or not args or not isinstance(args[0], ast.Constant):
                self.fail(n, "torch.einsum: literal subscripts expected")
            sub = args[0].value
            ms = [self.mx(self.ev(a, env), a) for a in args[1:]]
            if sub == "...ij,...jk,...kl->...il" and len(ms) == 3:
                return Mx(f"(rmmul {ms[0]} (rmmul {ms[1]} {ms[2]}))")
            if sub == "...ij,...jk->...ik" and len(ms) == 2:
                return Mx(f"(rmmul {ms[0]} {ms[1]})")
            self.fail(n, f"torch.einsum subscripts {sub!r} are not understood")
        self.fail(n, f"torch.{name} is outside the translated fragment")

    # -- statements
    def bind(self, target, v, env, node):
        """Returns (prefix_text, env') for `target = v`."""
        env = dict(env)
        if isinstance(target, ast.Name):
            if target.id == "self":
                self.fail(node, "assignment to self")
            if isinstance(v, (Meta, Cx, Eye, Opaque)):
                env[target.id] = v
                return "", env
            if isinstance(v, (Sc, Mx)):
                nm = self.fresh(target.id)
                env[target.id] = type(v)(nm, v.owned, v.tid)
                return f"let {nm} := {v.t} in\n  ", env
            if isinstance(v, Vec):
                self.fail(node, "assignment of a vec2 value")
            self.fail(node, f"assignment of a {v.kind} value to a single name")
        if isinstance(target, ast.Tuple):
            if isinstance(v, Tup):
                if len(v.vs) != len(target.elts):
                    self.fail(node, "tuple assignment of mismatching length")
                if all(isinstance(x, Meta) for x in v.vs):
                    for t in target.elts:
                        if not isinstance(t, ast.Name):
                            self.fail(node, "unsupported assignment target")
                        env[t.id] = Meta()
                    return "", env
                kinds = tuple(x.kind for x in v.vs)
                if not all(isinstance(x, (Sc, Mx)) for x in v.vs):
                    self.fail(node, f"tuple assignment of {kinds}")
                owned = [x.owned for x in v.vs]
                v = TupT("(" + ", ".join(x.t for x in v.vs) + ")", kinds)
                v.owned = owned
            if isinstance(v, TupT):
                if len(v.kinds) != len(target.elts):
                    self.fail(node, f"tuple assignment: {len(target.elts)} targets for {len(v.kinds)} values")
                pats = []
                flags = getattr(v, "owned", [True] * len(v.kinds))
                for (t, k), ow in zip(zip(target.elts, v.kinds), flags):
                    if not isinstance(t, ast.Name):
                        self.fail(node, "unsupported assignment target")
                    if t.id == "_":
                        pats.append("_")
                        continue
                    nm = self.fresh(t.id)
                    env[t.id] = Sc(nm, owned=ow) if k == "R" else Mx(nm, owned=ow)
                    pats.append(nm)
                return f"let '({', '.join(pats)}) := {v.t} in\n  ", env
            self.fail(node, f"tuple assignment of a {v.kind} value")
        self.fail(node, "unsupported assignment target")

    def ret_value(self, v, node):
        if isinstance(v, Sc):
            kind, t = "R", v.t
        elif isinstance(v, Mx):
            kind, t = "M7", v.t
        elif isinstance(v, Tup) and all(isinstance(x, (Sc, Mx)) for x in v.vs):
            kind, t = tuple(x.kind for x in v.vs), "(" + ", ".join(x.t for x in v.vs) + ")"
        else:
            self.fail(node, f"return of a {v.kind} value")
        if self.ret_kind is None:
            self.ret_kind = kind
        elif self.ret_kind != kind:
            self.fail(node, "return statements of different kinds")
        return t

    def block(self, stmts, env, cont):
        if not stmts:
            if cont is None:
                raise TranslateError(f"{self.spec['fn']}: control reaches the end of the function without a return", self.mod.rel, self.fnode.end_lineno)
            return cont(env)
        s, rest = stmts[0], stmts[1:]
        if isinstance(s, ast.Expr):
            if isinstance(s.value, ast.Constant) and isinstance(s.value.value, str):
                return self.block(rest, env, cont)
            self.fail(s, "expression statement (call for its side effect) is outside the translated fragment")
        if isinstance(s, ast.Return):
            if rest:
                self.fail(rest[0], "statement after return")
            if s.value is None:
                self.fail(s, "return without value")
            if self.spec.get("super_init"):
                self.fail(s, "return inside __init__")
            t = self.ret_value(self.ev(s.value, env), s)
            return "True" if self.mode == "pre" else t
        if isinstance(s, ast.Assert):
            self.asserts += 1
            c = self.cond(self.ev(s.test, env), s.test)
            if s.msg is not None and not (isinstance(s.msg, ast.Constant) and isinstance(s.msg.value, str)):
                self.fail(s, "assert message must be a string literal")
            r = self.block(rest, env, cont)
            return f"({propc(c)} /\\ {r})" if self.mode == "pre" else r
        if isinstance(s, ast.AnnAssign):
            # `x: T = e` is `x = e` (the annotation has no run-time effect on a local)
            if s.value is None or not s.simple or not isinstance(s.target, ast.Name):
                self.fail(s, "annotated assignment without value / to a non-name")
            pre, env2 = self.bind(s.target, self.ev(s.value, env), env, s)
            return pre + self.block(rest, env2, cont)
        if isinstance(s, ast.Assign):
            if len(s.targets) != 1:
                self.fail(s, "chained assignment")
            tg = s.targets[0]
            if isinstance(tg, ast.Subscript):
                return self.sub_assign(s, tg, rest, env, cont)
            if self.spec.get("super_init") and isinstance(tg, ast.Attribute):
                self.fail(s, "attribute assignment before super().__init__ in a constructor")
            v = self.ev(s.value, env)
            pre, env2 = self.bind(tg, v, env, s)
            return pre + self.block(rest, env2, cont)
        if isinstance(s, ast.If):
            c = self.cond(self.ev(s.test, env), s.test)
            # name the matrices built so far by entry assignments, so that the two branches share them instead of copying the term
            pre, env = "", dict(env)
            for nm in list(env):
                if isinstance(env[nm], Mx) and env[nm].t.startswith("(mset "):
                    c_nm = self.fresh(nm)
                    pre += f"let {c_nm} := {env[nm].t} in\n  "
                    env[nm] = Mx(c_nm, env[nm].owned, env[nm].tid)
            k = (lambda e: self.block(rest, e, cont))
            if not rest and cont is None:
                k = None
            a = self.block(s.body, env, k)
            b = self.block(s.orelse, env, k)
            return pre + ifc(c, a, b)
        self.fail(s, f"unsupported statement {type(s).__name__}")

    def sub_assign(self, s, tg, rest, env, cont):
        if not isinstance(tg.value, ast.Name) or tg.value.id not in env:
            self.fail(s, "unsupported subscript assignment")
        name = tg.value.id
        cur = env[name]
        sl = tg.slice
        env = dict(env)
        if isinstance(cur, (Sc, Mx)):
            if not cur.owned:
                self.fail(s, f"in-place write into {name!r}, a tensor that was not created in this function (it would modify the caller's/element's tensor)")
            holders = [k for k, v in env.items() if isinstance(v, (Sc, Mx)) and v.tid == cur.tid]
            if holders != [name]:
                self.fail(s, f"in-place write into {name!r}, which is aliased by {sorted(set(holders) - {name})}")
        if isinstance(cur, Mx):
            if not (isinstance(sl, ast.Tuple) and len(sl.elts) == 3 and isinstance(sl.elts[0], ast.Constant) and sl.elts[0].value is Ellipsis
                    and all(isinstance(e, ast.Constant) and isinstance(e.value, int) and not isinstance(e.value, bool) and 0 <= e.value <= 6 for e in sl.elts[1:])):
                self.fail(s, "matrix entry assignment must have the form M[..., i, j] = e with literal 0 <= i, j <= 6")
            i, j = sl.elts[1].value, sl.elts[2].value
            e = self.sc(self.ev(s.value, env), s.value, "assigned matrix entry")
            env[name] = Mx(f"(mset {i} {j} {e} {cur.t})", True, cur.tid)
            return self.block(rest, env, cont)
        if isinstance(cur, Sc):
            c = self.cond(self.ev(sl, env), sl)
            e = self.sc(self.ev(s.value, env), s.value, "value of a masked write")
            nm = self.fresh(name)
            env[name] = Sc(nm, True, cur.tid)
            return f"let {nm} := {ifc(c, e, cur.t)} in\n  " + self.block(rest, env, cont)
        self.fail(s, f"subscript assignment into a {cur.kind} value")

    # -- whole function
    def translate(self):
        spec, mod = self.spec, self.mod
        cnode, f, cb = mod.find_function(spec["cls"], spec["fn"], spec.get("prop", False))
        self.fnode, self.class_bind = f, (cb if spec["cls"] else {})
        if spec["cls"] and not spec.get("super_init"):
            if [ast.dump(b) for b in cnode.bases] != ["Name(id='Element', ctx=Load())"] or cnode.keywords:
                mod.fail(cnode, f"class {spec['cls']} must derive from Element only")
            mod.global_origin("Element", cnode)
        a = f.args
        if a.vararg or a.kwarg or a.kwonlyargs or a.posonlyargs:
            mod.fail(f, "unsupported parameter syntax")
        pos = [x.arg for x in a.args]
        defaults = [None] * (len(pos) - len(a.defaults)) + list(a.defaults)
        env, coq_params = {}, []
        if spec["cls"]:
            if not pos or pos[0] != "self":
                mod.fail(f, "method without self")
            pos, defaults = pos[1:], defaults[1:]
        if spec.get("super_init"):
            return self.translate_super_init(cnode, f, pos, defaults)
        if spec["cls"]:
            attrs = {}
            for nm, kind in spec["attrs"]:
                if kind == "vec2":
                    ns = [self.fresh(f"{nm}_{i}") for i in range(2)]
                    attrs[nm] = Vec(ns)
                    coq_params += [(x, "R") for x in ns]
                else:
                    c = self.fresh(nm)
                    attrs[nm] = Sc(c, owned=False)
                    coq_params.append((c, "R"))
            env["self"] = attrs
        if len(pos) != len(spec["params"]):
            mod.fail(f, f"signature changed: {len(pos)} parameters, expected {len(spec['params'])}")
        for nm, d, kind in zip(pos, defaults, spec["params"]):
            is_none = isinstance(d, ast.Constant) and d.value is None
            if (kind == "optR") != is_none or (d is not None and not is_none):
                mod.fail(f, f"signature changed: default of parameter {nm!r}")
            if kind == "vec2":
                ns = [self.fresh(f"{nm}_{i}") for i in range(2)]
                env[nm] = Vec(ns)
                coq_params += [(x, "R") for x in ns]
            else:
                c = self.fresh(nm)
                env[nm] = Opt(c) if kind == "optR" else Sc(c, owned=False)
                coq_params.append((c, "option R" if kind == "optR" else "R"))
        self.pnames = pos
        body = self.block(f.body, env, None)
        coq = "gen_" + (f"{spec['cls']}_" if spec["cls"] else "") + spec["fn"]
        binders = " ".join(f"({n} : {t})" for n, t in coq_params)
        text = f"Definition {coq} {binders} : {coq_type(self.ret_kind)} :=\n  {body}.\n"
        if self.asserts:
            saved = self.used
            self.used = set(n for n, _ in coq_params)
            self.mode = "pre"
            pre = self.block(f.body, env, None)
            self.mode = "value"
            self.used = saved
            text += f"\nDefinition {coq}_pre {binders} : Prop :=\n  {pre}.\n"
        return coq, text, f

    def translate_super_init(self, cnode, f, pos, defaults):
        spec, mod = self.spec, self.mod
        if [ast.dump(b) for b in cnode.bases] != [f"Name(id='{spec['base']}', ctx=Load())"] or cnode.keywords:
            mod.fail(cnode, f"{spec['cls']} must derive from {spec['base']} only")
        mod.global_origin(spec["base"], cnode)
        for nm in spec["must_not_define"]:
            if nm in self.class_bind:
                mod.fail(self.class_bind[nm][0][2], f"{spec['cls']} redefines {nm!r}: the Dipole transcription no longer applies to it")
        env, coq_params = {}, []
        for nm, d in zip(pos, defaults):
            if nm in spec["exposed"]:
                if not (isinstance(d, ast.Constant) and d.value is None):
                    mod.fail(f, f"signature changed: default of parameter {nm!r}")
                c = self.fresh(nm)
                env[nm] = Opt(c)
                coq_params.append((c, "option R"))
            else:
                env[nm] = Meta() if nm in ("device", "dtype") else Opaque()
        if len(coq_params) != len(spec["exposed"]):
            mod.fail(f, "signature changed: an exposed constructor parameter is missing")
        # statements up to the super().__init__ call
        body, call = list(f.body), None
        for k, st in enumerate(body):
            if (isinstance(st, ast.Expr) and isinstance(st.value, ast.Call) and isinstance(st.value.func, ast.Attribute)
                    and st.value.func.attr == "__init__" and ast.dump(st.value.func.value) == "Call(func=Name(id='super', ctx=Load()), args=[], keywords=[])"):
                call, before, after = st.value, body[:k], body[k + 1:]
                break
        if call is None:
            mod.fail(f, "no super().__init__(..) call found")
        if after:
            mod.fail(after[0], "statements after super().__init__(..) in the constructor")
        if call.args or any(k.arg is None for k in call.keywords):
            mod.fail(call, "super().__init__ must be called with keywords only")

        def finish(e):
            outs = {}
            for kw in call.keywords:
                if kw.arg in spec["super_init"]:
                    outs[kw.arg] = self.sc(self.ev(kw.value, e), kw.value, f"keyword {kw.arg}")
                elif not (isinstance(kw.value, ast.Name) and kw.value.id == kw.arg and kw.arg in e):
                    mod.fail(kw.value, f"keyword {kw.arg!r} of super().__init__ is not passed through unchanged")
            if sorted(outs) != sorted(spec["super_init"]) or len(call.keywords) != len({k.arg for k in call.keywords}):
                mod.fail(call, "super().__init__: dipole_e1/dipole_e2 keywords missing or duplicated")
            return "(" + ", ".join(outs[k] for k in spec["super_init"]) + ")"
        text = self.block(before, env, finish)
        binders = " ".join(f"({n} : {t})" for n, t in coq_params)
        self.ret_kind = tuple("R" for _ in spec["super_init"])
        self.pnames = []
        return spec["coq"], f"Definition {spec['coq']} {binders} : {coq_type(self.ret_kind)} :=\n  {text}.\n", f


# ---------------------------------------------------------------------------------------------- driver
class Translator:
    def __init__(self, repo):
        self.repo = Path(repo)
        self.mods = {}
        self.done = {}

    def module(self, rel):
        if rel not in self.mods:
            self.mods[rel] = Module(self.repo, rel)
        return self.mods[rel]

    def lookup(self, cls, fn):
        return self.done.get((cls, fn))

    def check_reexports(self):
        m = self.module("cheetah/utils/__init__.py")
        b = m.bind.get("compute_relativistic_factors", [])
        if len(b) != 1 or b[0][0] != "from" or b[0][1] != ".physics":
            raise TranslateError("cheetah.utils does not re-export compute_relativistic_factors from .physics exactly once", m.rel, 0)

    def run(self):
        self.check_reexports()
        out, info = [], []
        for spec in SPECS:
            mod = self.module(spec["file"])
            ft = FnTr(self, spec, mod)
            coq, text, f = ft.translate()
            first, last, seg = mod.segment(f)
            self.done[(spec["cls"], spec["fn"])] = dict(spec=spec, coq=coq, ret=ft.ret_kind, pnames=ft.pnames)
            out.append(text)
            info.append(dict(function=(spec["cls"] + "." if spec["cls"] else "") + spec["fn"], file=spec["file"], first_line=first, last_line=last,
                             source_sha256=hashlib.sha256(seg.encode()).hexdigest(), coq_name=coq,
                             coq_sha256=hashlib.sha256(text.encode()).hexdigest(), has_precondition=bool(ft.asserts)))
        header = ("(** GENERATED by harness/translate_maps.py from the source text of /repo -- do not edit.\n"
                  "    Scalar reading and idiom table: see the docstring of harness/translate_maps.py.\n"
                  "    The check regenerates this file on every run and compiles Gen/MapsGenEquiv.v against the fresh copy. *)\n"
                  "From Coq Require Import Reals.\nFrom Cheetah Require Import Base.Mat Optics.Maps Gen.GenBase.\nOpen Scope R_scope.\n\n")
        return header + "\n".join(out), info


def locate(repo):
    """Only locate the functions of SPECS (no translation): [(qualified name, file, first_line, last_line, sha256)].
    Used to tell which translated functions an edit touches even when the translation itself fails."""
    tr, out = Translator(repo), []
    for spec in SPECS:
        mod = tr.module(spec["file"])
        _, f, _ = mod.find_function(spec["cls"], spec["fn"], spec.get("prop", False))
        first, last, seg = mod.segment(f)
        out.append(((spec["cls"] + "." if spec["cls"] else "") + spec["fn"], spec["file"], first, last, hashlib.sha256(seg.encode()).hexdigest()))
    return out


def generate(repo):
    """Returns (coq_text, info list).  Raises TranslateError."""
    return Translator(repo).run()


if __name__ == "__main__":
    repo = sys.argv[1] if len(sys.argv) > 1 else "/repo"
    try:
        text, info = generate(repo)
    except TranslateError as ex:
        print("TRANSLATOR FAILED:", ex)
        sys.exit(2)
    if len(sys.argv) > 2:
        Path(sys.argv[2]).write_text(text)
    else:
        print(text)
