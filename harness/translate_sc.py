"""translate_sc -- regenerate a Coq transcription of the scalar formulas of cheetah's SpaceChargeKick from /repo's SOURCE
TEXT (companion of harness/translate_maps.py / translate_bmadx.py, same rules: Python's `ast` only, nothing of cheetah is
imported or executed; syntax-directed; every construct outside the fragment raises TranslateError with reason, file, line;
nothing is skipped silently).

Output: `Gen/ScGen.v`.  `Gen/ScGenEquiv.v` proves `gen_<fn> args = <hand-written model of SpaceCharge/*.v> args`;
`Gen/ScGenProps.v` holds the final statements.  harness/translate_stage_sc.translator_obligation_sc regenerates and
re-proves on every run.

Translated (class SpaceChargeKick of cheetah/accelerator/space_charge_kick.py):
  _integrated_potential   straight-line scalar function over Coq's R  ->  gen_integrated_potential x y tau
  _integrated_green_function   over R, per sample: the grid G_values the doubled array is filled from, as a function of the
                          first-octant index (i, j, k) (read as reals), of cell_size and relativistic_gamma  ->  gen_G_values.
                          The REST of the function (torch.zeros, the 8 slice / flip copies into the doubled array, return) is
                          a declared frame: only its statement forms and its single source grid are checked; it is modelled by
                          green3 / fold1 of SpaceCharge/Hockney.v and tied to the code by the correspondence check only.
  track                   the kick step, PER SAMPLE of the flattened vector dimension and PER PARTICLE, over Q (exact field
                          operations only, generic reading):
                            gen_grid_dimensions   4th argument of self._compute_forces(..)
                            gen_cell_size         3rd argument of self._compute_forces(..)
                            gen_kick              the 7 columns of the tensor handed to ParticleBeam.from_xyz_pxpypz
                          (dt is inlined in gen_kick; the three interpolated force components are abstract arguments)
  _E_plus_vB_field        over Q, per sample: the three returned grids as functions of a grid index (i, j, k), of the
                          abstract potential grid, of cell_size and of relativistic_gamma  ->  gen_E_plus_vB_field

  _deposit_charge_on_grid over Q / Z, per sample and PER PARTICLE, the 8 corners and 3 axes enumerated from the literal `offsets` table:
                          gen_deposit_terms     the 8 entries (grid index, valid, value) handed to charge.index_put_(accumulate=True)
                          gen_deposit_weights   cell_weights of the 8 corners
                          gen_deposit_scale     inv_cell_volume, the factor of the returned grid
  _compute_forces         the same reading: gen_gather_terms (the 8 entries (x, y, tau) summed by torch.scatter_add into this
                          particle's force; the three grids returned by _E_plus_vB_field are abstract functions grad_0..2 of a grid
                          index), gen_gather_weights
    Reading of the cloud-in-cell code: a tensor is a function (corner c, axis a) -> term of kind Q, Z or bool;
    xp_coordinates[..., [0, 2, 4]] are the leaves xp_0, xp_2, xp_4; torch.floor(..).type(torch.int) is Qfloor; an int tensor in a
    rational expression is inject_Z; `T + offsets` adds the literal; torch.where(offsets == 0, a, b) selects by the literal;
    .prod(dim=-1) is the product over the 3 axes (once per function: the cell weights); `>=` / `<` / `&` are Z.leb / Z.ltb / &&;
    torch.clamp(i, min, max) is Z.min (Z.max i min) max; torch.where(mask, v, 0) is if-then-else; G[(sample, i, j, k)] is G (i, j, k).
    Entry ORDER of the flattened (particle, corner) axis is part of the reading: `.flatten(start_dim=-2)` of a (.., particles, 8)
    tensor puts particle p, corner c at entry 8 p + c, so a per-particle tensor must be expanded with EXACTLY
    `.repeat_interleave(repeats=8, dim=-1)`; anything else (e.g. `.repeat(1, 8)`) is rejected.  Declared frames, accepted by exact
    form only: the sample index `torch.arange(<T>.shape[0]).repeat(8 * beam.particles.shape[-2], 1).T` (constant per sample), the
    zero arrays, `charge.index_put_((sample[m], i_x[m], i_y[m], i_tau[m]), values[m], accumulate=True)` with one mask m (= list sum
    per grid point: hit_sum of Gen/ScGenBase.v), the particle index `torch.arange(beam.num_particles).repeat_interleave(8)
    .unsqueeze(0).unsqueeze(-1).expand(beam.particles.shape[0], 8 * beam.particles.shape[-2], 3)` and
    `torch.scatter_add(<zeros>, dim=1, index=<particle index>, src=torch.stack([vx, vy, vz], dim=-1))` (= sum of the particle's 8 entries).

Reading (trusted; the table of this translator):
  * values are tracked by DATA FLOW, not by name: a local name is bound to the (inlined) Coq term of its value, so local
    renames and reformatting do not change the output; the roles (grid_dimensions, cell_size, the kicked coordinates) are
    identified by USE SITE (argument position of self._compute_forces, keyword xp_coordinates of from_xyz_pxpypz).
  * tensors with a trailing axis of length 3 / 7 are triples / 7-tuples of scalars (torch.stack([a, b, c], dim=-1),
    torch.tensor(self.grid_shape, ..), X.to_xyz_pxpypz(), self._compute_forces(..)); `T[..., k]` is component k;
    `T[..., k] = e` replaces component k; arithmetic between a scalar and a triple is componentwise (broadcasting).
  * `.unsqueeze(-1)` on a per-sample scalar and `[..., None, None, None]` are broadcasting only (identity per sample).
  * a grid (potential, torch.zeros_like(potential)) is a function of three natural indices on a grid of shape
    (n_0, n_1, n_2); `G[..., a:b, :, :] = E` with constant a >= 0, b <= 0 is `fun idx => if a <= idx_0 /\\ idx_0 + (-b) < n_0
    then E' else G idx`, where a slice `P[..., s:, :, :]` / `P[..., :-e, :, :]` inside E reads P at idx_0 - a + s; the
    extents of all slices of one statement must agree (checked, symbolically in n).
  * `m = torch.zeros_like(g); m[g != 0] = e` with e mentioning `g[g != 0]` is `if Qeq_bool g 0 then 0 else e[g]`.
  * torch.arange(n_a)[m] is the number m; torch.meshgrid(x, y, tau, indexing="ij")[a] at (i, j, k) is the a-th index;
    `G[None, :, :, :]` only adds the sample axis.
  * literals are read as exact decimal fractions (0.5 = 1/2); `**` only with a literal natural exponent.
  * torch.sqrt / torch.atan / torch.asinh are Coq's sqrt / atan / arcsinh (R only).
  * FRAME of track (NOT translated, declared here): the vectorisation hack, i.e. assignments whose value is one of
    torch.broadcast_shapes(..) [opaque shape], torch.broadcast_to(self.effect_length, <shape>).flatten(end_dim=-1) [the per-sample
    effect_length], ParticleBeam(..) whose every field is torch.broadcast_to(B.<field>, <shape>) or B.<field>.flatten(end_dim=<vector
    dimensions only>) of one beam B [a SHAPE-ONLY COPY of B: same per-sample values; the shapes themselves are not inspected], and
    the keywords energy / particle_charges / survival_probabilities / device / dtype of ParticleBeam.from_xyz_pxpypz, which must be
    the same fields of the incoming beam.  Frame values are opaque: using one in a translated expression fails.  Every beam attribute read in translated code
    (sigma_x, sigma_y, sigma_tau, relativistic_beta, relativistic_gamma), the receiver of to_xyz_pxpypz() and the first argument
    of _compute_forces must be ONE AND THE SAME beam object.
"""
import ast
import hashlib
import sys
from decimal import Decimal, InvalidOperation
from fractions import Fraction
from pathlib import Path

from translate_maps import COQ_KEYWORDS, NUM_RE, TranslateError

SRC = "cheetah/accelerator/space_charge_kick.py"
CLS = "SpaceChargeKick"
RESERVED = COQ_KEYWORDS | {"R", "Q", "nat", "sqrt", "atan", "arcsinh", "Qeq_bool", "i", "j", "k", "fst", "snd"}
BEAM_ATTRS = {"sigma_x", "sigma_y", "sigma_tau", "relativistic_beta", "relativistic_gamma"}
SELF_SCALARS = {"grid_extend_x", "grid_extend_y", "grid_extend_tau"}
UNARY_R = {"sqrt": "sqrt", "atan": "atan", "arctan": "atan", "asinh": "arcsinh", "arcsinh": "arcsinh"}


# ------------------------------------------------------------------------------------------------ values
class S:          # scalar Coq term
    def __init__(self, t):
        self.t = t


class Vn:         # tuple of scalar Coq terms (trailing tensor axis of length 3 or 7)
    def __init__(self, ts):
        self.ts = list(ts)


class Grid:       # function of a grid index: f(i, j, k) -> Coq term ; whole=True: the full (n_0, n_1, n_2) array
    def __init__(self, f):
        self.f = f


class View:       # slice of a grid: at(tgt_start) is the grid function indexed by the TARGET index g of an assignment whose
    # target slice starts at tgt_start (element t = g - tgt_start of the view); extent per axis is n_a - removed[a]
    def __init__(self, at, removed):
        self.at, self.removed = at, tuple(removed)


class Beam:
    def __init__(self, tag, root=None):
        self.tag, self.root = tag, root or tag


class Opaque:
    def __init__(self, why):
        self.why = why


class IntDim:     # self.grid_shape[a]: the number of grid points of axis a (an opaque Python int)
    def __init__(self, axis):
        self.axis = axis


class Arange:     # torch.arange(n_a, **self.factory_kwargs): the index vector of axis a; entry m is the number m
    def __init__(self, axis):
        self.axis = axis


class PyTuple:
    def __init__(self, vs):
        self.vs = vs


def is_ellipsis(n):
    return isinstance(n, ast.Constant) and n.value is Ellipsis


def is_none(n):
    return isinstance(n, ast.Constant) and n.value is None


def int_const(n):
    """value of an integer literal, possibly negated; None otherwise"""
    if isinstance(n, ast.Constant) and isinstance(n.value, int) and not isinstance(n.value, bool):
        return n.value
    if isinstance(n, ast.UnaryOp) and isinstance(n.op, ast.USub):
        v = int_const(n.operand)
        return None if v is None else -v
    return None


class Fn:
    def __init__(self, tr, fnode, dom):
        self.tr, self.f, self.dom = tr, fnode, dom
        self.env = {}
        self.params = []          # leaf parameters in canonical order are fixed by the caller; here: the ones USED
        self.beam_tag = None
        self.masks = []

    def fail(self, node, reason):
        raise TranslateError(f"{CLS}.{self.f.name}: {reason}", SRC, getattr(node, "lineno", self.f.lineno))

    def leaf(self, name, node):
        if name in RESERVED:
            self.fail(node, f"name {name!r} clashes with an emitted identifier")
        if name not in self.params:
            self.params.append(name)
        return S(name)

    def use_beam(self, v, node):
        if not isinstance(v, Beam):
            self.fail(node, "beam object expected")
        if self.beam_tag is None:
            self.beam_tag = v.tag
        elif self.beam_tag != v.tag:
            self.fail(node, f"translated code reads two different beam objects ({self.beam_tag} and {v.tag})")

    # ---------------------------------------------------------------------------------------- numbers
    def number(self, node):
        seg = ast.get_source_segment(self.tr.src, node)
        if isinstance(node.value, bool) or not isinstance(node.value, (int, float)) or seg is None:
            self.fail(node, f"unsupported constant {node.value!r}")
        seg = seg.replace("_", "")
        if not NUM_RE.match(seg):
            self.fail(node, f"unsupported number literal {seg!r}")
        try:
            fr = Fraction(Decimal(seg))
        except (InvalidOperation, ValueError):
            self.fail(node, f"unsupported number literal {seg!r}")
        if fr.denominator == 1:
            return str(fr.numerator)
        if fr.numerator > 10 ** 18 or fr.denominator > 10 ** 18:
            self.fail(node, f"number literal {seg!r} out of the supported range")
        return f"({fr.numerator} / {fr.denominator})" if self.dom == "R" else f"({fr.numerator} # {fr.denominator})"

    # ---------------------------------------------------------------------------------------- lifting
    def lift2(self, op, a, b, node):
        """componentwise binary operation with broadcasting of scalars"""
        if isinstance(a, S) and isinstance(b, S):
            return S(op(a.t, b.t))
        if isinstance(a, Vn) and isinstance(b, S):
            return Vn([op(x, b.t) for x in a.ts])
        if isinstance(a, S) and isinstance(b, Vn):
            return Vn([op(a.t, x) for x in b.ts])
        if isinstance(a, Vn) and isinstance(b, Vn):
            if len(a.ts) != len(b.ts):
                self.fail(node, "operands with trailing axes of different length")
            return Vn([op(x, y) for x, y in zip(a.ts, b.ts)])
        gl = (Grid, View)
        if isinstance(a, gl) or isinstance(b, gl):
            if not isinstance(a, gl + (S,)) or not isinstance(b, gl + (S,)):
                self.fail(node, "unsupported operands for a grid operation")
            views = [x for x in (a, b) if isinstance(x, View)]
            grids = [x for x in (a, b) if isinstance(x, Grid)]
            if views and grids:
                self.fail(node, "operation between a sliced grid and a whole grid (extents differ)")
            if len(views) == 2 and views[0].removed != views[1].removed:
                self.fail(node, f"operation between grid slices of different extents (n - {views[0].removed} and n - {views[1].removed})")
            if views:
                fa = (lambda tgt, t=a.t: (lambda i, j, k: t)) if isinstance(a, S) else a.at
                fb = (lambda tgt, t=b.t: (lambda i, j, k: t)) if isinstance(b, S) else b.at

                def at(tgt, fa=fa, fb=fb):
                    ga, gb = fa(tgt), fb(tgt)
                    return lambda i, j, k: op(ga(i, j, k), gb(i, j, k))
                return View(at, views[0].removed)
            ga = (lambda i, j, k, t=a.t: t) if isinstance(a, S) else a.f
            gb = (lambda i, j, k, t=b.t: t) if isinstance(b, S) else b.f
            return Grid(lambda i, j, k: op(ga(i, j, k), gb(i, j, k)))
        self.fail(node, "unsupported operands")

    def scalar(self, v, node, what="operand"):
        if not isinstance(v, S):
            self.fail(node, f"{what}: a per-sample scalar is expected")
        return v.t

    # ---------------------------------------------------------------------------------------- expressions
    def ev(self, n):
        m = getattr(self, "e_" + type(n).__name__, None)
        if m is None:
            self.fail(n, f"unsupported expression {type(n).__name__}")
        return m(n)

    def e_Constant(self, n):
        return S(self.number(n))

    def e_Name(self, n):
        if n.id in self.env:
            v = self.env[n.id]
            if isinstance(v, Opaque):
                self.fail(n, f"use of {n.id!r}, which is {v.why} (not part of the translated fragment)")
            return v
        if n.id == "speed_of_light":
            self.tr.need_import("scipy.constants", "speed_of_light", n, self)
            return self.leaf("speed_of_light", n)
        self.fail(n, f"unknown name {n.id!r}")

    def e_Tuple(self, n):
        return PyTuple([self.ev(e) for e in n.elts])

    def e_UnaryOp(self, n):
        if not isinstance(n.op, ast.USub):
            self.fail(n, f"unsupported unary operator {type(n.op).__name__}")
        v = self.ev(n.operand)
        neg = lambda t: f"(- {t})"
        if isinstance(v, S):
            return S(neg(v.t))
        if isinstance(v, Vn):
            return Vn([neg(t) for t in v.ts])
        if isinstance(v, Grid):
            return Grid(lambda i, j, k: neg(v.f(i, j, k)))
        self.fail(n, "unsupported operand of unary minus")

    def e_BinOp(self, n):
        if isinstance(n.op, ast.Pow):
            e = n.right
            if not (isinstance(e, ast.Constant) and isinstance(e.value, int) and not isinstance(e.value, bool) and 0 <= e.value <= 16):
                self.fail(n, "`**` is supported with a literal natural exponent only")
            a = self.ev(n.left)
            return S(f"({self.scalar(a, n, 'base of **')} ^ {e.value})")
        ops = {ast.Add: "+", ast.Sub: "-", ast.Mult: "*", ast.Div: "/"}
        if type(n.op) not in ops:
            self.fail(n, f"unsupported binary operator {type(n.op).__name__}")
        o = ops[type(n.op)]
        return self.lift2(lambda x, y: f"({x} {o} {y})", self.ev(n.left), self.ev(n.right), n)

    def e_Attribute(self, n):
        if isinstance(n.value, ast.Name) and n.value.id == self.selfname:
            if n.attr in SELF_SCALARS and self.f.name == "track":
                return self.leaf(n.attr, n)
            if n.attr == "grid_shape" and self.f.name == "_integrated_green_function":
                return PyTuple([IntDim(a) for a in range(3)])
            self.fail(n, f"unsupported attribute self.{n.attr}")
        if isinstance(n.value, ast.Name) and isinstance(self.env.get(n.value.id), Beam):
            if n.attr not in BEAM_ATTRS:
                self.fail(n, f"unsupported beam attribute .{n.attr}")
            self.use_beam(self.env[n.value.id], n)
            return self.leaf(n.attr, n)
        self.fail(n, f"unsupported attribute access .{n.attr}")

    def index_parts(self, n):
        sl = n.slice
        elts = list(sl.elts) if isinstance(sl, ast.Tuple) else [sl]
        return elts

    def e_Subscript(self, n):
        elts = self.index_parts(n)
        base = self.ev(n.value)
        # boolean mask read g[mask]: only inside a masked assignment with the same mask
        if len(elts) == 1 and isinstance(elts[0], ast.Compare):
            if not self.masks or ast.dump(elts[0]) != self.masks[-1][0]:
                self.fail(n, "boolean-mask read outside a masked assignment with the same mask")
            if not isinstance(base, S) or base.t != self.masks[-1][1]:
                self.fail(n, "boolean-mask read of a tensor other than the one the mask tests")
            return base
        full = lambda x: isinstance(x, ast.Slice) and x.lower is None and x.upper is None and x.step is None
        if isinstance(base, Grid) and len(elts) == 4 and is_none(elts[0]) and all(full(x) for x in elts[1:]):
            return base             # G[None, :, :, :]: a leading (sample) axis is added; the same grid per sample
        if not elts or not is_ellipsis(elts[0]):
            self.fail(n, "subscript must start with `...`")
        rest = elts[1:]
        if isinstance(base, Vn):
            if not rest:
                self.fail(n, "component index expected")
            k = int_const(rest[0])
            if k is None or isinstance(rest[0], ast.UnaryOp) or not 0 <= k < len(base.ts) or not all(is_none(x) for x in rest[1:]):
                self.fail(n, f"unsupported component subscript (literal index in 0..{len(base.ts) - 1}, then only None)")
            return S(base.ts[k])
        if isinstance(base, S):
            if not rest or not all(is_none(x) for x in rest):
                self.fail(n, "a per-sample scalar can only be indexed with `..., None, ...` (broadcasting)")
            return base
        if isinstance(base, Grid):
            start, removed = self.slices(rest, n)
            return View(lambda tgt, f=base.f, start=start: shifted(f, [x - t for x, t in zip(start, tgt)]), removed)
        self.fail(n, "unsupported subscript")

    def slices(self, rest, n):
        if len(rest) != 3:
            self.fail(n, "a grid is indexed by `...` and exactly three slices")
        start, removed = [], []
        for s in rest:
            if not isinstance(s, ast.Slice) or s.step is not None:
                self.fail(n, "grid subscripts must be slices without step")
            lo = 0 if s.lower is None else int_const(s.lower)
            hi = 0 if s.upper is None else int_const(s.upper)
            if lo is None or hi is None or lo < 0 or hi > 0 or (s.upper is not None and hi == 0):
                self.fail(n, "slice bounds must be literal: lower >= 0, upper < 0 (or absent)")
            start.append(lo)
            removed.append(lo - hi)
        return start, removed

    def e_Compare(self, n):
        self.fail(n, "comparison outside a boolean-mask subscript")

    def e_Call(self, n):
        f = n.func
        if isinstance(f, ast.Attribute) and isinstance(f.value, ast.Name) and f.value.id == "torch" and "torch" not in self.env:
            self.tr.need_import(None, "torch", n, self)
            return self.torch_call(f.attr, n)
        if isinstance(f, ast.Attribute) and isinstance(f.value, ast.Name) and f.value.id == self.selfname and f.attr == "_integrated_potential" \
                and self.f.name == "_integrated_green_function":
            if len(n.args) != 3 or n.keywords:
                self.fail(n, "self._integrated_potential(x, y, tau) expected")
            args = [self.ev(a) for a in n.args]
            if not all(isinstance(a, (S, Grid)) for a in args):
                self.fail(n, "_integrated_potential: whole grids or per-sample scalars expected")
            fs = [(lambda i, j, k, t=a.t: t) if isinstance(a, S) else a.f for a in args]
            mk = lambda i, j, k: "(gen_integrated_potential " + " ".join(g(i, j, k) for g in fs) + ")"
            return Grid(mk) if any(isinstance(a, Grid) for a in args) else S(mk("i", "j", "k"))
        if isinstance(f, ast.Attribute) and f.attr == "unsqueeze":
            v = self.ev(f.value)
            if not isinstance(v, S) or n.keywords or len(n.args) != 1 or int_const(n.args[0]) != -1:
                self.fail(n, "`.unsqueeze(-1)` is supported on a per-sample scalar only")
            return v
        self.fail(n, "unsupported call")

    def torch_call(self, name, n):
        if name in UNARY_R:
            if self.dom != "R":
                self.fail(n, f"torch.{name} is not an exact rational operation")
            if len(n.args) != 1 or n.keywords:
                self.fail(n, f"torch.{name}: exactly one positional argument expected")
            return S(f"({UNARY_R[name]} {self.scalar(self.ev(n.args[0]), n)})")
        fk = lambda kw: kw.arg is None and ast.dump(kw.value) == ast.dump(ast.parse(f"{self.selfname}.factory_kwargs", mode="eval").body)
        if name == "arange" and self.f.name == "_integrated_green_function":
            if len(n.args) != 1 or len(n.keywords) != 1 or not fk(n.keywords[0]):
                self.fail(n, "torch.arange(<number of grid points>, **self.factory_kwargs) expected")
            d = self.ev(n.args[0])
            if not isinstance(d, IntDim):
                self.fail(n, "torch.arange: the argument must be a component of self.grid_shape")
            return Arange(d.axis)
        if name == "meshgrid" and self.f.name == "_integrated_green_function":
            ok = len(n.args) == 3 and len(n.keywords) == 1 and n.keywords[0].arg == "indexing" and isinstance(n.keywords[0].value, ast.Constant) \
                and n.keywords[0].value.value == "ij"
            if not ok:
                self.fail(n, 'torch.meshgrid(x, y, tau, indexing="ij") expected')
            for a, e in enumerate(n.args):
                v = self.ev(e)
                if not isinstance(v, Arange) or v.axis != a:
                    self.fail(e, f"torch.meshgrid: argument {a} must be torch.arange(self.grid_shape[{a}])")
            return PyTuple([Grid(lambda i, j, k, a=a: (i, j, k)[a]) for a in range(3)])
        if name == "stack" and self.dom == "Q":
            if len(n.args) != 1 or not isinstance(n.args[0], ast.List) or len(n.keywords) != 1 or n.keywords[0].arg != "dim" \
                    or int_const(n.keywords[0].value) != -1:
                self.fail(n, "torch.stack([..], dim=-1) expected")
            return Vn([self.scalar(self.ev(e), e, "element of torch.stack") for e in n.args[0].elts])
        if name == "tensor" and self.dom == "Q":
            a = n.args
            ok = len(a) == 1 and isinstance(a[0], ast.Attribute) and isinstance(a[0].value, ast.Name) and a[0].value.id == self.selfname \
                and a[0].attr == "grid_shape" and len(n.keywords) == 1 and n.keywords[0].arg is None \
                and ast.dump(n.keywords[0].value) == ast.dump(ast.parse(f"{self.selfname}.factory_kwargs", mode="eval").body)
            if not ok:
                self.fail(n, "torch.tensor(self.grid_shape, **self.factory_kwargs) expected")
            return Vn([self.leaf(f"grid_shape_{c}", n).t for c in range(3)])
        if name == "zeros_like" and self.dom == "Q":
            if len(n.args) != 1 or n.keywords:
                self.fail(n, "torch.zeros_like(x) expected")
            v = self.ev(n.args[0])
            if isinstance(v, S):
                return S("0")
            if isinstance(v, Grid):
                return Grid(lambda i, j, k: "0")
            self.fail(n, "torch.zeros_like of an unsupported value")
        self.fail(n, f"unsupported torch.{name}")

    # ---------------------------------------------------------------------------------------- statements
    def docstring(self, s):
        return isinstance(s, ast.Expr) and isinstance(s.value, ast.Constant) and isinstance(s.value.value, str)

    def bind_name(self, s):
        if len(s.targets) != 1 or not isinstance(s.targets[0], ast.Name):
            return None
        name = s.targets[0].id
        if name in (self.selfname,):
            self.fail(s, "assignment to self")
        return name


def shift(ix, d):
    return ix if d == 0 else (f"({ix} + {d})%nat" if d > 0 else f"({ix} - {-d})%nat")


def shifted(f, d):
    return lambda i, j, k: f(shift(i, d[0]), shift(j, d[1]), shift(k, d[2]))


# ------------------------------------------------------------------------------------------------ translator
class Translator:
    def __init__(self, repo):
        self.repo = Path(repo)
        p = self.repo / SRC
        try:
            self.src = p.read_text()
            self.tree = ast.parse(self.src)
        except (OSError, SyntaxError) as ex:
            raise TranslateError(f"cannot read/parse: {ex}", SRC, getattr(ex, "lineno", 0) or 0)
        cls = [n for n in self.tree.body if isinstance(n, ast.ClassDef) and n.name == CLS]
        if len(cls) != 1:
            raise TranslateError(f"class {CLS} not found exactly once", SRC, 0)
        self.cls = cls[0]
        self.imports = {}
        for n in self.tree.body:
            if isinstance(n, ast.Import):
                for a in n.names:
                    self.imports[a.asname or a.name] = (None, a.name)
            elif isinstance(n, ast.ImportFrom):
                for a in n.names:
                    self.imports[a.asname or a.name] = (n.module, a.name)
            elif isinstance(n, (ast.Assign, ast.AugAssign, ast.AnnAssign, ast.FunctionDef)):
                for t in ast.walk(n):
                    if isinstance(t, ast.Name) and isinstance(t.ctx, ast.Store) and t.id in ("torch", "speed_of_light", "ParticleBeam"):
                        raise TranslateError(f"module-level rebinding of {t.id}", SRC, n.lineno)

    def need_import(self, module, name, node, fn):
        got = self.imports.get(name)
        if got != (module, name):
            fn.fail(node, f"{name} is not the expected import ({module or 'import'} {name}), found {got}")

    def method(self, name):
        fs = [n for n in self.cls.body if isinstance(n, ast.FunctionDef) and n.name == name]
        if len(fs) != 1:
            raise TranslateError(f"method {CLS}.{name} not found exactly once", SRC, self.cls.lineno)
        f = fs[0]
        if f.decorator_list:
            raise TranslateError(f"{CLS}.{name}: decorators are not supported", SRC, f.lineno)
        a = f.args
        if a.vararg or a.kwarg or a.kwonlyargs or a.posonlyargs or a.defaults or not a.args:
            raise TranslateError(f"{CLS}.{name}: unsupported signature", SRC, f.lineno)
        return f

    def info(self, f, coq_names):
        seg = ast.get_source_segment(self.src, f) or ""
        return [dict(coq_name=c, function=f"{CLS}.{f.name}", file=SRC, first_line=f.lineno, last_line=f.end_lineno,
                     sha256=hashlib.sha256(seg.encode()).hexdigest(), has_precondition=False) for c in coq_names]

    # ---------------------------------------------------------------------------------------- 1. _integrated_potential
    def integrated_potential(self):
        f = self.method("_integrated_potential")
        fn = Fn(self, f, "R")
        names = [a.arg for a in f.args.args]
        if len(names) != 4:
            fn.fail(f, "signature (self, x, y, tau) expected")
        fn.selfname = names[0]
        fn.env[names[0]] = Opaque("the element object")
        for a in names[1:]:
            fn.env[a] = fn.leaf(a, f)
        ret = None
        for s in f.body:
            if ret is not None:
                fn.fail(s, "statement after return")
            if fn.docstring(s):
                continue
            if isinstance(s, ast.Assign):
                name = fn.bind_name(s)
                if name is None:
                    fn.fail(s, "only `name = expression` assignments are supported")
                v = fn.ev(s.value)
                fn.scalar(v, s, "assigned value")
                fn.env[name] = v
            elif isinstance(s, ast.Return) and s.value is not None:
                ret = fn.scalar(fn.ev(s.value), s, "returned value")
            else:
                fn.fail(s, f"unsupported statement {type(s).__name__}")
        if ret is None:
            fn.fail(f, "no return")
        ps = " ".join(names[1:])
        text = (f"(* {SRC}:{f.lineno} {CLS}._integrated_potential *)\n"
                f"Definition gen_integrated_potential ({ps} : R) : R :=\n  {ret}.\n")
        return text, self.info(f, ["gen_integrated_potential"])

    # ---------------------------------------------------------------------------------------- 2. track: the kick step
    def track(self):
        f = self.method("track")
        fn = Fn(self, f, "Q")
        names = [a.arg for a in f.args.args]
        if len(names) != 2:
            fn.fail(f, "signature (self, incoming) expected")
        fn.selfname = names[0]
        fn.env[names[0]] = Opaque("the element object")
        fn.env[names[1]] = Beam("incoming")
        body = [s for s in f.body if not fn.docstring(s)]
        if len(body) != 1 or not isinstance(body[0], ast.If):
            fn.fail(f, "body must be `if isinstance(incoming, ParticleBeam): ... else: raise ...`")
        top = body[0]
        want = ast.dump(ast.parse(f"isinstance({names[1]}, ParticleBeam)", mode="eval").body)
        if ast.dump(top.test) != want or len(top.orelse) != 1 or not isinstance(top.orelse[0], ast.Raise):
            fn.fail(top, "`if isinstance(incoming, ParticleBeam): ... else: raise ...` expected")
        self.need_import("cheetah.particles", "ParticleBeam", top, fn)
        st = dict(xp=None, forces=None, gd=None, cs=None, out=None, outname=None, nbeam=0)

        def mentions(node, pred):
            return any(isinstance(t, ast.Name) and pred(fn.env.get(t.id)) for t in ast.walk(node))

        tracked = lambda v: isinstance(v, (S, Vn, Grid))
        ret = False
        for s in top.body:
            if ret:
                fn.fail(s, "statement after return")
            if fn.docstring(s):
                continue
            if isinstance(s, ast.Return):
                if not (isinstance(s.value, ast.Name) and s.value.id == st["outname"]):
                    fn.fail(s, "`return <the beam built by ParticleBeam.from_xyz_pxpypz>` expected")
                ret = True
                continue
            if not isinstance(s, ast.Assign) or len(s.targets) != 1:
                fn.fail(s, f"unsupported statement {type(s).__name__}")
            tg, val = s.targets[0], s.value
            # ---- column update  X[..., k] = e
            if isinstance(tg, ast.Subscript):
                if not (isinstance(tg.value, ast.Name) and isinstance(fn.env.get(tg.value.id), Vn) and fn.env[tg.value.id] is st["xp"]):
                    fn.fail(s, "subscript assignment to something other than the tensor returned by to_xyz_pxpypz()")
                if st["forces"] is None:
                    fn.fail(s, "coordinates modified before the forces are computed from them")
                if st["out"] is not None:
                    fn.fail(s, "coordinates modified after the outgoing beam was built")
                elts = fn.index_parts(tg)
                k = int_const(elts[1]) if len(elts) == 2 and is_ellipsis(elts[0]) else None
                if k is None or not 0 <= k < 7:
                    fn.fail(s, "`X[..., k] = e` with a literal column k in 0..6 expected")
                t = fn.scalar(fn.ev(val), s, "assigned column")
                st["xp"].ts[k] = t          # in place: the Python object is mutated
                continue
            if not isinstance(tg, ast.Name):
                fn.fail(s, "unsupported assignment target")
            name = tg.id
            if name in (names[0], names[1]) or name in self.imports:
                fn.fail(s, f"rebinding of {name!r}")
            if st["out"] is not None and not self.is_frame_shapes(val):
                fn.fail(s, "unsupported statement after the outgoing beam was built")
            # ---- frame
            if self.is_frame_shapes(val):
                if mentions(val, tracked):
                    fn.fail(s, "torch.broadcast_shapes(..) of translated values")
                fn.env[name] = Opaque("a shape of the vectorisation frame")
                continue
            if isinstance(val, ast.Call) and isinstance(val.func, ast.Name) and val.func.id == "ParticleBeam":
                src = self.shape_only_copy(val, fn)
                st["nbeam"] += 1
                fn.env[name] = Beam(f"beam#{st['nbeam']}", root=src.root)
                continue
            if self.is_effect_length(val, fn):
                fn.env[name] = fn.leaf("effect_length", s)
                continue
            # ---- X = B.to_xyz_pxpypz()
            if isinstance(val, ast.Call) and isinstance(val.func, ast.Attribute) and val.func.attr == "to_xyz_pxpypz":
                b = val.func.value
                if val.args or val.keywords or not (isinstance(b, ast.Name) and isinstance(fn.env.get(b.id), Beam)):
                    fn.fail(s, "`<beam>.to_xyz_pxpypz()` expected")
                if st["xp"] is not None:
                    fn.fail(s, "second call of to_xyz_pxpypz()")
                fn.use_beam(fn.env[b.id], s)
                st["xp"] = Vn([fn.leaf(f"xp_{c}", s).t for c in range(7)])
                fn.env[name] = st["xp"]
                continue
            # ---- F = self._compute_forces(B, X, cell_size, grid_dimensions)
            if isinstance(val, ast.Call) and isinstance(val.func, ast.Attribute) and isinstance(val.func.value, ast.Name) \
                    and val.func.value.id == names[0]:
                if val.func.attr != "_compute_forces" or val.keywords or len(val.args) != 4:
                    fn.fail(s, "`self._compute_forces(beam, xp_coordinates, cell_size, grid_dimensions)` expected")
                if st["forces"] is not None:
                    fn.fail(s, "second call of _compute_forces")
                a0 = val.args[0]
                if not (isinstance(a0, ast.Name) and isinstance(fn.env.get(a0.id), Beam)):
                    fn.fail(s, "_compute_forces: first argument must be the beam")
                fn.use_beam(fn.env[a0.id], s)
                a1 = val.args[1]
                if not (isinstance(a1, ast.Name) and fn.env.get(a1.id) is st["xp"] and st["xp"] is not None):
                    fn.fail(s, "_compute_forces: second argument must be the tensor returned by to_xyz_pxpypz()")
                cs, gd = fn.ev(val.args[2]), fn.ev(val.args[3])
                for v, what in ((cs, "cell_size"), (gd, "grid_dimensions")):
                    if not isinstance(v, Vn) or len(v.ts) != 3:
                        fn.fail(s, f"_compute_forces: {what} must be a triple")
                st["cs"], st["gd"] = list(cs.ts), list(gd.ts)
                st["gd_node"], st["cs_node"] = val.args[3], val.args[2]
                st["forces"] = Vn([fn.leaf(f"forces_{c}", s).t for c in range(3)])
                fn.env[name] = st["forces"]
                continue
            # ---- out = ParticleBeam.from_xyz_pxpypz(xp_coordinates=X.reshape(..), ...)
            if isinstance(val, ast.Call) and ast.dump(val.func) == ast.dump(ast.parse("ParticleBeam.from_xyz_pxpypz", mode="eval").body):
                if val.args or st["xp"] is None or st["forces"] is None:
                    fn.fail(s, "ParticleBeam.from_xyz_pxpypz(xp_coordinates=..., ...) after the kick expected")
                kws = {k.arg: k.value for k in val.keywords}
                if None in kws or set(kws) != {"xp_coordinates", "energy", "particle_charges", "survival_probabilities", "device", "dtype"}:
                    fn.fail(s, "from_xyz_pxpypz: unexpected keywords")
                x = kws["xp_coordinates"]
                ok = isinstance(x, ast.Call) and isinstance(x.func, ast.Attribute) and x.func.attr == "reshape" \
                    and isinstance(x.func.value, ast.Name) and fn.env.get(x.func.value.id) is st["xp"] and not x.keywords \
                    and not any(mentions(a, tracked) for a in x.args)
                if not ok:
                    fn.fail(s, "from_xyz_pxpypz: xp_coordinates=<kicked tensor>.reshape(<shape>) expected")
                used = [v for v in fn.env.values() if isinstance(v, Beam) and v.tag == fn.beam_tag]
                for kname, kv in kws.items():
                    if kname == "xp_coordinates":
                        continue
                    b = self.beam_field(kv, kname, fn)
                    if b is None or not used or b.root != used[0].root:
                        fn.fail(s, f"from_xyz_pxpypz: keyword {kname} must be the same field of the incoming beam (or of a shape-only copy of it)")
                st["out"], st["outname"] = list(st["xp"].ts), name
                fn.env[name] = Opaque("the outgoing beam")
                continue
            # ---- any other assignment: a translated expression
            v = fn.ev(val)
            if not isinstance(v, (S, Vn)):
                fn.fail(s, "unsupported value")
            fn.env[name] = v
        if not ret or st["out"] is None:
            fn.fail(f, "no outgoing beam / return found")

        def defn(name, order, comps, comment):
            used = set()
            for c in comps:
                used |= {p for p in fn.params if _mentions(c, p)}
            extra = sorted(used - set(order))
            if extra:
                fn.fail(f, f"{name} depends on {extra}, which the model's reading does not allow (allowed: {order})")
            ty = " * ".join(["Q"] * len(comps))
            return (f"(* {comment} *)\nDefinition {name} ({' '.join(order)} : Q) : {ty} :=\n  (" + ",\n   ".join(comps) + ").\n")

        gd_order = ["grid_extend_x", "grid_extend_y", "grid_extend_tau", "sigma_x", "sigma_y", "sigma_tau"]
        cs_order = gd_order + [f"grid_shape_{c}" for c in range(3)]
        kick_order = [f"xp_{c}" for c in range(7)] + [f"forces_{c}" for c in range(3)] + ["effect_length", "speed_of_light", "relativistic_beta"]
        text = f"(* {SRC}:{f.lineno} {CLS}.track : the kick step, per sample and per particle *)\n"
        text += defn("gen_grid_dimensions", gd_order, st["gd"], "4th argument of self._compute_forces")
        text += defn("gen_cell_size", cs_order, st["cs"], "3rd argument of self._compute_forces")
        text += defn("gen_kick", kick_order, st["out"], "the 7 columns handed to ParticleBeam.from_xyz_pxpypz")
        return text, self.info(f, ["gen_grid_dimensions", "gen_cell_size", "gen_kick"])

    FLATTEN_END = {"particles": -3, "energy": -1, "particle_charges": -2, "survival_probabilities": -2}

    def beam_field(self, node, key, fn):
        """the Beam B if node is `B.<key>` (for device / dtype: `B.particles.<key>`), else None"""
        if key in ("device", "dtype"):
            if not (isinstance(node, ast.Attribute) and node.attr == key):
                return None
            node, key = node.value, "particles"
        if isinstance(node, ast.Attribute) and node.attr == key and isinstance(node.value, ast.Name) and isinstance(fn.env.get(node.value.id), Beam):
            return fn.env[node.value.id]
        return None

    def shape_only_copy(self, call, fn):
        """ParticleBeam(particles=.., energy=.., particle_charges=.., survival_probabilities=.., device=.., dtype=..) where every data
        field is torch.broadcast_to(B.<field>, <shape>) or B.<field>.flatten(end_dim=<the vector dimensions only>) of ONE beam B:
        the same per-sample values as B.  Returns B."""
        kws = {k.arg: k.value for k in call.keywords}
        if call.args or None in kws or set(kws) != set(self.FLATTEN_END) | {"device", "dtype"}:
            fn.fail(call, "ParticleBeam(..): unexpected arguments (a shape-only copy of a beam is expected)")
        srcs = []
        for key, v in kws.items():
            b = None
            if key in ("device", "dtype"):
                b = self.beam_field(v, key, fn)
            elif isinstance(v, ast.Call) and ast.dump(v.func) == ast.dump(ast.parse("torch.broadcast_to", mode="eval").body):
                if len(v.args) == 2 and not v.keywords:
                    b = self.beam_field(v.args[0], key, fn)
            elif isinstance(v, ast.Call) and isinstance(v.func, ast.Attribute) and v.func.attr == "flatten":
                if not v.args and len(v.keywords) == 1 and v.keywords[0].arg == "end_dim" and int_const(v.keywords[0].value) == self.FLATTEN_END[key]:
                    b = self.beam_field(v.func.value, key, fn)
            if b is None:
                fn.fail(v, f"ParticleBeam(..): {key} must be torch.broadcast_to(B.{key}, shape) or B.{key}.flatten(end_dim={self.FLATTEN_END.get(key, '..')}) "
                           f"(device / dtype: B.particles.{key})")
            srcs.append(b)
        if any(b is not srcs[0] for b in srcs):
            fn.fail(call, "ParticleBeam(..): fields taken from different beams")
        return srcs[0]

    def is_frame_shapes(self, val):
        return isinstance(val, ast.Call) and ast.dump(val.func) == ast.dump(ast.parse("torch.broadcast_shapes", mode="eval").body)

    def is_effect_length(self, val, fn):
        """torch.broadcast_to(self.effect_length, <shape>).flatten(end_dim=-1)"""
        if not (isinstance(val, ast.Call) and isinstance(val.func, ast.Attribute) and val.func.attr == "flatten"):
            return False
        inner = val.func.value
        if not (isinstance(inner, ast.Call) and ast.dump(inner.func) == ast.dump(ast.parse("torch.broadcast_to", mode="eval").body)):
            return False
        if len(inner.args) != 2 or inner.keywords or ast.dump(inner.args[0]) != ast.dump(ast.parse(f"{fn.selfname}.effect_length", mode="eval").body):
            fn.fail(val, "torch.broadcast_to(self.effect_length, <shape>).flatten(..) expected")
        if not (isinstance(inner.args[1], ast.Name) and isinstance(fn.env.get(inner.args[1].id), Opaque)):
            fn.fail(val, "broadcast_to: the target must be a frame shape")
        if val.args or len(val.keywords) != 1 or val.keywords[0].arg != "end_dim" or int_const(val.keywords[0].value) != -1:
            fn.fail(val, ".flatten(end_dim=-1) expected")
        return True

    # ---------------------------------------------------------------------------------------- 3. _E_plus_vB_field
    def e_plus_vb(self):
        f = self.method("_E_plus_vB_field")
        fn = Fn(self, f, "Q")
        names = [a.arg for a in f.args.args]
        if len(names) != 5:
            fn.fail(f, "signature (self, beam, xp_coordinates, cell_size, grid_dimensions) expected")
        fn.selfname = names[0]
        fn.env[names[0]] = Opaque("the element object")
        fn.env[names[1]] = Beam("beam")
        fn.env[names[2]] = Opaque("the particle coordinates")
        fn.env[names[3]] = Vn([fn.leaf(f"cell_size_{c}", f).t for c in range(3)])
        fn.env[names[4]] = Opaque("grid_dimensions")
        shape = ["n_0", "n_1", "n_2"]
        pot = None
        ret = None
        for s in f.body:
            if ret is not None:
                fn.fail(s, "statement after return")
            if fn.docstring(s):
                continue
            if isinstance(s, ast.Return):
                if not isinstance(s.value, ast.Tuple) or len(s.value.elts) != 3:
                    fn.fail(s, "`return grad_x, grad_y, grad_tau` expected")
                ret = []
                for e in s.value.elts:
                    v = fn.ev(e)
                    if not isinstance(v, Grid):
                        fn.fail(e, "a whole grid expected")
                    ret.append(v)
                continue
            if not isinstance(s, ast.Assign) or len(s.targets) != 1:
                fn.fail(s, f"unsupported statement {type(s).__name__}")
            tg, val = s.targets[0], s.value
            if isinstance(tg, ast.Name):
                name = tg.id
                if name in names or name in self.imports:
                    fn.fail(s, f"rebinding of {name!r}")
                # potential = self._solve_poisson_equation(beam, xp_coordinates, cell_size, grid_dimensions)
                if isinstance(val, ast.Call) and isinstance(val.func, ast.Attribute) and isinstance(val.func.value, ast.Name) \
                        and val.func.value.id == names[0]:
                    want = ast.dump(ast.parse(f"{names[0]}._solve_poisson_equation({', '.join(names[1:])})", mode="eval").body)
                    if ast.dump(val) != want or pot is not None:
                        fn.fail(s, "`self._solve_poisson_equation(beam, xp_coordinates, cell_size, grid_dimensions)` expected, once")
                    pot = Grid(lambda i, j, k: f"(potential {i} {j} {k})")
                    fn.env[name] = pot
                    continue
                v = fn.ev(val)
                if isinstance(v, View):
                    fn.fail(s, "a grid slice cannot be bound to a name")
                fn.env[name] = v
                continue
            if not (isinstance(tg, ast.Subscript) and isinstance(tg.value, ast.Name)):
                fn.fail(s, "unsupported assignment target")
            name = tg.value.id
            old = fn.env.get(name)
            elts = fn.index_parts(tg)
            # masked assignment  m[g != 0] = e
            if len(elts) == 1 and isinstance(elts[0], ast.Compare):
                c = elts[0]
                if not isinstance(old, S):
                    fn.fail(s, "masked assignment to something other than a per-sample scalar")
                if len(c.ops) != 1 or not isinstance(c.ops[0], ast.NotEq) or int_const(c.comparators[0]) != 0 \
                        or isinstance(c.comparators[0], ast.UnaryOp):
                    fn.fail(s, "mask must be `<tensor> != 0`")
                g = fn.scalar(fn.ev(c.left), s, "masked tensor")
                fn.masks.append((ast.dump(c), g))
                new = fn.scalar(fn.ev(val), s, "assigned value")
                fn.masks.pop()
                fn.env[name] = S(f"(if Qeq_bool {g} 0 then {old.t} else {new})")
                continue
            # slice assignment  G[..., a:b, :, :] = E
            if not isinstance(old, Grid) or old is pot:
                fn.fail(s, "slice assignment to something other than a grid created in this function")
            if not elts or not is_ellipsis(elts[0]):
                fn.fail(s, "subscript must start with `...`")
            start, removed = fn.slices(elts[1:], s)
            v = fn.ev(val)
            if isinstance(v, Grid):
                fn.fail(s, "assignment of a whole grid to a slice")
            if isinstance(v, S):
                rhs = lambda i, j, k, t=v.t: t
            elif isinstance(v, View):
                if tuple(v.removed) != tuple(removed):
                    fn.fail(s, f"extent of the assigned value (n - {tuple(v.removed)}) differs from the extent of the target slice (n - {tuple(removed)})")
                rhs = v.at(start)
            else:
                fn.fail(s, "unsupported assigned value")
            conds = []
            for a in range(3):
                if removed[a]:
                    conds.append((a, start[a], removed[a] - start[a]))

            def newf(i, j, k, old=old, rhs=rhs, conds=conds):
                ix = (i, j, k)
                cs = [f"(({lo} <=? {ix[a]}) && ({ix[a]} + {hi} <? {shape[a]}))%nat" for a, lo, hi in conds]
                if not cs:
                    return rhs(i, j, k)
                c = cs[0] if len(cs) == 1 else "(" + " && ".join(cs) + ")"
                return f"(if {c} then {rhs(i, j, k)} else {old.f(i, j, k)})"
            fn.env[name] = Grid(newf)
        if ret is None or pot is None:
            fn.fail(f, "no potential / return found")
        order = ["cell_size_0", "cell_size_1", "cell_size_2", "relativistic_gamma"]
        comps = [g.f("i", "j", "k") for g in ret]
        extra = sorted(p for p in fn.params if p not in order and any(_mentions(c, p) for c in comps))
        if extra:
            fn.fail(f, f"the returned grids depend on {extra}, which the model's reading does not allow")
        text = (f"(* {SRC}:{f.lineno} {CLS}._E_plus_vB_field : the three returned grids at grid index (i, j, k), per sample;\n"
                f"   (n_0, n_1, n_2) is the shape of the potential *)\n"
                f"Definition gen_E_plus_vB_field (n_0 n_1 n_2 : nat) ({' '.join(order)} : Q) (potential : nat -> nat -> nat -> Q)\n"
                f"    (i j k : nat) : Q * Q * Q :=\n  (" + ",\n   ".join(comps) + ").\n")
        return text, self.info(f, ["gen_E_plus_vB_field"])

    # ---------------------------------------------------------------------------------------- 4. G_values
    def green_values(self):
        f = self.method("_integrated_green_function")
        fn = Fn(self, f, "R")
        names = [a.arg for a in f.args.args]
        if len(names) != 3:
            fn.fail(f, "signature (self, beam, cell_size) expected")
        fn.selfname = names[0]
        fn.env[names[0]] = Opaque("the element object")
        fn.env[names[1]] = Beam("beam")
        fn.env[names[2]] = Vn([fn.leaf(f"cell_size_{c}", f).t for c in range(3)])
        doubled, source, ret = None, None, False
        for s in f.body:
            if ret:
                fn.fail(s, "statement after return")
            if fn.docstring(s):
                continue
            if isinstance(s, ast.Return):
                if not (isinstance(s.value, ast.Name) and doubled is not None and s.value.id == doubled and source is not None):
                    fn.fail(s, "`return <the doubled array the Green-function values were copied into>` expected")
                ret = True
                continue
            if not isinstance(s, ast.Assign) or len(s.targets) != 1:
                fn.fail(s, f"unsupported statement {type(s).__name__}")
            tg, val = s.targets[0], s.value
            # ---- doubling frame (NOT translated; modelled by green3 of SpaceCharge/Hockney.v)
            if isinstance(tg, ast.Name) and isinstance(val, ast.Call) and ast.dump(val.func) == ast.dump(ast.parse("torch.zeros", mode="eval").body):
                if doubled is not None:
                    fn.fail(s, "second torch.zeros(..) array")
                if any(isinstance(t, ast.Name) and isinstance(fn.env.get(t.id), (S, Vn, Grid)) for t in ast.walk(val)):
                    fn.fail(s, "torch.zeros(..) of translated values")
                doubled = tg.id
                fn.env[doubled] = Opaque("the doubled Green-function array")
                continue
            if isinstance(tg, ast.Subscript):
                if not (isinstance(tg.value, ast.Name) and tg.value.id == doubled):
                    fn.fail(s, "subscript assignment to something other than the doubled array")
                v = val
                if isinstance(v, ast.Call) and isinstance(v.func, ast.Attribute) and v.func.attr == "flip" and not v.args \
                        and len(v.keywords) == 1 and v.keywords[0].arg == "dims":
                    v = v.func.value
                if isinstance(v, ast.Subscript):
                    v = v.value
                g = fn.env.get(v.id) if isinstance(v, ast.Name) else None
                if not isinstance(g, Grid) or (source is not None and g is not source):
                    fn.fail(s, "the doubled array must be filled from slices / flips of ONE grid (the Green-function values)")
                source = g
                continue
            if doubled is not None:
                fn.fail(s, "unsupported statement in the doubling part")
            # ---- translated prefix
            if isinstance(tg, ast.Tuple):
                v = fn.ev(val)
                if not all(isinstance(e, ast.Name) for e in tg.elts) or not isinstance(v, PyTuple) or len(v.vs) != len(tg.elts):
                    fn.fail(s, "tuple assignment: names on the left, a tuple of the same length on the right")
                for e, x in zip(tg.elts, v.vs):
                    if e.id in names or e.id in self.imports:
                        fn.fail(s, f"rebinding of {e.id!r}")
                    fn.env[e.id] = x
                continue
            if not isinstance(tg, ast.Name) or tg.id in names or tg.id in self.imports:
                fn.fail(s, "unsupported assignment target")
            v = fn.ev(val)
            if isinstance(v, View):
                fn.fail(s, "a grid slice cannot be bound to a name")
            fn.env[tg.id] = v
        if not ret:
            fn.fail(f, "no return")
        order = ["cell_size_0", "cell_size_1", "cell_size_2", "relativistic_gamma"]
        body = source.f("i", "j", "k")
        extra = sorted(p for p in fn.params if p not in order and _mentions(body, p))
        if extra:
            fn.fail(f, f"the Green-function values depend on {extra}, which the model's reading does not allow")
        text = (f"(* {SRC}:{f.lineno} {CLS}._integrated_green_function : the grid the doubled array is filled from (G_values), at the\n"
                f"   first-octant grid index (i, j, k) read as real numbers (torch.arange), per sample *)\n"
                f"Definition gen_G_values ({' '.join(order)} : R) (i j k : R) : R :=\n  {body}.\n")
        return text, self.info(f, ["gen_G_values"])

    # ---------------------------------------------------------------------------------------- 5./6. cloud-in-cell
    def deposit(self):
        f = self.method("_deposit_charge_on_grid")
        cf = CicFn(self, f)
        out = cf.run_body()
        idx, mask, val = out["deposit"]
        if getattr(cf, "weights", None) is None:
            cf.fail(f, "no cell weights (.prod(dim=-1)) found")
        rows = [f"(({idx[0].f(c, None)}, {idx[1].f(c, None)}, {idx[2].f(c, None)}), {mask.f(c, None)}, {val.f(c, None)})" for c in range(8)]
        ws = [cf.weights.f(c, None) for c in range(8)]
        hd = _cic_header()
        text = (f"(* {SRC}:{f.lineno} {CLS}._deposit_charge_on_grid, per sample and per particle: the 8 entries (grid index, valid, value) this\n"
                f"   particle hands to charge.index_put_(.., accumulate=True) [entries with valid = false are dropped by the mask] *)\n"
                f"Definition gen_deposit_terms {hd} (particle_charges survival_probabilities : Q) : list ((Z * Z * Z) * bool * Q) :=\n  ["
                + ";\n   ".join(rows) + "].\n"
                f"(* cell_weights of the 8 corners *)\nDefinition gen_deposit_weights {hd} : list Q :=\n  [" + ";\n   ".join(ws) + "].\n"
                f"(* the factor applied to the accumulated grid (inv_cell_volume) *)\n"
                f"Definition gen_deposit_scale (cell_size_0 cell_size_1 cell_size_2 : Q) : Q :=\n  {out['scale']}.\n")
        for t in rows + ws + [out["scale"]]:
            for bad in ("elementary_charge", "grad_"):
                if bad in t:
                    cf.fail(f, f"the deposit depends on {bad}")
        return text, self.info(f, ["gen_deposit_terms", "gen_deposit_weights", "gen_deposit_scale"])

    def compute_forces(self):
        f = self.method("_compute_forces")
        cf = CicFn(self, f)
        out = cf.run_body()
        if getattr(cf, "weights", None) is None:
            cf.fail(f, "no cell weights (.prod(dim=-1)) found")
        vs = out["gathered"]
        rows = ["(" + ", ".join(v.f(c, None) for v in vs) + ")" for c in range(8)]
        ws = [cf.weights.f(c, None) for c in range(8)]
        hd = _cic_header()
        text = (f"(* {SRC}:{f.lineno} {CLS}._compute_forces, per sample and per particle: the 8 entries (x, y, tau components) that\n"
                f"   torch.scatter_add sums into this particle's force; grad_c is the c-th grid returned by _E_plus_vB_field *)\n"
                f"Definition gen_gather_terms {hd} (elementary_charge : Q) (grad_0 grad_1 grad_2 : Z * Z * Z -> Q) : list (Q * Q * Q) :=\n  ["
                + ";\n   ".join(rows) + "].\n"
                f"(* cell_weights of the 8 corners *)\nDefinition gen_gather_weights {hd} : list Q :=\n  [" + ";\n   ".join(ws) + "].\n")
        for t in rows + ws:
            for bad in ("particle_charges", "survival_probabilities"):
                if bad in t:
                    cf.fail(f, f"the gathering depends on {bad}")
        return text, self.info(f, ["gen_gather_terms", "gen_gather_weights"])

    def run(self):
        parts, info = [], []
        for part in (self.integrated_potential, self.green_values, self.track, self.e_plus_vb, self.deposit, self.compute_forces):
            t, i = part()
            parts.append(t)
            info += i
        head = ("(** GENERATED by harness/translate_sc.py from cheetah/accelerator/space_charge_kick.py -- do not edit.\n"
                "    Transcription of SpaceChargeKick._integrated_potential and G_values (over R), of the kick step of SpaceChargeKick.track, of\n"
                "    _E_plus_vB_field, _deposit_charge_on_grid and _compute_forces (over Q, per sample / per particle / per grid point).  The reading is documented in\n"
                "    the translator's docstring; Gen/ScGenEquiv.v proves each definition equal to the model of SpaceCharge/*.v. *)\n"
                "From Coq Require Import Reals QArith Qround Bool Arith ZArith List.\nImport ListNotations.\n\n")
        r_part = "Open Scope R_scope.\n\n" + parts[0] + "\n" + parts[1] + "\nClose Scope R_scope.\nOpen Scope Q_scope.\n\n"
        return head + r_part + "\n".join(parts[2:]), info


# ================================================================================================ cloud-in-cell code
# _deposit_charge_on_grid and _compute_forces, read PER SAMPLE and PER PARTICLE over Q / Z; the 8 corners and the 3 coordinate
# axes are enumerated concretely (the `offsets` table is a literal), so every tensor value is a function (corner c, axis a) -> term.
class T:          # kind: "Q" | "Z" | "B"; axes: subset of {"c", "a"}
    def __init__(self, kind, axes, f):
        self.kind, self.axes, self.f = kind, frozenset(axes), f


class Lit:        # the literal 8 x 3 table of offsets
    def __init__(self, rows):
        self.rows = rows


class Form:       # a frame value recognised by its exact form
    def __init__(self, what, **kw):
        self.what = what
        self.__dict__.update(kw)


XYZ = ["xp_0", "xp_2", "xp_4"]
CIC_Q = XYZ + [f"grid_dimensions_{c}" for c in range(3)] + [f"cell_size_{c}" for c in range(3)]
OFFSETS = [[0, 0, 0], [0, 0, 1], [0, 1, 0], [0, 1, 1], [1, 0, 0], [1, 0, 1], [1, 1, 0], [1, 1, 1]]


class CicFn:
    def __init__(self, tr, f):
        self.tr, self.f, self.env = tr, f, {}
        names = [a.arg for a in f.args.args]
        if len(names) != 5:
            self.fail(f, "signature (self, beam, xp_coordinates, cell_size, grid_dimensions) expected")
        self.selfname, self.beam, self.xp = names[0], names[1], names[2]
        self.names = names
        self.env[names[3]] = T("Q", "a", lambda c, a: f"cell_size_{a}")
        self.env[names[4]] = T("Q", "a", lambda c, a: f"grid_dimensions_{a}")
        self.lineno = {}

    def fail(self, node, reason):
        raise TranslateError(f"{CLS}.{self.f.name}: {reason}", SRC, getattr(node, "lineno", self.f.lineno))

    def same(self, node, template):
        return ast.dump(node) == ast.dump(ast.parse(template, mode="eval").body)

    def tv(self, n, kinds=("Q", "Z", "B")):
        v = self.ev(n)
        if not isinstance(v, T) or v.kind not in kinds:
            self.fail(n, f"a tensor of kind {'/'.join(kinds)} is expected")
        return v

    def ev(self, n):
        m = getattr(self, "c_" + type(n).__name__, None)
        if m is None:
            self.fail(n, f"unsupported expression {type(n).__name__}")
        return m(n)

    def c_Constant(self, n):
        if isinstance(n.value, bool) or not isinstance(n.value, int) or not 0 <= n.value <= 8:
            self.fail(n, f"unsupported constant {n.value!r}")
        return T("I", "", lambda c, a, v=n.value: str(v))

    def c_Name(self, n):
        if n.id in self.env:
            return self.env[n.id]
        if n.id == "elementary_charge":
            self.tr.need_import("scipy.constants", "elementary_charge", n, self)
            return T("Q", "", lambda c, a: "elementary_charge")
        self.fail(n, f"unknown name {n.id!r}")

    def c_Tuple(self, n):
        return PyTuple([self.ev(e) for e in n.elts])

    def c_Attribute(self, n):
        if self.same(n, f"{self.selfname}.grid_shape"):
            return Form("grid_shape")
        if self.same(n, f"{self.beam}.particle_charges") or self.same(n, f"{self.beam}.survival_probabilities"):
            return T("Q", "", lambda c, a, t=n.attr: t)
        if n.attr == "T":
            v = self.ev(n.value)
            if isinstance(v, Form) and v.what == "arange_repeat":
                return Form("sample_index")
        self.fail(n, f"unsupported attribute .{n.attr}")

    def coerce(self, a, b, node):
        """common kind of two operands of an arithmetic operation, with the coercions made explicit"""
        ka, kb = a.kind, b.kind
        if "B" in (ka, kb):
            self.fail(node, "arithmetic on a boolean tensor")
        if ka == kb == "I":
            self.fail(node, "arithmetic between literals")
        k = "Q" if "Q" in (ka, kb) else "Z"

        def conv(x):
            if x.kind == k or x.kind == "I":
                return x.f
            return lambda c, a_, g=x.f: f"(inject_Z {g(c, a_)})"
        return k, conv(a), conv(b)

    def c_BinOp(self, n):
        if isinstance(n.op, ast.BitAnd):
            a, b = self.tv(n.left, ("B",)), self.tv(n.right, ("B",))
            return T("B", a.axes | b.axes, lambda c, x: f"({a.f(c, x)} && {b.f(c, x)})")
        ops = {ast.Add: "+", ast.Sub: "-", ast.Mult: "*", ast.Div: "/"}
        if type(n.op) not in ops:
            self.fail(n, f"unsupported binary operator {type(n.op).__name__}")
        o = ops[type(n.op)]
        a, b = self.ev(n.left), self.ev(n.right)
        if isinstance(a, T) and isinstance(b, Lit) and o == "+" and a.kind == "Z":
            return T("Z", a.axes | {"c", "a"}, lambda c, x: f"({a.f(c, x)} + {b.rows[c][x]})%Z")
        if not isinstance(a, T) or not isinstance(b, T):
            self.fail(n, "unsupported operands")
        k, fa, fb = self.coerce(a, b, n)
        if o == "/" and k != "Q":
            self.fail(n, "division of integers")
        suffix = "%Z" if k == "Z" else ""
        return T(k, a.axes | b.axes, lambda c, x: f"({fa(c, x)} {o} {fb(c, x)}){suffix}")

    def c_Compare(self, n):
        if len(n.ops) != 1:
            self.fail(n, "chained comparison")
        a, b = self.ev(n.left), self.ev(n.comparators[0])
        if not isinstance(a, T) or a.kind != "Z" or not isinstance(b, T) or b.kind not in ("Z", "I"):
            self.fail(n, "comparison: integer tensor against an integer expected")
        if isinstance(n.ops[0], ast.GtE):
            return T("B", a.axes, lambda c, x: f"({b.f(c, x)} <=? {a.f(c, x)})%Z")
        if isinstance(n.ops[0], ast.Lt):
            return T("B", a.axes, lambda c, x: f"({a.f(c, x)} <? {b.f(c, x)})%Z")
        self.fail(n, "only `>=` and `<` are supported")

    def c_List(self, n):
        self.fail(n, "list outside a recognised form")

    def c_Subscript(self, n):
        sl = n.slice
        elts = list(sl.elts) if isinstance(sl, ast.Tuple) else [sl]
        # xp_coordinates[..., [0, 2, 4]]
        if isinstance(n.value, ast.Name) and n.value.id == self.xp:
            if not self.same(n, f"{self.xp}[..., [0, 2, 4]]"):
                self.fail(n, "the coordinates may only be read as xp_coordinates[..., [0, 2, 4]]")
            return T("Q", "a", lambda c, a: XYZ[a])
        base = self.ev(n.value)
        if isinstance(base, Form) and base.what == "grid_shape":
            k = int_const(elts[0]) if len(elts) == 1 else None
            if k is None or not 0 <= k < 3:
                self.fail(n, "grid_shape[k] with literal k expected")
            return T("Z", "", lambda c, a, k=k: f"n_{k}")
        if isinstance(base, Form) and base.what == "grad":
            if len(elts) != 1:
                self.fail(n, "grad[force_indices] expected")
            ix = self.ev(elts[0])
            ok = isinstance(ix, PyTuple) and len(ix.vs) == 4 and isinstance(ix.vs[0], Form) and ix.vs[0].what == "sample_index" \
                and all(isinstance(v, T) and v.kind == "Z" and "a" not in v.axes for v in ix.vs[1:])
            if not ok:
                self.fail(n, "a grid must be indexed by (sample index, i_x, i_y, i_tau)")
            i, j, k = ix.vs[1:]
            return T("Q", i.axes | j.axes | k.axes, lambda c, a, g=base.name: f"({g} ({i.f(c, a)}, {j.f(c, a)}, {k.f(c, a)}))")
        # boolean-mask read  X[mask]
        if len(elts) == 1 and isinstance(elts[0], ast.Name) and isinstance(self.env.get(elts[0].id), T) and self.env[elts[0].id].kind == "B":
            m = self.env[elts[0].id]
            if isinstance(base, Form) and base.what == "sample_index":
                return Form("masked_sample_index", mask=m)
            if isinstance(base, T) and "a" not in base.axes:
                return Form("masked", val=base, mask=m)
            self.fail(n, "unsupported boolean-mask read")
        if not elts or not is_ellipsis(elts[0]):
            self.fail(n, "subscript must start with `...`")
        rest = elts[1:]
        if isinstance(base, T) and "a" in base.axes and len(rest) == 1:
            k = int_const(rest[0])
            if k is None or not 0 <= k < 3 or isinstance(rest[0], ast.UnaryOp):
                self.fail(n, "component index 0..2 expected")
            return T(base.kind, base.axes - {"a"}, lambda c, a, k=k: base.f(c, k))
        if isinstance(base, T) and not base.axes and rest and all(is_none(x) for x in rest):
            return base
        self.fail(n, "unsupported subscript")

    def c_Call(self, n):
        f = n.func
        kws = {k.arg: k.value for k in n.keywords}
        if isinstance(f, ast.Attribute) and isinstance(f.value, ast.Name) and f.value.id == "torch":
            self.tr.need_import(None, "torch", n, self)
            name = f.attr
            if name == "floor" and len(n.args) == 1 and not kws:
                v = self.tv(n.args[0], ("Q",))
                return T("F", v.axes, lambda c, a: f"(Qfloor {v.f(c, a)})")      # float-valued floor: only .type(torch.int) may follow
            if name == "tensor" and len(n.args) == 1 and not kws:
                try:
                    rows = ast.literal_eval(n.args[0])
                except ValueError:
                    rows = None
                if rows != OFFSETS:
                    self.fail(n, "the offsets table must be the literal [[0,0,0],[0,0,1],[0,1,0],[0,1,1],[1,0,0],[1,0,1],[1,1,0],[1,1,1]]")
                return Lit(rows)
            if name == "where" and len(n.args) == 3 and not kws:
                cnd = n.args[0]
                if isinstance(cnd, ast.Compare) and len(cnd.ops) == 1 and isinstance(cnd.ops[0], ast.Eq) and int_const(cnd.comparators[0]) == 0:
                    lit = self.ev(cnd.left)
                    if not isinstance(lit, Lit):
                        self.fail(n, "torch.where(<offsets> == 0, a, b) expected")
                    a, b = self.tv(n.args[1], ("Q",)), self.tv(n.args[2], ("Q",))
                    return T("Q", a.axes | b.axes | {"c", "a"}, lambda c, x: a.f(c, x) if lit.rows[c][x] == 0 else b.f(c, x))
                m = self.tv(cnd, ("B",))
                a = self.tv(n.args[1], ("Q",))
                if int_const(n.args[2]) != 0:
                    self.fail(n, "torch.where(mask, values, 0) expected")
                return T("Q", m.axes | a.axes, lambda c, x: f"(if {m.f(c, x)} then {a.f(c, x)} else 0)")
            if name == "clamp" and len(n.args) == 1 and set(kws) == {"min", "max"}:
                v = self.tv(n.args[0], ("Z",))
                lo, hi = self.tv(kws["min"], ("I", "Z")), self.tv(kws["max"], ("I", "Z"))
                return T("Z", v.axes, lambda c, a: f"(Z.min (Z.max {v.f(c, a)} {lo.f(c, a)}) {hi.f(c, a)})")
            if name == "stack" and len(n.args) == 1 and isinstance(n.args[0], ast.List) and len(n.args[0].elts) == 3 \
                    and set(kws) == {"dim"} and int_const(kws["dim"]) == -1:
                vs = [self.tv(e, ("Q",)) for e in n.args[0].elts]
                if any(v.axes != frozenset("c") for v in vs):
                    self.fail(n, "torch.stack of per-corner values expected")
                return Form("stack3", vs=vs)
            if name == "zeros":
                if self.same(n, f"torch.zeros({self.beam}.particles.shape[:-2] + {self.selfname}.grid_shape, **{self.selfname}.factory_kwargs)"):
                    return Form("zero_grid")
                if self.same(n, f"torch.zeros((*{self.beam}.particles.shape[:-1], 3), **{self.selfname}.factory_kwargs)"):
                    return Form("zero_forces")
                self.fail(n, "torch.zeros: neither the charge grid nor the force array")
            if name == "scatter_add":
                ok = len(n.args) == 1 and set(kws) == {"dim", "index", "src"} and int_const(kws["dim"]) == 1
                if ok:
                    z, ix, src = self.ev(n.args[0]), self.ev(kws["index"]), self.ev(kws["src"])
                    ok = isinstance(z, Form) and z.what == "zero_forces" and isinstance(ix, Form) and ix.what == "particle_index" \
                        and isinstance(src, Form) and src.what == "stack3"
                if not ok:
                    self.fail(n, "torch.scatter_add(<zeros>, dim=1, index=<particle index of each corner entry>, src=torch.stack([..], dim=-1)) expected")
                return Form("gathered", vs=src.vs)
            if name == "arange":
                # the two index frames, recognised by their exact form further up (method chains)
                if len(n.args) == 1 and not kws and isinstance(n.args[0], ast.Attribute):
                    a0 = n.args[0]
                    if self.same(a0, f"{self.beam}.num_particles"):
                        return Form("arange_particles")
                if len(n.args) == 1 and not kws and isinstance(n.args[0], ast.Subscript):
                    a0 = n.args[0]
                    v = a0.value
                    if isinstance(v, ast.Attribute) and v.attr == "shape" and isinstance(v.value, ast.Name) and int_const(a0.slice) == 0 \
                            and isinstance(self.env.get(v.value.id), T):
                        return Form("arange_samples")
                self.fail(n, "unsupported torch.arange")
            self.fail(n, f"unsupported torch.{name}")
        if isinstance(f, ast.Attribute):
            m = f.attr
            recv = self.ev(f.value)
            if m == "unsqueeze" and len(n.args) == 1 and not kws and isinstance(recv, (T, Lit)):
                d = int_const(n.args[0])
                ok = (isinstance(recv, Lit) and d == -3) or (isinstance(recv, T) and d == -2 and "c" not in recv.axes)
                if not ok:
                    self.fail(n, "unsupported unsqueeze (offsets.unsqueeze(-3) / <per-particle tensor>.unsqueeze(-2) only)")
                return recv
            if m == "type" and isinstance(recv, T) and recv.kind == "F" and len(n.args) == 1 and not kws and self.same(n.args[0], "torch.int"):
                return T("Z", recv.axes, recv.f)
            if m == "prod" and isinstance(recv, T) and recv.kind == "Q" and recv.axes == frozenset("ca") and not n.args and set(kws) == {"dim"} \
                    and int_const(kws["dim"]) == -1:
                w = T("Q", "c", lambda c, a: f"(({recv.f(c, 0)} * {recv.f(c, 1)}) * {recv.f(c, 2)})")
                if getattr(self, "weights", None) is not None:
                    self.fail(n, "second .prod(dim=-1)")
                self.weights = w
                return w
            if m == "flatten" and isinstance(recv, T) and "c" in recv.axes and not n.args:
                # (.., particles, 8) -> (.., 8 * particles): entry 8 p + c ; (.., particles, 8, 3) -> (.., 8 * particles, 3)
                want = {"start_dim": -3, "end_dim": -2} if "a" in recv.axes else {"start_dim": -2}
                if {k: int_const(v) for k, v in kws.items()} != want:
                    self.fail(n, f"flatten of the particle and corner axes expected ({want})")
                return recv
            if m == "repeat_interleave" and isinstance(recv, T) and not recv.axes and recv.kind == "Q":
                if n.args or {k: int_const(v) for k, v in kws.items()} != {"repeats": 8, "dim": -1}:
                    self.fail(n, "repeat_interleave(repeats=8, dim=-1) expected (entry 8 p + c is particle p)")
                return T("Q", "c", recv.f)
            if m == "repeat" and isinstance(recv, Form) and recv.what == "arange_samples":
                if not kws and len(n.args) == 2 and self.same(n.args[0], f"8 * {self.beam}.particles.shape[-2]") and int_const(n.args[1]) == 1:
                    return Form("arange_repeat")
                self.fail(n, "torch.arange(<samples>).repeat(8 * beam.particles.shape[-2], 1).T expected")
            if isinstance(recv, Form) and recv.what == "arange_particles" and m == "repeat_interleave":
                if len(n.args) == 1 and int_const(n.args[0]) == 8 and not kws:
                    return Form("pi1")
            if isinstance(recv, Form) and recv.what == "pi1" and m == "unsqueeze" and not kws and len(n.args) == 1 and int_const(n.args[0]) == 0:
                return Form("pi2")
            if isinstance(recv, Form) and recv.what == "pi2" and m == "unsqueeze" and not kws and len(n.args) == 1 and int_const(n.args[0]) == -1:
                return Form("pi3")
            if isinstance(recv, Form) and recv.what == "pi3" and m == "expand" and not kws and len(n.args) == 3 \
                    and self.same(n.args[0], f"{self.beam}.particles.shape[0]") and self.same(n.args[1], f"8 * {self.beam}.particles.shape[-2]") \
                    and int_const(n.args[2]) == 3:
                return Form("particle_index")
            self.fail(n, f"unsupported method call .{m}(..)")
        self.fail(n, "unsupported call")

    # ------------------------------------------------------------------------------------------ statements
    def run_body(self):
        out = dict(deposit=None, scale=None, gathered=None)
        ret = False
        for s in self.f.body:
            if ret:
                self.fail(s, "statement after return")
            if isinstance(s, ast.Expr) and isinstance(s.value, ast.Constant) and isinstance(s.value.value, str):
                continue
            if isinstance(s, ast.Return):
                ret = True
                v = s.value
                if self.f.name == "_deposit_charge_on_grid":
                    ok = isinstance(v, ast.BinOp) and isinstance(v.op, ast.Mult) and isinstance(v.left, ast.Name) \
                        and isinstance(self.env.get(v.left.id), Form) and self.env[v.left.id].what == "zero_grid" and out["deposit"] is not None
                    if not ok:
                        self.fail(s, "`return <charge grid> * inv_cell_volume[..., None, None, None]` expected")
                    sc = self.tv(v.right, ("Q",))
                    if sc.axes:
                        self.fail(s, "the normalisation must be a per-sample scalar")
                    out["scale"] = sc.f(None, None)
                else:
                    g = self.ev(v)
                    if not isinstance(g, Form) or g.what != "gathered":
                        self.fail(s, "`return <result of torch.scatter_add>` expected")
                    out["gathered"] = g.vs
                continue
            # charge.index_put_((iv[m], ix[m], iy[m], it[m]), values, accumulate=True)
            if isinstance(s, ast.Expr) and isinstance(s.value, ast.Call) and isinstance(s.value.func, ast.Attribute) and s.value.func.attr == "index_put_":
                c = s.value
                recv = self.ev(c.func.value)
                kws = {k.arg: k.value for k in c.keywords}
                ok = isinstance(recv, Form) and recv.what == "zero_grid" and len(c.args) == 2 and set(kws) == {"accumulate"} \
                    and isinstance(kws["accumulate"], ast.Constant) and kws["accumulate"].value is True and out["deposit"] is None
                if ok:
                    ix, vals = self.ev(c.args[0]), self.ev(c.args[1])
                    ok = isinstance(ix, PyTuple) and len(ix.vs) == 4 and isinstance(ix.vs[0], Form) and ix.vs[0].what == "masked_sample_index" \
                        and all(isinstance(v, Form) and v.what == "masked" and v.val.kind == "Z" for v in ix.vs[1:]) \
                        and isinstance(vals, Form) and vals.what == "masked" and vals.val.kind == "Q" \
                        and all(v.mask is vals.mask for v in ix.vs)
                if not ok:
                    self.fail(s, "`charge.index_put_((sample[m], i_x[m], i_y[m], i_tau[m]), values[m], accumulate=True)` with ONE mask m expected, once")
                out["deposit"] = ([v.val for v in ix.vs[1:]], vals.mask, vals.val)
                continue
            if not isinstance(s, ast.Assign) or len(s.targets) != 1:
                self.fail(s, f"unsupported statement {type(s).__name__}")
            tg = s.targets[0]
            if out["deposit"] is not None and not isinstance(tg, ast.Name):
                self.fail(s, "unsupported statement after the accumulation")
            if isinstance(tg, ast.Tuple) and self.f.name == "_compute_forces":
                want = f"{self.selfname}._E_plus_vB_field({', '.join(self.names[1:])})"
                if not self.same(s.value, want) or len(tg.elts) != 3 or not all(isinstance(e, ast.Name) for e in tg.elts):
                    self.fail(s, "`grad_x, grad_y, grad_z = self._E_plus_vB_field(beam, xp_coordinates, cell_size, grid_dimensions)` expected")
                for k, e in enumerate(tg.elts):
                    self.env[e.id] = Form("grad", name=f"grad_{k}")
                continue
            if not isinstance(tg, ast.Name) or tg.id in self.names or tg.id in self.tr.imports:
                self.fail(s, "unsupported assignment target")
            v = self.ev(s.value)
            if isinstance(v, T) and v.kind in ("F", "I"):
                self.fail(s, "unsupported value (a floor must be followed by .type(torch.int))")
            if isinstance(v, Form) and v.what in ("arange_samples", "arange_repeat", "arange_particles", "pi1", "pi2", "pi3"):
                self.fail(s, "incomplete index-frame expression")
            self.env[tg.id] = v
        if not ret:
            self.fail(self.f, "no return")
        return out


def _cic_header(extra=""):
    return ("(" + " ".join(CIC_Q) + " : Q) (n_0 n_1 n_2 : Z)" + extra)


def _find_weights(cf, node_f):
    """the per-corner tensor that is the product over the coordinate axis (X.prod(dim=-1)): the cell weights"""
    ws = [v for v in cf.env.values() if isinstance(v, T) and getattr(v, "is_weights", False)]
    return ws


def _mentions(term, ident):
    import re
    return re.search(r"(?<![\w'])" + re.escape(ident) + r"(?![\w'])", term) is not None


def generate_info(repo):
    """Returns (coq_text, info list).  Raises TranslateError."""
    return Translator(repo).run()


def generate(repo):
    """Coq text of Gen/ScGen.v for the source tree at `repo`.  Raises TranslateError."""
    return generate_info(repo)[0]


def main(argv):
    repo = argv[1] if len(argv) > 1 else "/repo"
    out = Path(argv[2]) if len(argv) > 2 else Path(__file__).resolve().parent.parent / "coq" / "theories" / "Gen" / "ScGen.v"
    try:
        text = generate(repo)
    except TranslateError as ex:
        print("TRANSLATOR FAILED:", ex)
        return 2
    out.write_text(text)
    print("written", out)
    return 0


if __name__ == "__main__":
    sys.exit(main(sys.argv))
