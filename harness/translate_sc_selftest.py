"""Self-test of the space-charge source-to-Coq translator stage (harness/translate_stage_sc.translator_obligation_sc).

Copies /repo (without .git) to a scratch directory under /tmp/agent-sc (removed afterwards), points VERIF_REPO at the copy and
runs the stage on
  * the unchanged copy                                   -> must be ok
  * one-line SEMANTIC mutations of translated lines      -> must be translator_failed or equivalence_broken
  * COSMETIC edits (comment, local rename, reformat)     -> must be ok
  * the seeded patches /verif/seeded/C19-*: reports which touch a translated function and whether the stage notices them
    (informational: most of them change code outside the translated fragment).
Usage:  PYTHONPATH=/verif/harness /venv/bin/python harness/translate_sc_selftest.py [--only substring] [--no-seeded]
Exit status 0 iff every expectation holds.
"""
import os
import re
import shutil
import subprocess
import sys
import time
from pathlib import Path

SCRATCH = Path(f"/tmp/agent-sc/selftest_{os.getpid()}")
COPY = SCRATCH / "repo"
os.environ["VERIF_REPO"] = str(COPY)
sys.path.insert(0, str(Path(__file__).resolve().parent))
import common  # noqa: E402
import translate_sc  # noqa: E402
import translate_stage_sc  # noqa: E402

F = translate_sc.SRC

# (id, expectation, edits, description)   edits: (old, new) | [(old, new), ..]; every `old` must occur exactly once
MUTATIONS = [
    # ---- semantic: _integrated_potential
    ("S01", "detect", ("r = torch.sqrt(x**2 + y**2 + tau**2)", "r = torch.sqrt(x**2 + y**2 - tau**2)"), "ipot: sign inside r"),
    ("S02", "detect", ("-0.5 * tau**2 * torch.atan(x * y / (tau * r))", "-0.5 * tau**2 * torch.atan(x * y / (tau + r))"), "ipot: tau * r -> tau + r"),
    ("S03", "detect", ("- 0.5 * y**2 * torch.atan(x * tau / (y * r))", "- 0.5 * y**2 * torch.atan(x * tau / (x * r))"), "ipot: stale variable in the 2nd atan"),
    ("S04", "detect", ("+ y * tau * torch.asinh(x / torch.sqrt(y**2 + tau**2))", "+ y * tau * torch.asinh(x / torch.sqrt(y**2 + tau**3))"), "ipot: exponent 3"),
    ("S05", "detect", ("+ x * y * torch.asinh(tau / torch.sqrt(x**2 + y**2))", "+ x * y * torch.atan(tau / torch.sqrt(x**2 + y**2))"), "ipot: asinh -> atan"),
    ("S06", "detect", ("- 0.5 * x**2 * torch.atan(y * tau / (x * r))", "- 0.25 * x**2 * torch.atan(y * tau / (x * r))"), "ipot: factor 0.25"),
    ("S07", "detect", ("+ x * tau * torch.asinh(y / torch.sqrt(x**2 + tau**2))", "+ x * tau * torch.log(y / torch.sqrt(x**2 + tau**2))"), "ipot: unsupported torch.log"),
    # ---- semantic: the kick step of track
    ("S08", "detect", ("self.grid_extend_y * flattened_incoming.sigma_y,", "self.grid_extend_y * flattened_incoming.sigma_x,"), "track: sigma_x used for the y extent"),
    ("S09", "detect", ("/ (torch.tensor(self.grid_shape, **self.factory_kwargs) - 1)", "/ (torch.tensor(self.grid_shape, **self.factory_kwargs))"), "track: cell size without the -1"),
    ("S10", "detect", ("speed_of_light * flattened_incoming.relativistic_beta", "speed_of_light * flattened_incoming.relativistic_gamma"), "track: dt with gamma"),
    ("S11", "detect", ("xp_coordinates[..., 3] = xp_coordinates[..., 3] + forces[\n                ..., 1\n            ]",
                       "xp_coordinates[..., 3] = xp_coordinates[..., 3] + forces[\n                ..., 0\n            ]"), "track: py kicked with F_x"),
    ("S12", "detect", ("xp_coordinates[..., 5] = xp_coordinates[..., 5] + forces[", "xp_coordinates[..., 4] = xp_coordinates[..., 5] + forces["), "track: kick written to column 4"),
    ("S13", "detect", ("xp_coordinates[..., 1] = xp_coordinates[..., 1] + forces[", "xp_coordinates[..., 1] = xp_coordinates[..., 1] - forces["), "track: sign of the px kick"),
    ("S14", "detect", ("flattened_incoming, xp_coordinates, cell_size, grid_dimensions\n            )\n            xp_coordinates[..., 1]",
                       "flattened_incoming, xp_coordinates, grid_dimensions, cell_size\n            )\n            xp_coordinates[..., 1]"), "track: cell_size / grid_dimensions swapped in the call"),
    ("S15", "detect", ("            dt = flattened_length_effect / (", "            dt = 2 * flattened_length_effect / ("), "track: dt doubled"),
    ("S16", "detect", ("            xp_coordinates = flattened_incoming.to_xyz_pxpypz()", "            xp_coordinates = vectorized_incoming.to_xyz_pxpypz()"), "track: two different beam objects"),
    # ---- semantic: _E_plus_vB_field
    ("S17", "detect", ("grad_x = -igamma2[..., None, None, None] * grad_x", "grad_x = igamma2[..., None, None, None] * grad_x"), "field: minus sign dropped"),
    ("S18", "detect", (") * (0.5 * inv_cell_size[..., 1, None, None, None])", ") * (0.5 * inv_cell_size[..., 0, None, None, None])"), "field: grad_y scaled with the x cell size"),
    ("S19", "detect", ("potential[..., :, :, 2:] - potential[..., :, :, :-2]", "potential[..., :, :, 2:] - potential[..., :, :, 1:-1]"), "field: one-sided difference in tau"),
    ("S20", "detect", ("1 / beam.relativistic_gamma[beam.relativistic_gamma != 0] ** 2", "1 / beam.relativistic_gamma[beam.relativistic_gamma != 0] ** 3"), "field: igamma2 exponent"),
    ("S21", "detect", ("grad_y[..., :, 1:-1, :] = (", "grad_y[..., 1:-1, :, :] = ("), "field: grad_y written along the x axis (extent mismatch)"),
    ("S22", "detect", ("potential[..., 2:, :, :] - potential[..., :-2, :, :]", "potential[..., :-2, :, :] - potential[..., 2:, :, :]"), "field: difference reversed"),
    ("S23", "detect", ("        inv_cell_size = 1 / cell_size\n        igamma2 =", "        inv_cell_size = 2 / cell_size\n        igamma2 ="), "field: factor in inv_cell_size"),
    # ---- semantic: G_values of _integrated_green_function
    ("S24", "detect", ("cell_size[..., 2] * beam.relativistic_gamma,", "cell_size[..., 2] / beam.relativistic_gamma,"), "G_values: dtau divided by gamma"),
    ("S25", "detect", ("ix_grid[None, :, :, :] * dx[..., None, None, None]", "ix_grid[None, :, :, :] * dy[..., None, None, None]"), "G_values: x_grid scaled with dy"),
    ("S26", "detect", ('torch.meshgrid(x, y, tau, indexing="ij")', 'torch.meshgrid(y, x, tau, indexing="ij")'), "G_values: meshgrid arguments swapped"),
    ("S27", "detect", ("G_values = (\n            self._integrated_potential(\n                x_grid + 0.5 * dx[..., None, None, None],",
                       "G_values = (\n            self._integrated_potential(\n                x_grid + 1.5 * dx[..., None, None, None],"), "G_values: corner offset 1.5"),
    ("S28", "detect", ("] = G_values[..., 1:, :, :].flip(", "] = (2 * G_values)[..., 1:, :, :].flip("), "doubling frame: not a plain slice/flip of G_values"),
    # ---- semantic: the vectorisation frame of track
    ("S29", "detect", ("particles=vectorized_incoming.particles.flatten(end_dim=-3)", "particles=vectorized_incoming.particles.flatten(end_dim=-2)"), "frame: flatten merges the particle axis"),
    ("S30", "detect", ("                energy=incoming.energy,\n", "                energy=incoming.energy * 2,\n"), "frame: outgoing energy changed"),
    ("S31", "detect", ("energy=torch.broadcast_to(incoming.energy, vector_shape),", "energy=torch.broadcast_to(incoming.energy + 1, vector_shape),"), "frame: energy of the copy changed"),
    # ---- semantic: _deposit_charge_on_grid
    ("D01", "detect", (") * inv_cell_size.unsqueeze(-2)", ") / inv_cell_size.unsqueeze(-2)"), "deposit: normalised position divided by inv_cell_size"),
    ("D02", "detect", ("offsets.unsqueeze(-3) == 0, 1 - cell_fractions, cell_fractions\n        )\n        # Shape: (.., num_particles, 8, 3)",
                       "offsets.unsqueeze(-3) == 0, cell_fractions, 1 - cell_fractions\n        )\n        # Shape: (.., num_particles, 8, 3)"), "deposit: weights of lower / upper node swapped"),
    ("D03", "detect", ("& (idx_tau < self.grid_shape[2])", "& (idx_tau < self.grid_shape[1])"), "deposit: tau index checked against n_y (seeded C19-4)"),
    ("D04", "detect", ("survived_particle_charges = beam.particle_charges * beam.survival_probabilities", "survived_particle_charges = beam.particle_charges"), "deposit: survival probability dropped"),
    ("D05", "detect", ("repeated_charges = survived_particle_charges.repeat_interleave(\n            repeats=8, dim=-1\n        )",
                       "repeated_charges = survived_particle_charges.repeat(\n            1, 8\n        )"), "deposit: repeat(1, 8) pairs weights with other particles' charges (seeded C19-7)"),
    ("D06", "detect", ("accumulate=True", "accumulate=False"), "deposit: index_put_ without accumulation"),
    ("D07", "detect", ("inv_cell_size[..., 0] * inv_cell_size[..., 1] * inv_cell_size[..., 2]", "inv_cell_size[..., 0] * inv_cell_size[..., 1] * inv_cell_size[..., 1]"), "deposit: cell volume with cs_1 twice"),
    ("D08", "detect", ("(idx_x >= 0)\n            & (idx_x < self.grid_shape[0])", "(idx_x > 0)\n            & (idx_x < self.grid_shape[0])"), "deposit: valid mask excludes index 0"),
    ("D09", "detect", ("idx_y = surrounding_indices[..., 1].flatten(start_dim=-2)", "idx_y = surrounding_indices[..., 0].flatten(start_dim=-2)"), "deposit: idx_y reads the x index"),
    # ---- semantic: _compute_forces
    ("G01", "detect", (") / cell_size.unsqueeze(-2)", ") * cell_size.unsqueeze(-2)"), "gather: normalised position multiplied by the cell size"),
    ("G02", "detect", (".repeat(8 * beam.particles.shape[-2], 1)\n            .T\n        )  # Shape: (..., num_particles * 8)",
                       ".repeat(8 * beam.particles.shape[-2])\n            .reshape(cell_indices.shape[0], -1)\n        )  # Shape: (..., num_particles * 8)"), "gather: batch index not constant per sample (seeded C19-8)"),
    ("G03", "detect", ("cell_weights.flatten(start_dim=-2) * elementary_charge", "cell_weights.flatten(start_dim=-2) * elementary_charge * 2"), "gather: factor 2"),
    ("G04", "detect", ("Fy_values = torch.where(valid_mask, grad_y[force_indices], 0)", "Fy_values = torch.where(valid_mask, grad_x[force_indices], 0)"), "gather: F_y read from grad_x"),
    ("G05", "detect", ("torch.clamp(idx_y, min=0, max=grid_shape[1] - 1)", "torch.clamp(idx_x, min=0, max=grid_shape[1] - 1)"), "gather: y index of the force read is the x index"),
    ("G06", "detect", (".repeat_interleave(8)\n            .unsqueeze(0)", ".repeat(8)\n            .unsqueeze(0)"), "gather: scatter index pairs corner entries with other particles"),
    ("G07", "detect", ("values_z = cell_weights_with_e * Fz_values", "values_z = cell_weights_with_e * Fx_values"), "gather: z force from F_x"),
    ("G08", "detect", ("Fx_values = torch.where(valid_mask, grad_x[force_indices], 0)", "Fx_values = grad_x[force_indices]"), "gather: invalid corners not zeroed"),
    # ---- cosmetic
    ("K01", "ok", ("        r = torch.sqrt(x**2 + y**2 + tau**2)", "        # radius\n        r = torch.sqrt(x**2 + y**2 + tau**2)  # |(x, y, tau)|"), "comments in _integrated_potential"),
    ("K02", "ok", [("        r = torch.sqrt(x**2 + y**2 + tau**2)", "        radius = torch.sqrt(x**2 + y**2 + tau**2)"),
                   ("(tau * r))", "(tau * radius))"), ("(y * r))", "(y * radius))"), ("(x * r))", "(x * radius))")], "local rename r -> radius"),
    ("K03", "ok", [("            dt = flattened_length_effect / (", "            time_step = flattened_length_effect / ("),
                   ("] * dt.unsqueeze(-1)\n            xp_coordinates[..., 3]", "] * time_step.unsqueeze(-1)\n            xp_coordinates[..., 3]"),
                   ("] * dt.unsqueeze(-1)\n            xp_coordinates[..., 5]", "] * time_step.unsqueeze(-1)\n            xp_coordinates[..., 5]"),
                   ("] * dt.unsqueeze(-1)\n\n            # Reverse", "] * time_step.unsqueeze(-1)\n\n            # Reverse")], "local rename dt -> time_step"),
    ("K04", "ok", ("            cell_size = (\n                2\n                * grid_dimensions\n                / (torch.tensor(self.grid_shape, **self.factory_kwargs) - 1)\n            )",
                   "            cell_size = 2 * grid_dimensions / (torch.tensor(self.grid_shape, **self.factory_kwargs) - 1)"), "reformat cell_size on one line"),
    ("K05", "ok", ("        integrated_potential = (\n", "        integrated_potential = (  # antiderivative of 1/r\n\n"), "comment + blank line inside the expression"),
    ("K07", "ok", [("x_grid", "xs", "all"), ("G_values", "first_octant", "all")], "local renames x_grid, G_values (all occurrences)"),
    ("K08", "ok", [("survived_particle_charges", "live_charges", "all"), ("cell_fractions", "frac", "all")], "local renames in the cloud-in-cell code"),
    ("K09", "ok", ("        # Accumulate the charge contributions\n", "        # Accumulate the charge contributions (one entry per particle and corner)\n\n"), "comment in the deposit"),
    ("K06", "ok", [("        inv_cell_size = 1 / cell_size\n        igamma2 =", "        one_over_cell = 1 / cell_size\n        igamma2 ="),
                   ("(0.5 * inv_cell_size[..., 0, None, None, None])", "(0.5 * one_over_cell[..., 0, None, None, None])"),
                   ("(0.5 * inv_cell_size[..., 1, None, None, None])", "(0.5 * one_over_cell[..., 1, None, None, None])"),
                   ("(0.5 * inv_cell_size[..., 2, None, None, None])", "(0.5 * one_over_cell[..., 2, None, None, None])")], "local rename inv_cell_size"),
]


def apply_mutation(m):
    path = COPY / F
    src = path.read_text()
    edits = m[2] if isinstance(m[2], list) else [m[2]]
    new = src
    for e in edits:
        old, rep = e[0], e[1]
        if len(e) == 3 and e[2] == "all":
            if old not in new:
                raise RuntimeError(f"{m[0]}: pattern does not occur: {old!r}")
        elif new.count(old) != 1:
            raise RuntimeError(f"{m[0]}: pattern occurs {new.count(old)} times: {old!r}")
        new = new.replace(old, rep)
    path.write_text(new)
    return {F: src}


def restore(backup):
    for f, src in backup.items():
        if src is None:
            (COPY / f).unlink(missing_ok=True)
        else:
            (COPY / f).write_text(src)


def describe(r):
    if r["status"] == "ok":
        return "ok"
    if r["status"] == "translator_failed":
        return f"translator_failed {r.get('file')}:{r.get('line')} {str(r.get('reason'))[:90]}"
    if r["status"] == "equivalence_broken":
        return f"equivalence_broken {r.get('file')}:{r.get('line')} lemma {r.get('lemma')}"
    return f"{r['status']} {str(r.get('reason'))[:100]}"


def fn_hashes():
    try:
        return {i["function"]: i["sha256"] for i in translate_sc.generate_info(COPY)[1]}
    except Exception:
        return None


def main():
    only = sys.argv[sys.argv.index("--only") + 1] if "--only" in sys.argv else None
    t0 = time.time()
    bad = 0
    counts = {"detect": [0, 0], "ok": [0, 0]}
    try:
        SCRATCH.mkdir(parents=True, exist_ok=True)
        shutil.copytree(Path("/repo"), COPY, ignore=shutil.ignore_patterns(".git", "__pycache__"))
        assert str(common.REPO) == str(COPY), "the stage must read the scratch copy"
        r0 = translate_stage_sc.translator_obligation_sc()
        print(f"BASE  {describe(r0)}  lemmas={len(r0['lemmas'])} theorems={len(r0['theorems'])} axioms={r0['axioms']} [{r0['wall_s']} s]", flush=True)
        if r0["status"] != "ok":
            print(r0)
            return 1
        base = fn_hashes()
        for m in MUTATIONS:
            if only and only not in m[0] and only not in m[3]:
                continue
            backup = apply_mutation(m)
            try:
                r = translate_stage_sc.translator_obligation_sc()
                h = fn_hashes()
            finally:
                restore(backup)
            exp = m[1]
            good = (r["status"] in ("translator_failed", "equivalence_broken")) if exp == "detect" else (r["status"] == "ok")
            if h is not None and h == base:
                good = False        # a mutation that does not reach a translated function tests nothing
                r = dict(r, status="mutation-missed-its-target", reason="the edit changed no translated function")
            counts[exp][0] += 1
            counts[exp][1] += 1 if good else 0
            bad += 0 if good else 1
            print(f"{m[0]:5} {exp:7} {'PASS' if good else 'FAIL'}  {describe(r):120}  | {m[3]}  [{r['wall_s']} s]", flush=True)
        r1 = translate_stage_sc.translator_obligation_sc()
        if r1["status"] != "ok" or r1["generated_sha256"] != r0["generated_sha256"]:
            print("FAIL: the scratch copy was not restored faithfully")
            bad += 1
        if "--no-seeded" not in sys.argv and not only:
            print("\nseeded patches (touching a translated function -> must be detected; otherwise -> must be ok):")
            for pd in sorted((common.VERIF / "seeded").glob("C19-*/patch.diff")):
                files = re.findall(r"^\+\+\+ b/(\S+)", pd.read_text(), flags=re.M)
                backup = {f: ((COPY / f).read_text() if (COPY / f).exists() else None) for f in files}
                pr = subprocess.run(["patch", "-p1", "-s", "--no-backup-if-mismatch", "-i", str(pd)], cwd=COPY, capture_output=True, text=True)
                try:
                    if pr.returncode != 0:
                        print(f"{pd.parent.name:6} patch does not apply: {pr.stdout[-200:]}")
                        continue
                    h = fn_hashes()
                    r = translate_stage_sc.translator_obligation_sc()
                finally:
                    restore(backup)
                    for junk in list(COPY.rglob("*.orig")) + list(COPY.rglob("*.rej")):
                        junk.unlink()
                touched = h is None or h != base
                tch = "a translated function" if touched else "no translated function"
                good = (r["status"] in ("translator_failed", "equivalence_broken")) if touched else (r["status"] == "ok")
                bad += 0 if good else 1
                print(f"{pd.parent.name:6} touches {tch:24} {'PASS' if good else 'FAIL'} stage: {describe(r)}", flush=True)
        d, k = counts["detect"], counts["ok"]
        print(f"\nsemantic mutations detected {d[1]}/{d[0]}; cosmetic edits accepted {k[1]}/{k[0]}")
        print(f"self-test finished in {round(time.time() - t0, 1)} s: {'ALL EXPECTATIONS HOLD' if not bad else str(bad) + ' FAILED'}")
    finally:
        shutil.rmtree(SCRATCH, ignore_errors=True)
    return 1 if bad else 0


if __name__ == "__main__":
    sys.exit(main())
