"""translate_seg -- regenerate a Coq transcription of cheetah's STRUCTURAL (control-flow) code from /repo's SOURCE TEXT.

Second tie for the lattice layer: the methods of `Segment` (cheetah/accelerator/segment.py) and the generic
`Element.track` (cheetah/accelerator/element.py) are read with Python's `ast` (nothing of cheetah is imported or
executed) and translated, statement by statement, into Coq definitions (`Gen/SegGen.v`) that are generic in the same
Section variables as Lattice/Track.v.  `Gen/SegGenEquiv.v` proves, function by function, that the generated definition
instantiated with the hand-written model (Lattice/Track.v, Merge.v, Filter.v, Beam/Moments.v) returns `Ok (model ..)`;
the final statements are in `Gen/SegGenProps.v`.  A semantic edit of a translated function changes the generated term and
the lemma stops compiling; an edit that uses syntax outside the fragment below makes the translator FAIL (TranslateError
with reason, file, line).  Nothing is skipped silently.

TRUSTED BASE (this text is quoted in DESIGN.md).  Trusted is exactly: Python's `ast`, the OBJECT READING and the
CONSTRUCT TABLE below, the combinators of Gen/SegGenBase.v (`exc`, `bind`, `loop`, `mapM`, `filterM`, `item`,
`last_item`, `set_last`, `obj`, `Element_track`), the list SPECS (which functions, the types of their parameters), and
the Coq kernel.

Translated (SPECS, in this order; later ones may call earlier ones):
  segment.py   Segment.is_skippable (property), Segment.length (property), Segment.transfer_map, Segment.track,
               Segment.subcell, Segment.flattened, Segment.transfer_maps_merged, Segment.without_inactive_markers,
               Segment.without_inactive_zero_length_elements, Segment.inactive_elements_as_drifts, Segment.split,
               Segment.clone
  custom_transfer_map.py   CustomTransferMap.from_merging_elements (classmethod)
  element.py   Element.track (both beam-type branches)

OBJECT READING.
  * An Element object is a value of Track.v's tree type `elem` = Leaf l | Seg name elements.  `self` of a Segment method
    is `Seg name elements`: the generated definition takes `(name : string) (elements : list elem)`;
    `self.elements` / `self.name` are these, `self.<translated property or method>` is the generated definition
    (subclasses of Segment that override methods are not modelled), `self.__class__(..)` is `Segment(..)`.
  * A method / attribute of ANOTHER element is dynamic dispatch, a Section variable of the generated file:
      x.is_skippable -> d_skippable x : bool      x.name -> d_name x : string       x.length -> d_length x : Len
      x.track(b) -> d_track x b : B               x.transfer_map(e) -> d_tmap x e : option M   (None = Python's None)
      x.flattened() -> d_flattened x : exc elem   x.split(r) -> d_split x r : list elem        x.clone() -> d_clone x
      isinstance(x, Marker) -> d_is_marker x      hasattr(x, "is_active") -> d_has_is_active x
      x.is_active -> d_is_active x : exc bool     (AttributeError = Raise)
      isinstance(x, Segment) -> is_segment x      x.elements -> elements_of x : exc (list elem)  (a Leaf has none)
    The equivalence lemmas instantiate them with the model's functions (`track`, `skippable`, `ename`, `elen`, ..),
    i.e. they are the Seg-case unfolding equations of the model ("open recursion").  Leaf methods are total functions.
  * Exceptions: every generated definition returns `exc T` (`Ok v` | `Raise`).  l[-1] / l[k] on a too short list,
    `.elements` of a non-Segment, None where a tensor is needed, `.is_active` of an element without it -> Raise.
    The lemmas prove `= Ok ..`, i.e. that the structural code raises none of these.
  * Mutation is accepted only on LOCAL lists created in the function by `[]` (`v.append(e)`, `v += l`, `v = []`), and,
    through an item of such a list, in the form `v[-1].elements.append(e)`: then `v : list obj`; an item appended as a
    constructor call written in the argument (`v.append(Segment(..))`) is `New`, any other item is `Ref`;
    `.elements.append` on a `Ref` (an object shared with the caller's lattice) or on a non-Segment is Raise.
    Binding a second name to a list (`a = b`), iterating over a list the loop body assigns, assigning to `self.*` fail.
  * Opaque operations (Section variables; their meaning is the model's): one = torch.eye(7, device=e.device,
    dtype=e.dtype); mul = torch.matmul; en b = b.energy; app (Track.v: Element.track with a given map);
    ladd = torch.add, lzero = torch.tensor(0.0) (only as the arguments of reduce); len_anypos l = torch.any(l > 0.0);
    len_allzero l = torch.all(l == 0.0); mkdrift l n = Drift(l, name=n, device=l.device, dtype=l.dtype);
    from_merging_elements run b = CustomTransferMap.from_merging_elements(run, incoming_beam=b) INSIDE
    Segment.transfer_maps_merged (a total function there; the classmethod itself is translated separately and proved to be
    Merge.v's from_merging on non-empty skippable runs and to raise otherwise; MergeProofs.merged_blocks_ok shows that
    transfer_maps_merged calls it on such runs only); mkctm tm l n = cls(tm, length=l, device=.., dtype=.., name=n) for
    cls = CustomTransferMap; torch.eye(7, ..).repeat((*e.shape, 1, 1)) = one;
    unique_name = the string Segment.__init__ gets from generate_unique_name() when no name is given.
    Element.track only: ParameterBeam / ParticleBeam are the records of Beam/Moments.v in a sum type `beam`;
    matmul(tm, mu.unsqueeze(-1)).squeeze(-1) = mvec tm mu; matmul(A, B) = mmul A B; t.transpose(-2, -1) = transpose t;
    matmul(particles, tm.transpose(-2, -1)) = map (mvec tm) particles (row vectors times the transposed map);
    device=/dtype= keywords are bookkeeping.

CONSTRUCT TABLE.
  statements
    "docstring"                       nothing
    x = e                             let x' := e in ..   (fresh binder per assignment; a list may not get a second name)
    v.append(e)                       let v' := v ++ [e] in ..
    v += l                            let v' := v ++ l in ..
    v[-1].elements.append(e)          o <- last_item v ;; o' <- obj_elements_append o e ;; let v' := set_last v o' in ..
    if c: A else: B ; rest            if c then [A; rest] else [B; rest]      (continuation duplicated; elif = nested if)
    if p is None: A else: B ; rest    match p with None => [A; rest] | Some p' => [B; rest] end  (p an Optional parameter;
                                      in the Some branch p is p')
    for x in xs: body ; rest          st' <- loop (fun st x => let '(v1, .., vn) := st in [body; Ok (Next (v1', .., vn'))]) xs
                                      (v1, .., vn) ;; let '(v1, .., vn) := st' in rest      where v1..vn are the local
                                      variables (bound before the loop) that the body assigns or mutates;
                                      names first bound in the body are local to one iteration; `for .. else`, `return`
                                      inside a loop, a loop target that is already bound fail
    break                             Ok (Break (v1, .., vn))
    return e                          Ok e
    raise TypeError(..)               Raise   (Element.track's final else)
    assert c, "msg"                   if c then .. else Raise
    d = <device / dtype / shape>      no binding (bookkeeping), but the evaluation of the right-hand side is kept: it can
                                      raise (`elements[0].transfer_map(e).device`: IndexError, None has no .device)
    (`continue`, `while`, `try`, `with`, augmented assignments other than `list += list`, tuple targets, `del`: fail)
  expressions
    [] , [a, b]                       list literals;  "text" -> string;  True/False;  None (only as a return value of
                                      an Optional result: Segment.transfer_map)
    len(v) == k, > k, >= k, < k ..    Nat.eqb / Nat.ltb / Nat.leb on `length v` (k a literal natural number)
    v (as a condition), not v         nonempty v, negb (nonempty v)    (v a list)
    not c, c and d, c or d            negb, short-circuit: if d can raise, `c and d` is (if c then d else Ok false) etc.
    a == b, a != b  (strings)         String.eqb a b, negb ..
    a in l, a not in l (l strings)    existsb (String.eqb a) l, negb ..
    a if c else b                     if c then a else b
    v[-1], v[k]                       last_item v, item v k   (may raise)
    all(e for x in xs)                forallb (fun x => e) xs          (e must not raise)
    [e for x in xs if c]              filter/map, or filterM/mapM when c / e can raise; two `for` clauses: flat_map
    reduce(torch.add, l, torch.tensor(0.0))     fold_left ladd l lzero
    sum(e for x in xs)                fold_left ladd (map (fun x => e) xs) lzero   (Python's int 0 start value is lzero)
    "s" + t,  "sep".join(e for x in xs)         String.append, join_with "sep" (map (fun x => e) xs)
    cls(tm, length=l, device=d, dtype=t, name=n)    Leaf (mkctm tm l n)    (inside the classmethod of CustomTransferMap)
    Segment(es, name=n) / Segment(elements=es, name=n)   Seg n es ; without name (or name=None): Seg unique_name es
    super().track(b)                  Element_track app en (fun e => gen_Segment_transfer_map name elements e) b
                                      (class Segment must derive from Element only; Element.track itself is translated
                                      and tied to this form by the lemmas gen_Element_track_param / _part)
    isinstance(b, ParameterBeam) ..   match on the beam sum type (Element.track only)

NOT covered: float rounding and tensor shapes (the opaque operations), nn.Module / ModuleList machinery, the rest of
`__init__` (only checked: Segment.__init__(self, elements, name=None) starts with super().__init__(name=name) and stores
`self.elements = nn.ModuleList(elements)`, Element.__init__ stores `self.name = name if name is not None else
generate_unique_name()`, no other assignment to either; the attribute access by element name is not modelled), subclass overriding, which exception is raised, object identity beyond the Ref/New
distinction above, the leaf classes' own methods, plotting, converters.  Names used by the translated functions are
checked to be bound exactly once in their module and to come from the expected import; translated functions carry
no decorators (properties: exactly `@property`).
"""
import ast
import hashlib
import re
import sys
from pathlib import Path

from translate_maps import TranslateError, Module, COQ_KEYWORDS

SEG = "cheetah/accelerator/segment.py"
ELT = "cheetah/accelerator/element.py"
CTM = "cheetah/accelerator/custom_transfer_map.py"

# type language: "elem" "obj" "bool" "B" "M" "E" "Len" "Res" "str" "nat" "optM" "none" "meta" ; ["list", T] (T may be None)
#                ["opt", T] (an Optional parameter)
EXF = [("except_for", ["opt", ["list", "str"]])]
SPECS = [
    dict(file=SEG, cls="Segment", fn="is_skippable", prop=True, params=[], ret="bool"),
    dict(file=SEG, cls="Segment", fn="length", prop=True, params=[], ret="Len"),
    dict(file=SEG, cls="Segment", fn="transfer_map", params=[("energy", "E")], ret="optM"),
    dict(file=SEG, cls="Segment", fn="track", params=[("incoming", "B")], ret="B"),
    dict(file=SEG, cls="Segment", fn="subcell", params=[("start", "str"), ("end", "str")], ret="elem"),
    dict(file=SEG, cls="Segment", fn="flattened", params=[], ret="elem"),
    dict(file=SEG, cls="Segment", fn="transfer_maps_merged", params=[("incoming_beam", "B")] + EXF, ret="elem"),
    dict(file=SEG, cls="Segment", fn="without_inactive_markers", params=EXF, ret="elem"),
    dict(file=SEG, cls="Segment", fn="without_inactive_zero_length_elements", params=EXF, ret="elem"),
    dict(file=SEG, cls="Segment", fn="inactive_elements_as_drifts", params=EXF, ret="elem"),
    dict(file=SEG, cls="Segment", fn="split", params=[("resolution", "Res")], ret=["list", "elem"]),
    dict(file=SEG, cls="Segment", fn="clone", params=[], ret="elem"),
    dict(file=CTM, cls="CustomTransferMap", fn="from_merging_elements", classmethod=True,
         params=[("elements", ["list", "elem"]), ("incoming_beam", "B")], ret="elem"),
    dict(file=ELT, cls="Element", fn="track", params=[("incoming", "beam")], ret="beam", beam=True),
]

# where a global name used inside a translated function must come from: name -> {file: (kind, detail)}
ORIGINS = {
    "torch": ("import", "torch"),
    "reduce": ("from", "functools"),
    "Element": ("from", "cheetah.accelerator.element"),
    "Marker": ("from", "cheetah.accelerator.marker"),
    "Drift": ("from", "cheetah.accelerator.drift"),
    "CustomTransferMap": ("from", "cheetah.accelerator.custom_transfer_map"),
    "ParameterBeam": ("from", "cheetah.particles"),
    "ParticleBeam": ("from", "cheetah.particles"),
    "Segment": ("class", SEG),
}
BUILTINS = {"len", "all", "sum", "isinstance", "hasattr", "super", "TypeError", "type"}

RESERVED = set(COQ_KEYWORDS) | {
    "M", "B", "E", "L", "Len", "Res", "A", "one", "mul", "app", "en", "lzero", "ladd", "elem", "obj", "Ref", "New", "val", "Seg", "Leaf",
    "exc", "Ok", "Raise", "bind", "loop", "Next", "Break", "mapM", "filterM", "need", "item", "last_item", "set_last", "nonempty",
    "is_segment", "elements_of", "obj_elements_append", "Element_track", "d_skippable", "d_name", "d_length", "d_tmap", "d_track",
    "d_flattened", "d_split", "d_clone", "d_is_marker", "d_has_is_active", "d_is_active", "len_anypos", "len_allzero", "mkdrift",
    "from_merging_elements", "unique_name", "mkctm", "join_with", "append", "list", "option", "Some", "None", "bool", "true", "false", "negb", "andb", "orb", "string",
    "nat", "length", "map", "filter", "flat_map", "forallb", "existsb", "fold_left", "String", "Nat", "beam", "BParam", "BPart",
    "mvec", "mmul", "transpose", "mkPart", "mkParam", "parts", "pE", "charges", "surv", "pmu", "pcov", "qE", "qQ", "add", "zero",
    "V7", "M7", "st", "o", "c",
}

HEADER = '''(** GENERATED by harness/translate_seg.py from the source text of /repo -- do not edit.
    Object reading and construct table: see the docstring of harness/translate_seg.py and Gen/SegGenBase.v.
    The check regenerates this file on every run and compiles Gen/SegGenEquiv.v against the fresh copy. *)
From Coq Require Import List Bool String Arith.
From Cheetah Require Import Base.Mat Lattice.Track Beam.Moments Gen.SegGenBase.
Import ListNotations.
Open Scope exc_scope.
Open Scope string_scope.
Open Scope list_scope.

Section SegGen.
Variables (M B E L Len Res : Type).
Variable one : M.
Variable mul : M -> M -> M.
Variable app : M -> B -> B.
Variable en : B -> E.
Variable lzero : Len.
Variable ladd : Len -> Len -> Len.
Notation elem := (elem L).
Notation obj := (obj L).
(* dynamic dispatch on another element *)
Variable d_skippable : elem -> bool.
Variable d_name : elem -> string.
Variable d_length : elem -> Len.
Variable d_tmap : elem -> E -> option M.
Variable d_track : elem -> B -> B.
Variable d_flattened : elem -> exc elem.
Variable d_split : elem -> Res -> list elem.
Variable d_clone : elem -> elem.
Variable d_is_marker : elem -> bool.
Variable d_has_is_active : elem -> bool.
Variable d_is_active : elem -> exc bool.
(* opaque operations *)
Variables len_anypos len_allzero : Len -> bool.
Variable mkdrift : Len -> string -> L.
Variable from_merging_elements : list elem -> B -> elem.
Variable mkctm : M -> Len -> string -> L.
Variable unique_name : string.

'''
BEAM_HEADER = '''End SegGen.

Section ElementGen.
Variable A : Type.
Variables (add amul : A -> A -> A).
Inductive beam : Type := BParam (b : ParamBeam A) | BPart (b : PartBeam A).

'''
FOOTER = "End ElementGen.\nArguments BParam {A} b.\nArguments BPart {A} b.\n"


def tstr(t):
    if isinstance(t, list):
        return f"{t[0]}[{tstr(t[1]) if t[1] is not None else '?'}]"
    return str(t)


def coq_ty(t):
    if isinstance(t, list):
        if t[0] == "list":
            return f"(list {coq_ty(t[1])})"
        if t[0] == "opt":
            return f"(option {coq_ty(t[1])})"
    return {"str": "string", "optM": "(option M)", "beam": "beam", "tm7": "(M7 A)"}.get(t, t)


def same(t1, t2):
    """unify two types (fills in unknown list element types in place); returns success"""
    if isinstance(t1, list) and isinstance(t2, list):
        if t1[0] != t2[0]:
            return False
        if t1[1] is None:
            t1[1] = t2[1]
            return True
        if t2[1] is None:
            t2[1] = t1[1]
            return True
        return same(t1[1], t2[1])
    return t1 == t2


class Val:
    def __init__(self, t, ty, fresh=False):
        self.t, self.ty, self.fresh = t, ty, fresh      # fresh: a constructor call written right here (New when appended to an obj list)


def coq_string(s):
    if not all(32 <= ord(c) < 127 for c in s):
        raise ValueError("non-ASCII string literal")
    return '"' + s.replace('"', '""') + '"'


class Fn:
    def __init__(self, tr, spec, mod):
        self.tr, self.spec, self.mod = tr, spec, mod
        self.used = set()
        self.objlists = set()

    def fail(self, node, reason):
        self.mod.fail(node, reason)

    def fresh(self, py):
        base = py if re.match(r"^[A-Za-z_][A-Za-z0-9_]*$", py) and py != "_" else "v_"
        if base in RESERVED or base.startswith("gen_"):
            base += "_"
        name, k = base, 0
        while name in self.used:
            k += 1
            name = f"{base}_{k}"
        self.used.add(name)
        return name

    def origin(self, name, node):
        b = self.mod.bind.get(name, [])
        if len(b) != 1:
            self.fail(node, f"global name {name!r} is bound {len(b)} times at module level (expected exactly once)")
        kind, detail, _ = b[0]
        want = ORIGINS.get(name)
        if want is None or (kind, detail) != want:
            self.fail(node, f"global name {name!r} has an unexpected origin ({kind} {detail})")

    def glob(self, node, env):
        """the name of a module-level object used in a call / isinstance, checked for its origin"""
        if isinstance(node, ast.Name) and node.id not in env:
            if node.id in BUILTINS:
                if node.id in self.mod.bind:
                    self.fail(node, f"builtin {node.id!r} is shadowed at module level")
                return node.id
            if node.id in ORIGINS:
                self.origin(node.id, node)
                return node.id
        return None

    # ------------------------------------------------------------------ monadic plumbing
    def mbind(self, pre, mtext, ty, hint="t"):
        nm = self.fresh(hint)
        pre.append((nm, mtext))
        return Val(nm, ty)

    @staticmethod
    def wrap(pre, body):
        for nm, m in reversed(pre):
            body = f"({nm} <- {m} ;;\n  {body})"
        return body

    # ------------------------------------------------------------------ expressions
    def ev(self, n, env, pre):
        m = getattr(self, "e_" + type(n).__name__, None)
        if m is None:
            self.fail(n, f"unsupported expression syntax {type(n).__name__}")
        return m(n, env, pre)

    def want(self, v, ty, node, what):
        if not same(v.ty, ty):
            self.fail(node, f"{what}: expected {tstr(ty)}, found {tstr(v.ty)}")
        return v.t

    def as_elem(self, v, node, what):
        if v.ty == "obj":
            return f"(val {v.t})"
        if v.ty == "elem":
            return v.t
        self.fail(node, f"{what}: not an element ({tstr(v.ty)})")

    def truth(self, v, node):
        if v.ty == "bool":
            return v.t
        if isinstance(v.ty, list) and v.ty[0] == "list":
            return f"(nonempty {v.t})"
        self.fail(node, f"truth value of a {tstr(v.ty)} value")

    def e_Constant(self, n, env, pre):
        if isinstance(n.value, str):
            try:
                return Val(coq_string(n.value), "str")
            except ValueError as ex:
                self.fail(n, str(ex))
        if n.value is True or n.value is False:
            return Val("true" if n.value else "false", "bool")
        if n.value is None:
            return Val("None", "none")
        self.fail(n, f"unsupported constant {n.value!r}")

    def e_Name(self, n, env, pre):
        if n.id in env and n.id != "self":
            return env[n.id]
        self.fail(n, f"unknown name {n.id!r}")

    def e_List(self, n, env, pre):
        if not n.elts:
            return Val("[]", ["list", None])
        vs = [self.ev(e, env, pre) for e in n.elts]
        for v in vs[1:]:
            if not same(vs[0].ty, v.ty):
                self.fail(n, "list literal of mixed types")
        return Val("[" + "; ".join(v.t for v in vs) + "]", ["list", vs[0].ty])

    def is_self(self, n, env):
        return isinstance(n, ast.Name) and n.id == "self" and "self" in env

    def e_Attribute(self, n, env, pre):
        a = n.attr
        if self.is_self(n.value, env):
            if self.spec.get("beam"):
                self.fail(n, f"self.{a} in Element.track (only the call self.transfer_map(..) is understood)")
            if a in ("elements", "name"):
                if a in self.class_bind:
                    self.fail(n, f"self.{a} is read as the constructor argument but the class body binds {a!r}")
                return env["self"][a]
            callee = self.tr.lookup("Segment", a)
            if callee is not None and callee["spec"].get("prop"):
                return self.call_self(callee, [], n, env, pre)
            self.fail(n, f"self.{a} is neither elements/name nor a translated property of Segment")
        v = self.ev(n.value, env, pre)
        if v.ty in ("elem", "obj"):
            x = self.as_elem(v, n, "attribute")
            if a == "is_skippable":
                return Val(f"(d_skippable {x})", "bool")
            if a == "name":
                return Val(f"(d_name {x})", "str")
            if a == "length":
                return Val(f"(d_length {x})", "Len")
            if a == "elements":
                return self.mbind(pre, f"elements_of {x}", ["list", "elem"], "es")
            if a == "is_active":
                return self.mbind(pre, f"d_is_active {x}", "bool", "act")
            self.fail(n, f"attribute .{a} of an element is outside the translated fragment")
        if v.ty == "B" and a == "energy":
            return Val(f"(en {v.t})", "E")
        if v.ty in ("Len", "E", "M") and a in ("device", "dtype", "shape"):
            return Val("tt", "meta")
        if v.ty == "optM" and a in ("device", "dtype", "shape"):      # None has no such attribute
            self.mbind(pre, f"need {v.t}", "M", "tm")
            return Val("tt", "meta")
        if v.ty in ("pbeam", "qbeam"):
            return self.beam_attr(v, a, n)
        if v.ty in ("vec7", "mat7", "plist") and a in ("device", "dtype"):
            return Val("tt", "meta")
        self.fail(n, f"attribute .{a} of a {tstr(v.ty)} value is outside the translated fragment")

    def beam_attr(self, v, a, n):
        table = {"qbeam": {"energy": ("qE", "A"), "_mu": ("pmu", "vec7"), "_cov": ("pcov", "mat7"), "total_charge": ("qQ", "A")},
                 "pbeam": {"energy": ("pE", "A"), "particles": ("parts", "plist"), "particle_charges": ("charges", "alist"),
                           "survival_probabilities": ("surv", "alist")}}[v.ty]
        if a not in table:
            self.fail(n, f"attribute .{a} of a {'ParameterBeam' if v.ty == 'qbeam' else 'ParticleBeam'} is outside the translated fragment")
        f, ty = table[a]
        return Val(f"({f} {v.t})", ty)

    def e_UnaryOp(self, n, env, pre):
        if isinstance(n.op, ast.Not):
            return Val(f"(negb {self.truth(self.ev(n.operand, env, pre), n)})", "bool")
        self.fail(n, f"unsupported unary operator {type(n.op).__name__}")

    def e_BinOp(self, n, env, pre):
        if not isinstance(n.op, ast.Add):
            self.fail(n, f"unsupported binary operator {type(n.op).__name__}")
        a, b = self.ev(n.left, env, pre), self.ev(n.right, env, pre)
        if a.ty != "str" or b.ty != "str":
            self.fail(n, f"+ is understood on strings only, not on {tstr(a.ty)} / {tstr(b.ty)}")
        return Val(f"(String.append {a.t} {b.t})", "str")

    def e_BoolOp(self, n, env, pre):
        is_and = isinstance(n.op, ast.And)
        acc = self.truth(self.ev(n.values[0], env, pre), n.values[0])
        for operand in n.values[1:]:
            sub = []
            b = self.truth(self.ev(operand, env, sub), operand)
            if not sub:
                acc = f"({acc} && {b})" if is_and else f"({acc} || {b})"
            else:
                inner = self.wrap(sub, f"Ok {b}")
                m = f"(if {acc} then {inner} else Ok false)" if is_and else f"(if {acc} then Ok true else {inner})"
                acc = self.mbind(pre, m, "bool", "c").t
        return Val(acc, "bool")

    def e_IfExp(self, n, env, pre):
        c = self.truth(self.ev(n.test, env, pre), n.test)
        sa, sb = [], []
        a, b = self.ev(n.body, env, sa), self.ev(n.orelse, env, sb)
        if not same(a.ty, b.ty):
            self.fail(n, f"conditional expression with branches of types {tstr(a.ty)} / {tstr(b.ty)}")
        if not sa and not sb:
            return Val(f"(if {c} then {a.t} else {b.t})", a.ty)
        m = f"(if {c} then {self.wrap(sa, 'Ok ' + a.t)} else {self.wrap(sb, 'Ok ' + b.t)})"
        return self.mbind(pre, m, a.ty, "t")

    def nat_literal(self, n):
        if isinstance(n, ast.Constant) and isinstance(n.value, int) and not isinstance(n.value, bool) and 0 <= n.value <= 1000:
            return n.value
        return None

    def e_Compare(self, n, env, pre):
        if len(n.ops) != 1:
            self.fail(n, "chained comparison")
        op, rhs = n.ops[0], n.comparators[0]
        if isinstance(op, (ast.Is, ast.IsNot)):
            self.fail(n, "`is [not] None` is understood only as the whole test of an if statement on an Optional parameter")
        a = self.ev(n.left, env, pre)
        if a.ty == "nat":
            k = self.nat_literal(rhs)
            if k is None:
                self.fail(n, "a length can only be compared with a literal natural number")
            t = {ast.Eq: f"(Nat.eqb {a.t} {k})", ast.NotEq: f"(negb (Nat.eqb {a.t} {k}))", ast.Gt: f"(Nat.ltb {k} {a.t})",
                 ast.GtE: f"(Nat.leb {k} {a.t})", ast.Lt: f"(Nat.ltb {a.t} {k})", ast.LtE: f"(Nat.leb {a.t} {k})"}.get(type(op))
            if t is None:
                self.fail(n, f"unsupported comparison {type(op).__name__} on a length")
            return Val(t, "bool")
        b = self.ev(rhs, env, pre)
        if isinstance(op, (ast.Eq, ast.NotEq)):
            if a.ty != "str" or b.ty != "str":
                self.fail(n, f"== / != is understood on strings (and on len(..)) only, not on {tstr(a.ty)} / {tstr(b.ty)}")
            t = f"(String.eqb {a.t} {b.t})"
            return Val(t if isinstance(op, ast.Eq) else f"(negb {t})", "bool")
        if isinstance(op, (ast.In, ast.NotIn)):
            if a.ty != "str" or not same(b.ty, ["list", "str"]):
                self.fail(n, f"`in` is understood for a string in a list of strings only, not {tstr(a.ty)} in {tstr(b.ty)}")
            t = f"(existsb (String.eqb {a.t}) {b.t})"
            return Val(t if isinstance(op, ast.In) else f"(negb {t})", "bool")
        self.fail(n, f"unsupported comparison {type(op).__name__}")

    def e_Subscript(self, n, env, pre):
        v = self.ev(n.value, env, pre)
        if not (isinstance(v.ty, list) and v.ty[0] == "list" and v.ty[1] is not None):
            self.fail(n, f"subscript of a {tstr(v.ty)} value")
        s = n.slice
        if isinstance(s, ast.UnaryOp) and isinstance(s.op, ast.USub) and self.nat_literal(s.operand) == 1:
            return self.mbind(pre, f"last_item {v.t}", v.ty[1], "o")
        k = self.nat_literal(s)
        if k is not None:
            return self.mbind(pre, f"item {v.t} {k}", v.ty[1], "o")
        self.fail(n, "unsupported subscript (only [-1] and [k] with a literal k)")

    # comprehensions ------------------------------------------------------------------------------------------
    def comp_source(self, g, env, pre):
        if g.is_async or not isinstance(g.target, ast.Name):
            self.fail(g.target, "unsupported comprehension target")
        if g.target.id in env or g.target.id == "self":
            self.fail(g.target, f"comprehension variable {g.target.id!r} shadows a bound name")
        xs = self.ev(g.iter, env, pre)
        if not (isinstance(xs.ty, list) and xs.ty[0] == "list" and xs.ty[1] is not None):
            self.fail(g.iter, f"comprehension over a {tstr(xs.ty)} value")
        x = self.fresh(g.target.id)
        env2 = dict(env)
        env2[g.target.id] = Val(x, xs.ty[1])
        return xs, x, env2

    def e_ListComp(self, n, env, pre):
        gens = n.generators
        if len(gens) == 2:
            # [e for x in xs for y in f(x)] -> flat_map (fun x => map (fun y => e) f(x)) xs ; everything must be pure
            xs, x, env1 = self.comp_source(gens[0], env, pre)
            sub = []
            ys, y, env2 = self.comp_source(gens[1], env1, sub)
            e = self.ev(n.elt, env2, sub)
            if sub or gens[0].ifs or gens[1].ifs:
                self.fail(n, "nested comprehension with conditions or with parts that can raise")
            inner = ys.t if e.t == y else f"(map (fun {y} => {e.t}) {ys.t})"
            return Val(f"(flat_map (fun {x} => {inner}) {xs.t})", ["list", e.ty])
        if len(gens) != 1:
            self.fail(n, "comprehension with more than two `for` clauses")
        xs, x, env1 = self.comp_source(gens[0], env, pre)
        cur = Val(xs.t, xs.ty)
        if gens[0].ifs:
            sub, cs = [], []
            for c in gens[0].ifs:
                cs.append(self.truth(self.ev(c, env1, sub), c))
            cond = cs[0]
            for c in cs[1:]:
                if sub:
                    self.fail(n, "several `if` clauses of which one can raise")
                cond = f"({cond} && {c})"
            if sub:
                cur = self.mbind(pre, f"filterM (fun {x} => {self.wrap(sub, 'Ok ' + cond)}) {cur.t}", xs.ty, "kept")
            else:
                cur = Val(f"(filter (fun {x} => {cond}) {cur.t})", xs.ty)
        sub = []
        e = self.ev(n.elt, env1, sub)
        if not sub and e.t == x:
            return cur
        if sub:
            return self.mbind(pre, f"mapM (fun {x} => {self.wrap(sub, 'Ok ' + e.t)}) {cur.t}", ["list", e.ty], "mapped")
        return Val(f"(map (fun {x} => {e.t}) {cur.t})", ["list", e.ty])

    # calls ---------------------------------------------------------------------------------------------------
    def kwargs(self, n, node_env_pre, allowed):
        env, pre = node_env_pre
        out = {}
        for kw in n.keywords:
            if kw.arg is None or kw.arg not in allowed or kw.arg in out:
                self.fail(n, f"unexpected keyword {kw.arg!r}")
            out[kw.arg] = kw.value
        return out

    def meta(self, node, env, pre, what):
        v = self.ev(node, env, pre)
        if v.ty != "meta":
            self.fail(node, f"{what} is not a device/dtype bookkeeping value")

    def tensor_arg(self, v, node, pre):
        """operand of matmul: M, or an Optional tensor (None raises)"""
        if v.ty == "M":
            return v.t
        if v.ty == "optM":
            return self.mbind(pre, f"need {v.t}", "M", "tm").t
        self.fail(node, f"operand of torch.matmul is a {tstr(v.ty)} value")

    def zero_literal(self, n):
        return isinstance(n, ast.Constant) and isinstance(n.value, (int, float)) and not isinstance(n.value, bool) and n.value == 0

    def e_Call(self, n, env, pre):
        f = n.func
        if any(isinstance(a, ast.Starred) for a in n.args) or any(k.arg is None for k in n.keywords):
            self.fail(n, "starred / ** arguments")
        g = self.glob(f, env)
        if g == "len":
            if len(n.args) != 1 or n.keywords:
                self.fail(n, "len takes one argument")
            v = self.ev(n.args[0], env, pre)
            if not (isinstance(v.ty, list) and v.ty[0] == "list"):
                self.fail(n, f"len of a {tstr(v.ty)} value")
            return Val(f"(List.length {v.t})", "nat")
        if g == "all":
            if len(n.args) != 1 or n.keywords or not isinstance(n.args[0], ast.GeneratorExp):
                self.fail(n, "all(..) is understood on a generator expression only")
            ge = n.args[0]
            if len(ge.generators) != 1 or ge.generators[0].ifs:
                self.fail(n, "all(..): one `for` clause without conditions expected")
            xs, x, env1 = self.comp_source(ge.generators[0], env, pre)
            sub = []
            c = self.truth(self.ev(ge.elt, env1, sub), ge.elt)
            if sub:
                self.fail(n, "all(..) over an expression that can raise")
            return Val(f"(forallb (fun {x} => {c}) {xs.t})", "bool")
        if g == "sum":
            if len(n.args) != 1 or n.keywords or not isinstance(n.args[0], ast.GeneratorExp):
                self.fail(n, "sum(..) is understood on a generator expression only")
            lv = self.e_ListComp(n.args[0], env, pre)
            self.want(lv, ["list", "Len"], n, "summands")
            return Val(f"(fold_left ladd {lv.t} lzero)", "Len")
        if isinstance(f, ast.Name) and f.id == "cls" and self.spec.get("classmethod") and "cls" not in env:
            kw = self.kwargs(n, (env, pre), ("length", "name", "device", "dtype"))
            if len(n.args) != 1 or set(kw) != {"length", "name", "device", "dtype"}:
                self.fail(n, "cls(..): expected cls(tm, length=.., device=.., dtype=.., name=..)")
            tm = self.want(self.ev(n.args[0], env, pre), "M", n.args[0], "transfer map of the new CustomTransferMap")
            ln = self.want(self.ev(kw["length"], env, pre), "Len", kw["length"], "length of the new CustomTransferMap")
            nm = self.want(self.ev(kw["name"], env, pre), "str", kw["name"], "name of the new CustomTransferMap")
            for k in ("device", "dtype"):
                self.meta(kw[k], env, pre, f"keyword {k}")
            return Val(f"(Leaf (mkctm {tm} {ln} {nm}))", "elem", fresh=True)
        if (isinstance(f, ast.Attribute) and f.attr == "join" and isinstance(f.value, ast.Constant) and isinstance(f.value.value, str)
                and len(n.args) == 1 and not n.keywords and isinstance(n.args[0], ast.GeneratorExp)):
            lv = self.e_ListComp(n.args[0], env, pre)
            self.want(lv, ["list", "str"], n, "joined strings")
            return Val(f"(join_with {coq_string(f.value.value)} {lv.t})", "str")
        if g == "isinstance":
            if len(n.args) != 2 or n.keywords:
                self.fail(n, "isinstance takes two arguments")
            v = self.ev(n.args[0], env, pre)
            cls = self.glob(n.args[1], env)
            if v.ty in ("elem", "obj") and cls == "Segment":
                return Val(f"(is_segment {self.as_elem(v, n, 'isinstance')})", "bool")
            if v.ty in ("elem", "obj") and cls == "Marker":
                return Val(f"(d_is_marker {self.as_elem(v, n, 'isinstance')})", "bool")
            self.fail(n, "isinstance: only (element, Segment) and (element, Marker) are understood here")
        if g == "hasattr":
            if len(n.args) != 2 or n.keywords or not (isinstance(n.args[1], ast.Constant) and n.args[1].value == "is_active"):
                self.fail(n, 'hasattr: only hasattr(element, "is_active") is understood')
            v = self.ev(n.args[0], env, pre)
            return Val(f"(d_has_is_active {self.as_elem(v, n, 'hasattr')})", "bool")
        if g == "reduce":
            if len(n.args) != 3 or n.keywords:
                self.fail(n, "reduce takes three arguments here")
            op, l, z = n.args
            if not (isinstance(op, ast.Attribute) and op.attr == "add" and self.glob(op.value, env) == "torch"):
                self.fail(n, "reduce: only torch.add is understood")
            if not (isinstance(z, ast.Call) and isinstance(z.func, ast.Attribute) and z.func.attr == "tensor" and self.glob(z.func.value, env) == "torch"
                    and len(z.args) == 1 and not z.keywords and self.zero_literal(z.args[0])):
                self.fail(n, "reduce: the initial value must be torch.tensor(0.0)")
            lv = self.ev(l, env, pre)
            self.want(lv, ["list", "Len"], l, "second argument of reduce")
            return Val(f"(fold_left ladd {lv.t} lzero)", "Len")
        if g == "Segment" or (isinstance(f, ast.Attribute) and f.attr == "__class__" and self.is_self(f.value, env)):
            return self.construct_segment(n, env, pre)
        if g == "Drift":
            kw = self.kwargs(n, (env, pre), ("name", "device", "dtype"))
            if len(n.args) != 1 or set(kw) != {"name", "device", "dtype"}:
                self.fail(n, "Drift(..): expected Drift(length, name=.., device=.., dtype=..)")
            ln = self.want(self.ev(n.args[0], env, pre), "Len", n.args[0], "length of Drift")
            nm = self.want(self.ev(kw["name"], env, pre), "str", kw["name"], "name of Drift")
            for k in ("device", "dtype"):
                if ast.dump(kw[k]) != ast.dump(ast.Attribute(value=n.args[0], attr=k, ctx=ast.Load())):
                    self.fail(kw[k], f"Drift(..): {k} must be that of the length argument")
            return Val(f"(Leaf (mkdrift {ln} {nm}))", "elem", fresh=True)
        if isinstance(f, ast.Attribute):
            # torch.*
            if self.glob(f.value, env) == "torch":
                return self.torch_call(f.attr, n, env, pre)
            if self.glob(f.value, env) == "CustomTransferMap":
                if f.attr != "from_merging_elements":
                    self.fail(n, f"CustomTransferMap.{f.attr} is outside the translated fragment")
                kw = self.kwargs(n, (env, pre), ("elements", "incoming_beam"))
                args = dict(zip(("elements", "incoming_beam"), n.args))
                if set(args) & set(kw) or len(n.args) > 2:
                    self.fail(n, "duplicate argument")
                args.update(kw)
                if set(args) != {"elements", "incoming_beam"}:
                    self.fail(n, "from_merging_elements needs elements and incoming_beam")
                es = self.want(self.ev(args["elements"], env, pre), ["list", "elem"], n, "elements")
                b = self.want(self.ev(args["incoming_beam"], env, pre), "B", n, "incoming_beam")
                return Val(f"(from_merging_elements {es} {b})", "elem", fresh=True)
            # super().track(b)
            if (isinstance(f.value, ast.Call) and self.glob(f.value.func, env) == "super" and not f.value.args and not f.value.keywords):
                if f.attr != "track" or self.spec["cls"] != "Segment" or self.spec["fn"] != "track":
                    self.fail(n, "super().<method>: only super().track(..) inside Segment.track is understood")
                if len(n.args) != 1 or n.keywords:
                    self.fail(n, "super().track takes one argument")
                b = self.want(self.ev(n.args[0], env, pre), "B", n.args[0], "argument of super().track")
                callee = self.tr.lookup("Segment", "transfer_map")
                if callee is None:
                    self.fail(n, "Segment.transfer_map is not translated")
                s = env["self"]
                e = self.fresh("energy")
                return self.mbind(pre, f"Element_track app en (fun {e} => {callee['coq']} {s['name'].t} {s['elements'].t} {e}) {b}", "B", "out")
            # self.method(..)
            if self.is_self(f.value, env):
                if self.spec.get("beam"):
                    return self.beam_self_call(n, env, pre)
                callee = self.tr.lookup("Segment", f.attr)
                if callee is None or callee["spec"].get("prop"):
                    self.fail(n, f"call of self.{f.attr}, which is not a translated method")
                return self.call_self(callee, n.args, n, env, pre, n.keywords)
            # x.method(..)
            v = self.ev(f.value, env, pre)
            if v.ty in ("elem", "obj"):
                x = self.as_elem(v, n, "method call")
                if n.keywords:
                    self.fail(n, "keyword arguments in a dispatched method call")
                args = [self.ev(a, env, pre) for a in n.args]
                sig = {"track": (["B"], "B", "d_track", False), "transfer_map": (["E"], "optM", "d_tmap", False),
                       "flattened": ([], "elem", "d_flattened", True), "split": (["Res"], ["list", "elem"], "d_split", False),
                       "clone": ([], "elem", "d_clone", False)}.get(f.attr)
                if sig is None:
                    self.fail(n, f"method .{f.attr}(..) of an element is outside the translated fragment")
                if len(args) != len(sig[0]):
                    self.fail(n, f".{f.attr}: {len(sig[0])} argument(s) expected")
                ts = [self.want(a, t, n, f"argument of .{f.attr}") for a, t in zip(args, sig[0])]
                term = " ".join([sig[2], x] + ts)
                if sig[3]:
                    return self.mbind(pre, term, sig[1], "r")
                return Val(f"({term})", sig[1])
            if self.spec.get("beam"):
                return self.beam_method(v, f.attr, n, env, pre)
            if v.ty == "M" and v.t == "one" and f.attr == "repeat" and not n.keywords and len(n.args) == 1 and isinstance(n.args[0], ast.Tuple):
                # torch.eye(7, ..).repeat((*shape, 1, 1)): the identity for every sample of the batch
                el = n.args[0].elts
                if (len(el) == 3 and isinstance(el[0], ast.Starred) and self.ev(el[0].value, env, pre).ty == "meta"
                        and all(self.nat_literal(x) == 1 for x in el[1:])):
                    return Val("one", "M")
                self.fail(n, "torch.eye(7).repeat(..): only ((*shape, 1, 1)) is understood")
            self.fail(n, f"method .{f.attr}(..) of a {tstr(v.ty)} value is outside the translated fragment")
        if g in ("ParameterBeam", "ParticleBeam") and self.spec.get("beam"):
            return self.beam_construct(g, n, env, pre)
        self.fail(n, "unsupported call")

    def construct_segment(self, n, env, pre):
        init = self.tr.segment_init
        kw = self.kwargs(n, (env, pre), init)
        if len(n.args) > len(init):
            self.fail(n, "too many arguments of Segment(..)")
        args = dict(zip(init, n.args))
        if set(args) & set(kw):
            self.fail(n, "duplicate argument of Segment(..)")
        args.update(kw)
        if "elements" not in args:
            self.fail(n, "Segment(..) without elements")
        es = self.want(self.ev(args["elements"], env, pre), ["list", "elem"], args["elements"], "elements of Segment(..)")
        if "name" in args and not (isinstance(args["name"], ast.Constant) and args["name"].value is None):
            nm = self.want(self.ev(args["name"], env, pre), "str", args["name"], "name of Segment(..)")
        else:
            nm = "unique_name"
        return Val(f"(Seg {nm} {es})", "elem", fresh=True)

    def call_self(self, callee, args, n, env, pre, keywords=()):
        cs = callee["spec"]
        names = [p for p, _ in cs["params"]]
        given = dict(zip(names, args))
        if len(args) > len(names):
            self.fail(n, "too many arguments")
        for k in keywords:
            if k.arg not in names or k.arg in given:
                self.fail(n, f"unexpected or duplicate keyword {k.arg!r}")
            given[k.arg] = k.value
        out = []
        for p, ty in cs["params"]:
            if p not in given:
                if isinstance(ty, list) and ty[0] == "opt":
                    out.append("None")
                    continue
                self.fail(n, f"missing argument {p!r}")
            v = self.ev(given[p], env, pre)
            if isinstance(ty, list) and ty[0] == "opt":
                out.append(v.t if same(v.ty, ty) else f"(Some {self.want(v, ty[1], n, 'argument ' + p)})")
            else:
                out.append(self.want(v, ty, n, "argument " + p))
        s = env["self"]
        if len(self.class_bind.get(cs["fn"], [])) != 1:
            self.fail(n, f"self.{cs['fn']} is not bound exactly once in the class body")
        term = " ".join([callee["coq"], s["name"].t, s["elements"].t] + out)
        return self.mbind(pre, term, cs["ret"], "r")

    def torch_call(self, name, n, env, pre):
        if name == "eye":
            kw = self.kwargs(n, (env, pre), ("device", "dtype"))
            if len(n.args) != 1 or self.nat_literal(n.args[0]) != 7 or set(kw) != {"device", "dtype"}:
                self.fail(n, "torch.eye: only eye(7, device=.., dtype=..) is understood")
            for k in kw.values():
                self.meta(k, env, pre, "keyword of torch.eye")
            return Val("one", "M")
        if name == "matmul":
            if len(n.args) != 2 or n.keywords:
                self.fail(n, "torch.matmul takes two arguments")
            if self.spec.get("beam"):
                return self.beam_matmul(n, env, pre)
            a = self.tensor_arg(self.ev(n.args[0], env, pre), n.args[0], pre)
            b = self.tensor_arg(self.ev(n.args[1], env, pre), n.args[1], pre)
            return Val(f"(mul {a} {b})", "M")
        if name in ("any", "all"):
            if len(n.args) != 1 or n.keywords or not (isinstance(n.args[0], ast.Compare) and len(n.args[0].ops) == 1):
                self.fail(n, f"torch.{name}: only a comparison of a length with 0.0 is understood")
            c = n.args[0]
            v = self.ev(c.left, env, pre)
            if v.ty != "Len" or not self.zero_literal(c.comparators[0]):
                self.fail(n, f"torch.{name}: only a comparison of a length with 0.0 is understood")
            if name == "any" and isinstance(c.ops[0], ast.Gt):
                return Val(f"(len_anypos {v.t})", "bool")
            if name == "all" and isinstance(c.ops[0], ast.Eq):
                return Val(f"(len_allzero {v.t})", "bool")
            self.fail(n, f"torch.{name}({type(c.ops[0]).__name__} 0.0) is not one of torch.any(l > 0.0), torch.all(l == 0.0)")
        self.fail(n, f"torch.{name} is outside the translated fragment")

    # ------------------------------------------------------------------ Element.track (concrete beams)
    def beam_self_call(self, n, env, pre):
        f = n.func
        if f.attr != "transfer_map" or len(n.args) != 1 or n.keywords:
            self.fail(n, "Element.track: only self.transfer_map(energy) is understood")
        e = self.want(self.ev(n.args[0], env, pre), "A", n.args[0], "argument of self.transfer_map")
        o = self.mbind(pre, f"self_transfer_map {e}", "opt7", "o")
        return self.mbind(pre, f"need {o.t}", "mat7", "tm")

    def beam_method(self, v, attr, n, env, pre):
        def ints(args):
            out = []
            for a in args:
                if isinstance(a, ast.UnaryOp) and isinstance(a.op, ast.USub) and self.nat_literal(a.operand) is not None:
                    out.append(-a.operand.value)
                elif self.nat_literal(a) is not None:
                    out.append(a.value)
                else:
                    return None
            return out
        if n.keywords:
            self.fail(n, f"keywords of .{attr}")
        k = ints(n.args)
        if attr == "transpose" and v.ty == "mat7" and k in ([-2, -1], [-1, -2]):
            return Val(f"(transpose {v.t})", "mat7")
        if attr == "unsqueeze" and v.ty == "vec7" and k == [-1]:
            return Val(v.t, "col7")
        if attr == "squeeze" and v.ty == "col7" and k == [-1]:
            return Val(v.t, "vec7")
        self.fail(n, f"method .{attr}(..) of a {tstr(v.ty)} value is outside the translated fragment")

    def beam_matmul(self, n, env, pre):
        a, b = self.ev(n.args[0], env, pre), self.ev(n.args[1], env, pre)
        if a.ty == "mat7" and b.ty == "mat7":
            return Val(f"(mmul add amul {a.t} {b.t})", "mat7")
        if a.ty == "mat7" and b.ty == "col7":
            return Val(f"(mvec add amul {a.t} {b.t})", "col7")
        tr = re.match(r"^\(transpose (.*)\)$", b.t)
        if a.ty == "plist" and b.ty == "mat7" and tr:
            return Val(f"(map (mvec add amul {tr.group(1)}) {a.t})", "plist")
        self.fail(n, f"torch.matmul of {tstr(a.ty)} and {tstr(b.ty)} values is outside the reading of Element.track")

    def beam_construct(self, cls, n, env, pre):
        if cls == "ParameterBeam":
            names, kws = ("mu", "cov", "energy"), ("total_charge", "device", "dtype")
            types = {"mu": "vec7", "cov": "mat7", "energy": "A", "total_charge": "A"}
            order, con, ty = ("mu", "cov", "energy", "total_charge"), "mkParam", "qbeam"
        else:
            names, kws = ("particles", "energy"), ("particle_charges", "survival_probabilities", "device", "dtype")
            types = {"particles": "plist", "energy": "A", "particle_charges": "alist", "survival_probabilities": "alist"}
            order, con, ty = ("particles", "energy", "particle_charges", "survival_probabilities"), "mkPart", "pbeam"
        kw = self.kwargs(n, (env, pre), names + kws)
        if len(n.args) > len(names):
            self.fail(n, f"too many positional arguments of {cls}")
        args = dict(zip(names, n.args))
        if set(args) & set(kw):
            self.fail(n, "duplicate argument")
        args.update(kw)
        if set(args) != set(names + kws):
            self.fail(n, f"{cls}(..): expected exactly the arguments {names + kws}")
        vals = {k: self.want(self.ev(args[k], env, pre), types[k], args[k], f"argument {k} of {cls}") for k in order}
        for k in ("device", "dtype"):
            self.meta(args[k], env, pre, f"keyword {k} of {cls}")
        return Val(f"({con} " + " ".join(vals[k] for k in order) + ")", ty, fresh=True)

    # ------------------------------------------------------------------ statements
    def assigned(self, stmts):
        """local names a statement list assigns or mutates"""
        out = []

        def add(x):
            if x not in out:
                out.append(x)
        def visit(nd):          # depth first, in source order (the order of the loop-state tuple follows it)
            if isinstance(nd, (ast.Assign, ast.AugAssign, ast.AnnAssign)):
                for t in (nd.targets if isinstance(nd, ast.Assign) else [nd.target]):
                    for x in ast.walk(t):
                        if isinstance(x, ast.Name):
                            add(x.id)
            elif isinstance(nd, ast.Call) and isinstance(nd.func, ast.Attribute) and nd.func.attr in ("append", "extend", "insert", "pop", "clear", "remove", "sort", "reverse"):
                base = nd.func.value
                while isinstance(base, (ast.Attribute, ast.Subscript)):
                    base = base.value
                if isinstance(base, ast.Name):
                    add(base.id)
            elif isinstance(nd, (ast.For, ast.comprehension)) and isinstance(nd.target, ast.Name):
                add(nd.target.id)
            elif isinstance(nd, (ast.NamedExpr, ast.Delete, ast.With, ast.Try, ast.Global, ast.Nonlocal)):
                self.fail(nd, f"unsupported syntax {type(nd).__name__}")
            for ch in ast.iter_child_nodes(nd):
                visit(ch)
        for st in stmts:
            visit(st)
        return out

    def tuple_of(self, names):
        return names[0] if len(names) == 1 else "(" + ", ".join(names) + ")"

    def rebind(self, env, py, v):
        """let-bind a pure value to a fresh binder for the Python name `py`"""
        env = dict(env)
        nm = self.fresh(py)
        env[py] = Val(nm, v.ty)
        t = v.t
        if t == "[]" and isinstance(v.ty, list) and v.ty[1] is not None:
            t = f"(@nil {coq_ty(v.ty[1])})"
        return f"let {nm} := {t} in\n  ", env

    def local_list(self, name, env, node):
        v = env.get(name)
        if name == "self" or v is None or not (isinstance(v.ty, list) and v.ty[0] == "list") or name not in self.locals_created:
            self.fail(node, f"mutation of {name!r}, which is not a local list created in this function")
        return v

    def block(self, stmts, env, k, lp):
        if not stmts:
            if k is None:
                raise TranslateError(f"{self.spec['fn']}: control reaches the end of the function without a return", self.mod.rel, self.fnode.end_lineno)
            return k(env)
        s, rest = stmts[0], stmts[1:]
        go = (lambda e: self.block(rest, e, k, lp))
        if isinstance(s, ast.Expr):
            if isinstance(s.value, ast.Constant) and isinstance(s.value.value, str):
                return go(env)
            c = s.value
            if isinstance(c, ast.Call) and isinstance(c.func, ast.Attribute) and c.func.attr == "append" and len(c.args) == 1 and not c.keywords:
                return self.s_append(s, c, env, go)
            self.fail(s, "expression statement (call for its side effect) is outside the translated fragment")
        if isinstance(s, ast.Return):          # (statements after return / raise / break in the same block are dead code)
            if lp is not None:
                self.fail(s, "return inside a loop")
            if s.value is None:
                self.fail(s, "return without value")
            pre = []
            v = self.ev(s.value, env, pre)
            ret = self.spec["ret"]
            if ret == "optM":
                t = "None" if v.ty == "none" else f"(Some {self.want(v, 'M', s, 'returned value')})"
            elif ret == "beam":
                if v.ty not in ("qbeam", "pbeam"):
                    self.fail(s, f"returned value is a {tstr(v.ty)}")
                t = f"({'BParam' if v.ty == 'qbeam' else 'BPart'} {v.t})"
            else:
                t = self.want(v, ret, s, "returned value")
            return self.wrap(pre, f"Ok {t}")
        if isinstance(s, ast.Assert):
            if s.msg is not None and not (isinstance(s.msg, ast.Constant) and isinstance(s.msg.value, str)):
                self.fail(s, "assert message must be a string literal")
            pre = []
            c = self.truth(self.ev(s.test, env, pre), s.test)
            return self.wrap(pre, f"if {c}\n  then ({go(env)})\n  else Raise")
        if isinstance(s, ast.Raise):
            if not (isinstance(s.exc, ast.Call) and self.glob(s.exc.func, env) == "TypeError") or s.cause is not None:
                self.fail(s, "only `raise TypeError(..)` is understood")
            return "Raise"
        if isinstance(s, ast.Break):
            if lp is None:
                self.fail(s, "break outside a loop")
            return f"Ok (Break {self.tuple_of([env[x].t for x in lp])})"
        if isinstance(s, (ast.Assign, ast.AnnAssign)):
            if isinstance(s, ast.AnnAssign):
                if s.value is None or not s.simple:
                    self.fail(s, "annotated assignment without value")
                tg = s.target
            else:
                if len(s.targets) != 1:
                    self.fail(s, "chained assignment")
                tg = s.targets[0]
            if not isinstance(tg, ast.Name) or tg.id == "self":
                self.fail(s, "assignment target must be a local name")
            if isinstance(s.value, ast.Name) and s.value.id in env and isinstance(env[s.value.id].ty, list) and env[s.value.id].ty[0] == "list":
                self.fail(s, f"a second name for the list {s.value.id!r} (aliasing is outside the functional reading)")
            pre = []
            v = self.ev(s.value, env, pre)
            if v.ty == "none":
                self.fail(s, f"assignment of a {v.ty} value")
            if v.ty == "meta":          # device / dtype bookkeeping: no value, but the evaluation (which may raise) is kept
                if tg.id in env and env[tg.id].ty != "meta":
                    self.fail(s, f"{tg.id!r} changes its type")
                env2 = dict(env)
                env2[tg.id] = Val("tt", "meta")
                return self.wrap(pre, go(env2))
            if isinstance(s.value, ast.List) and not s.value.elts:
                self.locals_created.add(tg.id)
                if tg.id in self.objlists:
                    v = Val("[]", ["list", "obj"])
                elif tg.id in env and isinstance(env[tg.id].ty, list):
                    v = Val("[]", env[tg.id].ty if env[tg.id].ty[0] == "list" else list(env[tg.id].ty[1]))
            elif isinstance(v.ty, list) and v.ty[0] == "list":
                if isinstance(s.value, (ast.ListComp, ast.List)):
                    self.locals_created.add(tg.id)
                else:
                    self.locals_created.discard(tg.id)
            if tg.id in env and not same(env[tg.id].ty, v.ty) and not (isinstance(env[tg.id].ty, list) and env[tg.id].ty[0] == "opt"):
                self.fail(s, f"{tg.id!r} changes its type from {tstr(env[tg.id].ty)} to {tstr(v.ty)}")
            txt, env2 = self.rebind(env, tg.id, v)
            return self.wrap(pre, txt + go(env2))
        if isinstance(s, ast.AugAssign):
            if not isinstance(s.op, ast.Add) or not isinstance(s.target, ast.Name):
                self.fail(s, "augmented assignment: only `v += list` is understood")
            cur = self.local_list(s.target.id, env, s)
            pre = []
            v = self.ev(s.value, env, pre)
            if cur.ty[1] == "obj" or not same(cur.ty, v.ty):
                self.fail(s, f"`+=` of a {tstr(v.ty)} value to a {tstr(cur.ty)}")
            txt, env2 = self.rebind(env, s.target.id, Val(f"({cur.t} ++ {v.t})", cur.ty))
            return self.wrap(pre, txt + go(env2))
        if isinstance(s, ast.If):
            t = s.test
            if (isinstance(t, ast.Compare) and len(t.ops) == 1 and isinstance(t.ops[0], (ast.Is, ast.IsNot)) and isinstance(t.left, ast.Name)
                    and isinstance(t.comparators[0], ast.Constant) and t.comparators[0].value is None):
                v = env.get(t.left.id)
                if v is None or not (isinstance(v.ty, list) and v.ty[0] == "opt"):
                    self.fail(s, f"`{t.left.id} is None` test on something that is not an Optional parameter")
                none_b, some_b = (s.body, s.orelse) if isinstance(t.ops[0], ast.Is) else (s.orelse, s.body)
                inner = self.fresh(t.left.id)
                env_some = dict(env)
                env_some[t.left.id] = Val(inner, v.ty[1])
                a = self.block(list(none_b) + rest, env, k, lp)
                b = self.block(list(some_b) + rest, env_some, k, lp)
                return f"match {v.t} with\n  | None => {a}\n  | Some {inner} => {b}\n  end"
            if self.spec.get("beam") and isinstance(t, ast.Call) and self.glob(t.func, env) == "isinstance":
                return self.beam_if(s, rest, env, k, lp)
            pre = []
            c = self.truth(self.ev(t, env, pre), t)
            a = self.block(list(s.body) + rest, env, k, lp)
            b = self.block(list(s.orelse) + rest, env, k, lp)
            return self.wrap(pre, f"if {c}\n  then ({a})\n  else ({b})")
        if isinstance(s, ast.For):
            return self.s_for(s, rest, env, k, lp)
        self.fail(s, f"unsupported statement {type(s).__name__}")

    def beam_if(self, s, rest, env, k, lp):
        t = s.test
        if len(t.args) != 2 or t.keywords or not isinstance(t.args[0], ast.Name):
            self.fail(s, "isinstance test")
        v = env.get(t.args[0].id)
        cls = self.glob(t.args[1], env)
        if v is None or v.ty not in ("beam", "beam-not-param") or cls not in ("ParameterBeam", "ParticleBeam"):
            self.fail(s, "isinstance: only (incoming, ParameterBeam | ParticleBeam) on the incoming beam is understood")
        if rest:
            self.fail(rest[0], "statement after the beam-type dispatch")
        # ParameterBeam and ParticleBeam are disjoint classes: a value that is not the one is the other or neither
        inner = self.fresh(t.args[0].id)
        env_in = dict(env)
        env_in[t.args[0].id] = Val(inner, "qbeam" if cls == "ParameterBeam" else "pbeam")
        other = self.fresh(t.args[0].id)
        env_out = dict(env)
        env_out[t.args[0].id] = Val(v.t, v.ty)
        a = self.block(list(s.body), env_in, k, lp)
        b = self.block(list(s.orelse), env_out, k, lp)
        con, ocon = ("BParam", "BPart") if cls == "ParameterBeam" else ("BPart", "BParam")
        self.used.discard(other)
        return f"match {v.t} with\n  | {con} {inner} => {a}\n  | {ocon} _ => {b}\n  end"

    def s_append(self, s, c, env, go):
        tgt = c.func.value
        # v[-1].elements.append(e)
        if (isinstance(tgt, ast.Attribute) and tgt.attr == "elements" and isinstance(tgt.value, ast.Subscript) and isinstance(tgt.value.value, ast.Name)):
            name = tgt.value.value.id
            cur = self.local_list(name, env, s)
            sl = tgt.value.slice
            if not (isinstance(sl, ast.UnaryOp) and isinstance(sl.op, ast.USub) and self.nat_literal(sl.operand) == 1) or cur.ty[1] != "obj":
                self.fail(s, "mutation through a list item: only v[-1].elements.append(e) is understood")
            pre = []
            e = self.want(self.ev(c.args[0], env, pre), "elem", c.args[0], "appended element")
            o = self.mbind(pre, f"last_item {cur.t}", "obj", "o")
            o2 = self.mbind(pre, f"obj_elements_append {o.t} {e}", "obj", "o")
            txt, env2 = self.rebind(env, name, Val(f"(set_last {cur.t} {o2.t})", cur.ty))
            return self.wrap(pre, txt + go(env2))
        if not isinstance(tgt, ast.Name):
            self.fail(s, "append to something that is not a local list")
        cur = self.local_list(tgt.id, env, s)
        pre = []
        v = self.ev(c.args[0], env, pre)
        if cur.ty[1] == "obj":
            if v.ty != "elem":
                self.fail(s, f"append of a {tstr(v.ty)} value to an object list")
            direct = v.fresh and isinstance(c.args[0], ast.Call)
            item = f"{'New' if direct else 'Ref'} {v.t}"
        else:
            if not same(cur.ty, ["list", v.ty]):
                self.fail(s, f"append of a {tstr(v.ty)} value to a {tstr(cur.ty)}")
            item = v.t
        txt, env2 = self.rebind(env, tgt.id, Val(f"({cur.t} ++ [{item}])", cur.ty))
        return self.wrap(pre, txt + go(env2))

    def s_for(self, s, rest, env, k, lp):
        if s.orelse:
            self.fail(s, "for .. else")
        if not isinstance(s.target, ast.Name) or s.target.id in env or s.target.id == "self":
            self.fail(s, "loop target must be a single name that is not bound before the loop")
        pre = []
        xs = self.ev(s.iter, env, pre)
        if not (isinstance(xs.ty, list) and xs.ty[0] == "list" and xs.ty[1] is not None):
            self.fail(s.iter, f"loop over a {tstr(xs.ty)} value")
        asg = self.assigned(s.body)
        state = [x for x in asg if x in env and x != "self"]       # in the order of their first assignment in the body
        if not state:
            self.fail(s, "loop whose body assigns no variable bound before the loop")
        if isinstance(s.iter, ast.Name) and s.iter.id in state:
            self.fail(s, f"loop over {s.iter.id!r}, which the loop body assigns")
        for x in state:
            if isinstance(env[x].ty, list) and env[x].ty[0] == "opt":
                self.fail(s, f"loop body assigns the Optional parameter {x!r}")
        st_in = self.fresh("st")
        env_b = dict(env)
        names_in = []
        for x in state:
            nm = self.fresh(x)
            names_in.append(nm)
            env_b[x] = Val(nm, env[x].ty)
        xn = self.fresh(s.target.id)
        env_b[s.target.id] = Val(xn, xs.ty[1])
        body = self.block(list(s.body), env_b, lambda e: f"Ok (Next {self.tuple_of([e[x].t for x in state])})", state)
        st_out = self.fresh("st")
        env_a = dict(env)
        names_out = []
        for x in state:
            nm = self.fresh(x)
            names_out.append(nm)
            env_a[x] = Val(nm, env[x].ty)
        destr_in = f"let '{self.tuple_of(names_in)} := {st_in} in\n  " if len(state) > 1 else f"let {names_in[0]} := {st_in} in\n  "
        destr_out = f"let '{self.tuple_of(names_out)} := {st_out} in\n  " if len(state) > 1 else f"let {names_out[0]} := {st_out} in\n  "
        after = self.block(rest, env_a, k, lp)
        def ty_of(t):
            if isinstance(t, list) and t[1] is None:
                return "(list _)"
            return coq_ty(t)
        st_ty = " * ".join(ty_of(env[x].ty) for x in state)
        loop = f"loop (fun ({st_in} : {st_ty}) {xn} =>\n  {destr_in}{body})\n  {xs.t} {self.tuple_of([env[x].t for x in state])}"
        return self.wrap(pre, f"({st_out} <- {loop} ;;\n  {destr_out}{after})")

    def check_ctm(self, mod):
        """class CustomTransferMap(Element) with __init__(self, predefined_transfer_map, length=None, name=None, device=None, dtype=None)"""
        c = mod.bind["CustomTransferMap"][0][2]
        if [ast.dump(x) for x in c.bases] != ["Name(id='Element', ctx=Load())"] or c.keywords or c.decorator_list:
            mod.fail(c, "class CustomTransferMap must derive from Element only")
        self.origin("Element", c)
        _, init, _ = find_function(mod, dict(cls="CustomTransferMap", fn="__init__"))
        a = init.args
        if ([x.arg for x in a.args] != ["self", "predefined_transfer_map", "length", "name", "device", "dtype"] or a.vararg or a.kwarg or a.kwonlyargs
                or a.posonlyargs or len(a.defaults) != 4 or not all(isinstance(d, ast.Constant) and d.value is None for d in a.defaults)):
            mod.fail(init, "signature of CustomTransferMap.__init__ changed")

    # ------------------------------------------------------------------ whole function
    def translate(self):
        spec, mod = self.spec, self.mod
        cnode, f, cb = find_function(mod, spec)
        self.fnode, self.class_bind = f, cb
        a = f.args
        if a.vararg or a.kwarg or a.kwonlyargs or a.posonlyargs:
            mod.fail(f, "unsupported parameter syntax")
        pos = [x.arg for x in a.args]
        defaults = [None] * (len(pos) - len(a.defaults)) + list(a.defaults)
        if not pos or pos[0] != ("cls" if spec.get("classmethod") else "self"):
            mod.fail(f, "method without self / cls")
        pos, defaults = pos[1:], defaults[1:]
        if pos != [p for p, _ in spec["params"]]:
            mod.fail(f, f"signature changed: parameters {pos}, expected {[p for p, _ in spec['params']]}")
        env, binders = {}, []
        self.locals_created = set()
        for nd in ast.walk(f):
            if (isinstance(nd, ast.Attribute) and nd.attr == "elements" and isinstance(nd.value, ast.Subscript) and isinstance(nd.value.value, ast.Name)
                    and isinstance(nd.ctx, ast.Load)):
                self.objlists.add(nd.value.value.id)
        if spec.get("beam"):
            self.used.add("self_transfer_map")
            env["self"] = {}
            binders.append(("self_transfer_map", "A -> exc (option (M7 A))"))
        elif spec.get("classmethod"):
            self.check_ctm(mod)
        else:
            nm, es = self.fresh("name"), self.fresh("elements")
            env["self"] = {"name": Val(nm, "str"), "elements": Val(es, ["list", "elem"])}
            binders += [(nm, "string"), (es, "list elem")]
        for (p, ty), d in zip(spec["params"], defaults):
            is_opt = isinstance(ty, list) and ty[0] == "opt"
            if is_opt != (isinstance(d, ast.Constant) and d.value is None) or (d is not None and not is_opt):
                mod.fail(f, f"signature changed: default of parameter {p!r}")
            c = self.fresh(p)
            env[p] = Val(c, ty)
            binders.append((c, coq_ty(ty)))
        body = self.block(list(f.body), env, None, None)
        coq = f"gen_{spec['cls']}_{spec['fn']}"
        bs = " ".join(f"({n} : {t})" for n, t in binders)
        text = f"Definition {coq} {bs} : exc {coq_ty(spec['ret'])} :=\n  {body}.\n"
        return coq, text, f


def find_function(mod, spec):
    """Module.find_function with the decorator list the spec asks for (none, @property or @classmethod)."""
    want = ["Name(id='property', ctx=Load())"] if spec.get("prop") else ["Name(id='classmethod', ctx=Load())"] if spec.get("classmethod") else []
    cls, fn = spec["cls"], spec["fn"]
    b = mod.bind.get(cls, [])
    if len(b) != 1 or b[0][0] != "class":
        raise TranslateError(f"class {cls} is not defined exactly once", mod.rel, 0)
    cnode = b[0][2]
    cb = {}
    mod._collect(cnode.body, cb)
    b = cb.get(fn, [])
    if len(b) != 1 or b[0][0] != "def" or not isinstance(b[0][2], ast.FunctionDef):
        raise TranslateError(f"{cls}.{fn} is not defined exactly once as a function", mod.rel, getattr(cnode, "lineno", 0))
    f = b[0][2]
    if [ast.dump(d) for d in f.decorator_list] != want:
        mod.fail(f, f"unexpected decorators on {cls}.{fn}")
    return cnode, f, cb


class Translator:
    def __init__(self, repo):
        self.repo = Path(repo)
        self.mods, self.done = {}, {}

    def module(self, rel):
        if rel not in self.mods:
            self.mods[rel] = Module(self.repo, rel)
        return self.mods[rel]

    def lookup(self, cls, fn):
        return self.done.get((cls, fn))

    def check_classes(self):
        """class Segment(Element) / class Element(ABC, nn.Module); Segment.__init__(self, elements, name=None); Segment does not
        redefine what it inherits in a way the reading ignores"""
        m = self.module(SEG)
        b = m.bind.get("Segment", [])
        if len(b) != 1 or b[0][0] != "class":
            raise TranslateError("class Segment is not defined exactly once", SEG, 0)
        c = b[0][2]
        if [ast.dump(x) for x in c.bases] != ["Name(id='Element', ctx=Load())"] or c.keywords or c.decorator_list:
            m.fail(c, "class Segment must derive from Element only (super().track is read as Element.track)")
        eb = m.bind.get("Element", [])
        if len(eb) != 1 or (eb[0][0], eb[0][1]) != ORIGINS["Element"]:
            m.fail(c, "Element is not imported exactly once from cheetah.accelerator.element")
        _, init, cb = m.find_function("Segment", "__init__")
        a = init.args
        names = [x.arg for x in a.args]
        if (names != ["self", "elements", "name"] or a.vararg or a.kwarg or a.kwonlyargs or a.posonlyargs or len(a.defaults) != 1
                or not (isinstance(a.defaults[0], ast.Constant) and a.defaults[0].value is None)):
            m.fail(init, "signature of Segment.__init__ changed (expected (self, elements, name=None))")
        self.segment_init = ("elements", "name")
        # the constructor stores its arguments as the reading assumes: super().__init__(name=name) first, self.elements = nn.ModuleList(elements)
        # once, and nothing else in the class assigns self.elements / self.name
        def stores(cnode, attr):
            return [nd for nd in ast.walk(cnode) if isinstance(nd, ast.Attribute) and nd.attr == attr and isinstance(nd.ctx, (ast.Store, ast.Del))
                    and isinstance(nd.value, ast.Name) and nd.value.id == "self"]
        want_el = ast.dump(ast.parse("self.elements = nn.ModuleList(elements)").body[0])
        want_super = ast.dump(ast.parse("super().__init__(name=name)").body[0])
        body = [st for st in init.body if not (isinstance(st, ast.Expr) and isinstance(st.value, ast.Constant))]
        if not body or ast.dump(body[0]) != want_super:
            m.fail(init, "Segment.__init__ must start with super().__init__(name=name)")
        if [ast.dump(st) for st in init.body if isinstance(st, ast.Assign) and any(isinstance(t, ast.Attribute) and t.attr == "elements" for t in st.targets)] != [want_el] \
                or len(stores(c, "elements")) != 1 or stores(c, "name"):
            m.fail(init, "Segment must store its elements by exactly `self.elements = nn.ModuleList(elements)` in __init__ and never assign self.name")
        nb = m.bind.get("nn", [])
        if len(nb) != 1 or (nb[0][0], nb[0][1]) != ("from", "torch"):
            m.fail(init, "nn is not imported exactly once from torch")
        for nm in ("__getattr__", "__getattribute__", "__setattr__", "__call__", "forward", "__new__", "__init_subclass__"):
            if nm in cb:
                m.fail(cb[nm][0][2], f"class Segment defines {nm!r}: attribute access / calls are no longer what the reading assumes")
        e = self.module(ELT)
        b = e.bind.get("Element", [])
        if len(b) != 1 or b[0][0] != "class":
            raise TranslateError("class Element is not defined exactly once", ELT, 0)
        ec = b[0][2]
        ecb = {}
        e._collect(ec.body, ecb)
        for nm in ("__getattr__", "__getattribute__", "__setattr__", "__new__", "__init_subclass__"):
            if nm in ecb:
                e.fail(ecb[nm][0][2], f"class Element defines {nm!r}")
        _, einit, _ = find_function(e, dict(cls="Element", fn="__init__"))
        want_name = ast.dump(ast.parse("self.name = name if name is not None else generate_unique_name()").body[0])
        names = [st for st in ast.walk(ec) if isinstance(st, ast.Assign) and any(isinstance(t, ast.Attribute) and t.attr == "name" and isinstance(t.value, ast.Name)
                                                                                  and t.value.id == "self" for t in st.targets)]
        if [ast.dump(st) for st in names] != [want_name] or names[0] not in einit.body:
            e.fail(einit, "Element.__init__ must store the name by exactly `self.name = name if name is not None else generate_unique_name()`")

    def run(self):
        self.check_classes()
        out, info = [], []
        beam_started = False
        for spec in SPECS:
            mod = self.module(spec["file"])
            ft = Fn(self, spec, mod)
            coq, text, f = ft.translate()
            first, last, seg = mod.segment(f)
            self.done[(spec["cls"], spec["fn"])] = dict(spec=spec, coq=coq)
            if spec.get("beam") and not beam_started:
                out.append(BEAM_HEADER)
                beam_started = True
            out.append(text)
            info.append(dict(function=f"{spec['cls']}.{spec['fn']}", file=spec["file"], first_line=first, last_line=last,
                             source_sha256=hashlib.sha256(seg.encode()).hexdigest(), coq_name=coq,
                             coq_sha256=hashlib.sha256(text.encode()).hexdigest(), has_precondition=False))
        return HEADER + "\n".join(out) + "\n" + FOOTER, info


def locate(repo):
    """Only locate the functions of SPECS: [(qualified name, file, first_line, last_line, sha256)]."""
    tr, out = Translator(repo), []
    for spec in SPECS:
        mod = tr.module(spec["file"])
        _, f, _ = find_function(mod, spec)
        first, last, seg = mod.segment(f)
        out.append((f"{spec['cls']}.{spec['fn']}", spec["file"], first, last, hashlib.sha256(seg.encode()).hexdigest()))
    return out


def generate(repo):
    """Returns (coq_text, info list).  Raises TranslateError."""
    return Translator(repo).run()


if __name__ == "__main__":
    repo = sys.argv[1] if len(sys.argv) > 1 else "/repo"
    try:
        text, info = generate(repo)
    except TranslateError as ex:
        print("TRANSLATOR FAILED:", ex)
        sys.exit(2)
    if len(sys.argv) > 2:
        Path(sys.argv[2]).write_text(text)
    else:
        print(text)
