"""Self-test of the structural source-to-Coq translator stage (harness/translate_stage.translator_obligation_seg).

Copies /repo (without .git) to a scratch directory under /tmp (removed afterwards), points VERIF_REPO at the copy and
runs the stage on
  * the unchanged copy                                   -> must be ok
  * one-line SEMANTIC mutations of translated functions  -> must be translator_failed or equivalence_broken
  * COSMETIC edits                                       -> must be ok
  * the seeded patches /verif/seeded/{C01,C08,C10}-*/patch.diff and C16-4: reports which touch a translated function and
    whether the stage notices them.
Usage:  PYTHONPATH=/verif/harness /venv/bin/python harness/translate_seg_selftest.py [--only substring] [--no-seeded]
Exit status 0 iff every expectation holds.
"""
import os
import re
import shutil
import subprocess
import sys
import time
from pathlib import Path

SCRATCH = Path(f"/tmp/translate_seg_selftest_{os.getpid()}")
COPY = SCRATCH / "repo"
os.environ["VERIF_REPO"] = str(COPY)
sys.path.insert(0, str(Path(__file__).resolve().parent))
import common  # noqa: E402
import translate_maps  # noqa: E402
import translate_seg  # noqa: E402
import translate_stage  # noqa: E402

SEG, ELT, CTM = "cheetah/accelerator/segment.py", "cheetah/accelerator/element.py", "cheetah/accelerator/custom_transfer_map.py"
FLUSH1 = "                if len(skippable_elements) == 1:"
TRAIL = "        if len(skippable_elements) > 0:"
MERGED_TRACK = "                    tracked_beam = merged_elements[-1].track(tracked_beam)"
TM_LOOP = "                tm = torch.matmul(element.transfer_map(energy), tm)"
SUBCELL_TAIL = ("            if is_in_subcell:\n                subcell.append(element)\n"
                "            if element.name == end:\n                break\n")
TRACK_LOOP = "            for todo in todos:\n                incoming = todo.track(incoming)\n"

# (id, expectation, file, old, new, description)   expectation: "detect" | "ok" | "info"
MUTATIONS = [
    # ---- Segment.track
    ("S01", "detect", SEG, "                if not element.is_skippable:\n                    todos.append(element)",
     "                if element.is_skippable:\n                    todos.append(element)", "track: non-skippable test inverted"),
    ("S02", "detect", SEG, "elif not todos or not todos[-1].is_skippable:", "elif not todos:", "track: a skippable element is merged into whatever todo came last"),
    ("S03", "detect", SEG, "elif not todos or not todos[-1].is_skippable:", "elif not todos or todos[-1].is_skippable:", "track: test on the last todo inverted"),
    ("S04", "detect", SEG, '                    todos.append(Segment([element], name="temporary_todo"))', "                    todos.append(element)",
     "track: no temporary segment is opened (the next skippable element is appended to a lattice element)"),
    ("S05", "detect", SEG, "                    todos[-1].elements.append(element)", '                    todos.append(Segment([element], name="temporary_todo"))',
     "track: every skippable element in a segment of its own (no merging)"),
    ("S06", "detect", SEG, "                    todos[-1].elements.append(element)", "                    todos[-1].elements.insert(0, element)", "track: run kept in reverse order"),
    ("S07", "detect", SEG, TRACK_LOOP, "            for todo in todos[:-1]:\n                incoming = todo.track(incoming)\n", "track: the last todo (trailing run) is never tracked"),
    ("S08", "detect", SEG, TRACK_LOOP, "            for todo in todos:\n                todo.track(incoming)\n", "track: result of todo.track dropped (stale beam)"),
    ("S09", "detect", SEG, TRACK_LOOP, "            for todo in todos:\n                incoming = todo.track(todo.track(incoming))\n", "track: every todo tracked twice"),
    ("S10", "detect", SEG, "        if self.is_skippable:\n            return super().track(incoming)", "        if not self.is_skippable:\n            return super().track(incoming)",
     "track: shortcut taken for the non-skippable segments"),
    ("S11", "detect", SEG, "            return super().track(incoming)", "            return incoming", "track: skippable segment does nothing"),
    ("S12", "detect", SEG, "elif not todos or not todos[-1].is_skippable:", "elif not todos or not isinstance(todos[-1], Segment):",
     "track: a nested non-skippable lattice Segment is taken for a temporary one and mutated (seeded C01-1)"),
    # ---- is_skippable / length / transfer_map
    ("S13", "detect", SEG, "return all(element.is_skippable for element in self.elements)", "return any(element.is_skippable for element in self.elements)", "is_skippable: all -> any"),
    ("S14", "detect", SEG, TM_LOOP, "                tm = torch.matmul(tm, element.transfer_map(energy))", "transfer_map: multiplication order reversed"),
    ("S15", "detect", SEG, "            return tm\n        else:\n            return None", "            return tm\n        else:\n            return torch.eye(7)", "transfer_map: identity instead of None"),
    ("S16", "detect", SEG, "            for element in self.elements:\n" + TM_LOOP, "            for element in self.elements[1:]:\n" + TM_LOOP, "transfer_map: first element skipped"),
    ("S17", "detect", SEG, "return reduce(torch.add, lengths, torch.tensor(0.0))", "return reduce(torch.add, lengths, torch.tensor(1.0))", "length: initial value 1.0"),
    ("S18", "detect", SEG, "lengths = [element.length for element in self.elements]", "lengths = [element.length for element in self.elements if element.is_skippable]",
     "length: only the skippable elements are summed"),
    # ---- subcell / flattened
    ("S19", "detect", SEG, SUBCELL_TAIL, "            if element.name == end:\n                break\n            if is_in_subcell:\n                subcell.append(element)\n",
     "subcell: break moved before the append (end element lost)"),
    ("S20", "detect", SEG, "            if element.name == start:\n                is_in_subcell = True", "            if element.name == end:\n                is_in_subcell = True", "subcell: starts at the end name"),
    ("S21", "detect", SEG, "                flattened_elements += element.flattened().elements", "                flattened_elements += element.elements", "flattened: one level only"),
    ("S22", "detect", SEG, "                flattened_elements += element.flattened().elements", "                flattened_elements.append(element.flattened())",
     "flattened: nested segment kept as a (flattened) segment"),
    # ---- transfer_maps_merged
    ("S23", "detect", SEG, FLUSH1, "                if len(skippable_elements) >= 1:", "merged: len == 1 -> >= 1 (runs are never merged)"),
    ("S24", "detect", SEG, MERGED_TRACK, "                    tracked_beam = merged_elements[-1].track(incoming_beam)", "merged: merged element tracked with the stale incoming beam"),
    ("S25", "detect", SEG, "                            skippable_elements, incoming_beam=tracked_beam\n                        )\n                    )\n" + MERGED_TRACK,
     "                            skippable_elements, incoming_beam=incoming_beam\n                        )\n                    )\n" + MERGED_TRACK,
     "merged: maps of an inner run evaluated at the energy of the incoming beam"),
    ("S26", "detect", SEG, "            if element.is_skippable and element.name not in except_for:", "            if element.is_skippable:", "merged: except_for dropped"),
    ("S27", "detect", SEG, TRAIL, "        if len(skippable_elements) > 1:", "merged: a trailing run of one element is dropped"),
    ("S28", "detect", SEG, "                skippable_elements = []\n\n", "\n", "merged: pending run never reset"),
    ("S29", "detect", SEG, "                    tracked_beam = skippable_elements[0].track(tracked_beam)\n", "", "merged: single kept element not tracked (stale beam)"),
    ("S30", "detect", SEG, TRAIL + "\n            merged_elements.append(\n                CustomTransferMap.from_merging_elements(\n                    skippable_elements, incoming_beam=tracked_beam\n                )\n            )\n", "",
     "merged: trailing flush dropped"),
    # ---- filters
    ("S31", "detect", SEG, "if not isinstance(element, Marker) or element.name in except_for", "if isinstance(element, Marker) or element.name in except_for", "markers: condition negated"),
    ("S32", "detect", SEG, "if not isinstance(element, Marker) or element.name in except_for", "if not isinstance(element, Marker)", "markers: except_for dropped"),
    ("S33", "detect", SEG, "if torch.any(element.length > 0.0)", "if torch.all(element.length > 0.0)", "zero-length: any -> all"),
    ("S34", "detect", SEG, '                or (hasattr(element, "is_active") and element.is_active)\n                or element.name in except_for\n            ],',
     "                or element.is_active\n                or element.name in except_for\n            ],", "zero-length: hasattr guard dropped (AttributeError on Drift / Segment)"),
    ("S35", "detect", SEG, "                    or torch.all(element.length == 0.0)\n", "", "as_drifts: zero-length elements become drifts too"),
    ("S36", "detect", SEG, "                        name=element.name,\n", '                        name="drift",\n', "as_drifts: name not kept"),
    ("S37", "detect", SEG, '                    if (hasattr(element, "is_active") and element.is_active)', '                    if not (hasattr(element, "is_active") and element.is_active)',
     "as_drifts: activity test negated"),
    # ---- split / clone
    ("S38", "detect", SEG, "            for element in self.elements\n            for split_element in element.split(resolution)", "            for element in reversed(self.elements)\n            for split_element in element.split(resolution)",
     "split: elements in reverse order"),
    ("S39", "detect", SEG, "            elements=[element.clone() for element in self.elements], name=self.name", "            elements=[element.clone() for element in self.elements]", "clone: name dropped"),
    ("S40", "detect", SEG, "            elements=[element.clone() for element in self.elements], name=self.name", "            elements=[element for element in self.elements], name=self.name", "clone: elements shared, not cloned"),
    # ---- Element.track
    ("S41", "detect", ELT, "cov = torch.matmul(tm, torch.matmul(incoming._cov, tm.transpose(-2, -1)))", "cov = torch.matmul(tm, torch.matmul(incoming._cov, tm))", "Element.track: transpose dropped in the covariance"),
    ("S42", "detect", ELT, "mu = torch.matmul(tm, incoming._mu.unsqueeze(-1)).squeeze(-1)", "mu = incoming._mu", "Element.track: mean not transformed"),
    ("S43", "detect", ELT, "new_particles = torch.matmul(incoming.particles, tm.transpose(-2, -1))", "new_particles = torch.matmul(incoming.particles, tm)", "Element.track: particles times tm instead of tm^T"),
    ("S44", "detect", ELT, "                particle_charges=incoming.particle_charges,", "                particle_charges=incoming.survival_probabilities,", "Element.track: charges replaced by survival probabilities"),
    ("S45", "detect", ELT, "        elif isinstance(incoming, ParticleBeam):\n            tm = self.transfer_map(incoming.energy)", "        elif isinstance(incoming, ParticleBeam):\n            tm = self.transfer_map(incoming.energy * 2)",
     "Element.track: map taken at another energy"),
    ("S46", "detect", ELT, "                total_charge=incoming.total_charge,", "                total_charge=incoming.energy,", "Element.track: total charge replaced"),
    # ---- CustomTransferMap.from_merging_elements
    ("S49", "detect", CTM, "            tm = torch.matmul(element.transfer_map(incoming_beam.energy), tm)", "            tm = torch.matmul(tm, element.transfer_map(incoming_beam.energy))",
     "from_merging_elements: multiplication order reversed"),
    ("S50", "detect", CTM, "            incoming_beam = element.track(incoming_beam)\n", "", "from_merging_elements: beam not tracked (all maps at the entry energy)"),
    ("S51", "detect", CTM, 'combined_name = "combined_" + "_".join(element.name for element in elements)', 'combined_name = "merged_" + "_".join(element.name for element in elements)',
     "from_merging_elements: name prefix"),
    ("S52", "detect", CTM, "combined_length = sum(element.length for element in elements)", "combined_length = elements[0].length", "from_merging_elements: length of the first element only"),
    ("S53", "detect", CTM, "        assert all(element.is_skippable for element in elements), (", "        assert any(element.is_skippable for element in elements), (", "from_merging_elements: assert weakened"),
    ("S54", "detect", CTM, "            tm, length=combined_length, device=device, dtype=dtype, name=combined_name", "            tm, length=combined_length, device=device, dtype=dtype",
     "from_merging_elements: name not passed"),
    ("S55", "detect", SEG, "        self.elements = nn.ModuleList(elements)", "        self.elements = nn.ModuleList(elements[::-1])", "Segment.__init__: elements stored in reverse order"),
    ("S56", "detect", ELT, "        self.name = name if name is not None else generate_unique_name()", "        self.name = generate_unique_name()", "Element.__init__: given name ignored"),
    ("S47", "detect", SEG, "class Segment(Element):", "class Segment(Element, dict):", "class Segment gets a second base (super().track no longer Element.track for sure)"),
    ("S48", "detect", SEG, "    def clone(self) -> \"Segment\":", "    def track(self, incoming):\n        return incoming\n\n    def clone(self) -> \"Segment\":", "Segment.track shadowed by a second definition"),
    # ---- cosmetic
    ("K01", "ok", SEG, "            todos = []\n", "            # maximal runs of skippable elements\n\n            todos = []  # work list\n", "comments and blank lines"),
    ("K02", "ok", SEG, '        """Extract a subcell `[start, end]` from an this segment."""', '        """Extract the subcell from `start` to `end`.\n\n        (reworded docstring)\n        """', "docstring changed"),
    ("K03", "ok", SEG, ("re", r"\btodos\b"), "work", "local variable todos renamed"),
    ("K04", "ok", SEG, ("re", r"\bskippable_elements\b"), "pending", "local variable skippable_elements renamed"),
    ("K05", "ok", SEG, "elif not todos or not todos[-1].is_skippable:", "elif (\n                    not todos\n                    or not (todos[-1].is_skippable)\n                ):", "reformatting (line breaks, redundant parentheses)"),
    ("K06", "ok", SEG, "            todos = []\n", "            todos: list = []\n", "type annotation added to a local assignment"),
    ("K07", "ok", SEG, "        return Segment(elements=flattened_elements, name=self.name)", "        return Segment(name=self.name, elements=flattened_elements)", "keyword arguments reordered"),
    ("K08", "ok", ELT, ("re", r"\bnew_particles\b"), "moved", "local variable of Element.track renamed"),
    ("K11", "ok", CTM, ("re", r"\bcombined_length\b"), "total", "local variable of from_merging_elements renamed"),
    ("K09", "ok", SEG, "    def track(self, incoming: Beam) -> Beam:\n", '    def track(self, incoming: Beam) -> Beam:\n        """Track through the segment, merging runs of skippable elements."""\n', "docstring added to Segment.track"),
    ("K10", "ok", SEG, "        merged_elements = []  # Elements for new merged segment\n        skippable_elements = []  # Keep track of elements that are not yet merged\n",
     "        skippable_elements = []\n        merged_elements = []\n", "two independent initialisations reordered"),
    # ---- semantics-preserving but outside what the tie accepts (informational)
    ("I01", "info", SEG, 'name="temporary_todo"', 'name="tmp"', "name of the temporary segments changed (never observable)"),
    ("I02", "info", SEG, FLUSH1, "                if 1 == len(skippable_elements):", "comparison written the other way round"),
    ("I03", "info", SEG, "        if except_for is None:\n            except_for = []\n\n        merged_elements", "        except_for = except_for or []\n\n        merged_elements", "`x or []` idiom instead of the None test"),
]


def apply_mutation(m):
    _, _, rel, old, new, _ = m
    p = COPY / rel
    src = p.read_text()
    if isinstance(old, tuple):
        out, n = re.subn(old[1], new, src)
        if n == 0:
            raise RuntimeError(f"pattern {old[1]!r} not found in {rel}")
    else:
        if src.count(old) < 1:
            raise RuntimeError(f"text {old!r} not found in {rel}")
        out = src.replace(old, new, 1)
    p.write_text(out)
    return {rel: src}


def restore(backup):
    for rel, src in backup.items():
        p = COPY / rel
        if src is None:
            p.unlink(missing_ok=True)
        else:
            p.write_text(src)


def touched(base):
    try:
        now = translate_seg.locate(COPY)
    except translate_maps.TranslateError as ex:
        return [f"<{ex.reason}>"]
    b = {x[0]: x[4] for x in base}
    return [x[0] for x in now if b.get(x[0]) != x[4]]


def describe(r):
    if r["status"] == "ok":
        return "ok"
    if r["status"] == "translator_failed":
        return f"translator_failed  {r.get('file')}:{r.get('line')}  {str(r.get('reason'))[:90]}"
    if r["status"] == "equivalence_broken":
        return f"equivalence_broken  {r.get('lemma')}"
    return f"{r['status']}  {str(r.get('reason'))[:120]}"


def main():
    only = sys.argv[sys.argv.index("--only") + 1] if "--only" in sys.argv else None
    if SCRATCH.exists():
        shutil.rmtree(SCRATCH)
    SCRATCH.mkdir(parents=True)
    bad = 0
    try:
        shutil.copytree("/repo", COPY, ignore=shutil.ignore_patterns(".git", "__pycache__", "*.pyc"))
        assert common.REPO == COPY
        t0 = time.time()
        r0 = translate_stage.translator_obligation_seg()
        base = translate_seg.locate(COPY)
        print(f"{'BASE':5} {'ok':7} {describe(r0):60} unchanged copy of /repo   [{r0['wall_s']} s]")
        if r0["status"] != "ok":
            print(r0)
            return 1
        for m in MUTATIONS:
            if only and only not in m[0] and only not in m[5]:
                continue
            backup = apply_mutation(m)
            try:
                r = translate_stage.translator_obligation_seg()
                tch = touched(base)
            finally:
                restore(backup)
            exp = m[1]
            good = (r["status"] in ("translator_failed", "equivalence_broken")) if exp == "detect" else (r["status"] == "ok") if exp == "ok" else True
            if not tch and m[0] not in ("S47", "S55", "S56"):       # (these change the class machinery the reading assumes, not a translated function)
                good = False        # a mutation that does not reach a translated function tests nothing
                r = dict(r, status="mutation-missed-its-target", reason="the edit changed no translated function")
            bad += 0 if good else 1
            print(f"{m[0]:5} {exp:7} {'PASS' if good else 'FAIL'}  {describe(r):100}  | {m[5]}  [{r['wall_s']} s]", flush=True)
        r1 = translate_stage.translator_obligation_seg()
        if r1["status"] != "ok" or r1["generated_sha256"] != r0["generated_sha256"]:
            print("FAIL: the scratch copy was not restored faithfully")
            bad += 1
        if "--no-seeded" not in sys.argv and not only:
            print("\nseeded patches:")
            seeded = sorted(p for p in (common.VERIF / "seeded").glob("C*-*/patch.diff") if p.parent.name[:3] in ("C01", "C08", "C10") or p.parent.name == "C16-4")
            for pd in seeded:
                files = re.findall(r"^\+\+\+ b/(\S+)", pd.read_text(), flags=re.M)
                backup = {f: ((COPY / f).read_text() if (COPY / f).exists() else None) for f in files}
                pr = subprocess.run(["patch", "-p1", "-s", "--no-backup-if-mismatch", "-i", str(pd)], cwd=COPY, capture_output=True, text=True)
                try:
                    if pr.returncode != 0:
                        print(f"{pd.parent.name:6} patch does not apply: {pr.stdout[-200:]}")
                        bad += 1
                        continue
                    tch = touched(base)
                    r = translate_stage.translator_obligation_seg()
                finally:
                    restore(backup)
                    for junk in list(COPY.rglob("*.orig")) + list(COPY.rglob("*.rej")):
                        junk.unlink()
                if tch:
                    good = r["status"] in ("translator_failed", "equivalence_broken")
                    bad += 0 if good else 1
                    print(f"{pd.parent.name:6} touches {','.join(tch):45} {'DETECTED' if good else 'MISSED  '}  {describe(r)}", flush=True)
                else:
                    good = r["status"] == "ok"
                    bad += 0 if good else 1
                    print(f"{pd.parent.name:6} touches no translated function ({', '.join(files)}): stage {describe(r)}", flush=True)
        print(f"\nself-test finished in {round(time.time() - t0, 1)} s: {'ALL EXPECTATIONS HOLD' if not bad else str(bad) + ' FAILED'}")
    finally:
        shutil.rmtree(SCRATCH, ignore_errors=True)
    return 1 if bad else 0


if __name__ == "__main__":
    sys.exit(main())
