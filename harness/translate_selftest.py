"""Self-test of the source-to-Coq translator stage (harness/translate_stage.py).

Copies /repo (without .git) to a scratch directory under /tmp (removed afterwards), points VERIF_REPO at the copy
and runs translator_obligation on
  * the unchanged copy                                   -> must be ok
  * one-line SEMANTIC mutations of translated functions  -> must be translator_failed or equivalence_broken
  * COSMETIC edits                                       -> must be ok
  * the seeded patches /verif/seeded/{C02,C03,C05,C09,C16}-*/patch.diff: reports which touch a translated function and
    whether the stage notices them.
Usage:  PYTHONPATH=/verif/harness /venv/bin/python harness/translate_selftest.py [--only substring] [--no-seeded]
Exit status 0 iff every expectation holds.
"""
import os
import re
import shutil
import subprocess
import sys
import time
from pathlib import Path

SCRATCH = Path(f"/tmp/translate_selftest_{os.getpid()}")
COPY = SCRATCH / "repo"
os.environ["VERIF_REPO"] = str(COPY)
sys.path.insert(0, str(Path(__file__).resolve().parent))
import common  # noqa: E402
import translate_maps  # noqa: E402
import translate_stage  # noqa: E402

TM, PH, ACC = "cheetah/track_methods.py", "cheetah/utils/physics.py", "cheetah/accelerator/"
R56 = "-self.length / beta**2 * igamma2"
TILT_BRANCH = '''    if torch.any(tilt != 0):
        R = torch.einsum(
            "...ij,...jk,...kl->...il", rotation_matrix(-tilt), R, rotation_matrix(tilt)
        )
'''

# (id, expectation, file, old, new, description)   expectation: "detect" | "ok" | "info"
MUTATIONS = [
    # ---- semantic
    ("S01", "detect", TM, "tm[..., 2, 0] = -sn", "tm[..., 2, 0] = sn", "rotation_matrix: sign flip of entry (2,0)"),
    ("S02", "detect", TM, "tm[..., 0, 2] = sn", "tm[..., 2, 0] = sn", "rotation_matrix: index swap (0,2) -> (2,0)"),
    ("S03", "detect", TM, "R[..., 0, 1] = sx", "R[..., 0, 1] = sy", "base_rmatrix: sx <-> sy in entry (0,1)"),
    ("S04", "detect", TM, "R[..., 0, 5] = dx / beta", "R[..., 0, 5] = dx", "base_rmatrix: dropped `/ beta`"),
    ("S05", "detect", TM, "(1.0 - cx)", "(1.0 + cx)", "base_rmatrix: 1.0 - cx -> 1.0 + cx"),
    ("S06", "detect", TM, "k1[k1 == 0] = 1e-12", "k1[k1 == 0] = 1e-10", "base_rmatrix: changed guard constant"),
    ("S07", "detect", TM, TILT_BRANCH, "", "base_rmatrix: tilt branch removed"),
    ("S08", "detect", TM, "kx2 = k1 + hx**2", "kx2 = k1 - hx**2", "base_rmatrix: sign in kx2"),
    ("S09", "detect", TM, "    r56 = r56 - length / beta**2 * igamma2\n", "", "base_rmatrix: dropped term of r56"),
    ("S10", "detect", TM, "sx = (torch.sin(kx * length) / kx).real", "sx = (torch.sin(kx * length)).real", "idiom: dropped `/ kx`"),
    ("S11", "detect", TM, "cx = torch.cos(kx * length).real", "cx = torch.sin(kx * length).real", "idiom: cos -> sin"),
    ("S12", "detect", TM, "cy = torch.cos(ky * length).real", "cy = torch.cos(kx * length).real", "idiom: changed argument ky -> kx"),
    ("S13", "detect", TM, "sy = (torch.sin(ky * length) / ky).real", "sy = (torch.sin(ky * length) / kx).real", "idiom: divisor of another quantity"),
    ("S14", "detect", TM, "tilt = tilt if tilt is not None else torch.tensor(0.0,", "tilt = tilt if tilt is not None else torch.tensor(1.0,",
     "base_rmatrix: changed default of tilt"),
    ("S15", "detect", TM, "R_entry[..., 0, 6] = -misalignment[..., 0]", "R_entry[..., 0, 6] = -misalignment[..., 1]", "misalignment_matrix: swapped component"),
    ("S16", "detect", TM, "if torch.any(tilt != 0):", "if torch.any(tilt != 1):", "base_rmatrix: changed guard of the tilt branch"),
    ("S17", "detect", PH, "1 / gamma**2", "1 / gamma**3", "compute_relativistic_factors: exponent"),
    ("S18", "detect", PH, "gamma == 0.0", "gamma == 1.0", "compute_relativistic_factors: changed guard constant"),
    ("S19", "detect", PH, "beta = torch.sqrt(1 - igamma2)", "beta = torch.sqrt(1 + igamma2)", "compute_relativistic_factors: sign"),
    ("S20", "detect", ACC + "drift.py", R56, R56[1:], "Drift: sign of R56"),
    ("S21", "detect", ACC + "horizontal_corrector.py", "tm[..., 1, 6] = self.angle", "tm[..., 3, 6] = self.angle", "HorizontalCorrector: kick on the wrong row"),
    ("S22", "detect", ACC + "vertical_corrector.py", "tm[..., 2, 3] = self.length", "tm[..., 2, 3] = self.angle", "VerticalCorrector: swapped variable"),
    ("S23", "detect", ACC + "solenoid.py", "R[..., 1, 2] = -self.k * s**2", "R[..., 1, 2] = self.k * s**2", "Solenoid: sign"),
    ("S24", "detect", ACC + "solenoid.py", "self.k == 0.0, self.length, s / self.k", "self.k == 0.0, self.length, s * self.k", "Solenoid: s/k -> s*k"),
    ("S25", "detect", ACC + "undulator.py", R56, "self.length * igamma2", "Undulator: back to the pre-F3 formula"),
    ("S26", "detect", ACC + "quadrupole.py", "R_exit, R, R_entry", "R_entry, R, R_exit", "Quadrupole: R_entry / R_exit order swapped"),
    ("S27", "detect", ACC + "quadrupole.py", "hx=torch.zeros_like(self.length)", "hx=self.k1", "Quadrupole: hx argument"),
    ("S28", "detect", ACC + "dipole.py", "R = torch.matmul(R_exit, torch.matmul(R, R_enter))", "R = torch.matmul(R_enter, torch.matmul(R, R_exit))",
     "Dipole: edge order swapped"),
    ("S29", "detect", ACC + "dipole.py", "* (1 + torch.sin(self._e1) ** 2)", "* (1 - torch.sin(self._e1) ** 2)", "Dipole entrance edge: sign in phi"),
    ("S30", "detect", ACC + "dipole.py", "return torch.where(self.length == 0.0, 0.0, self.angle / self.length)",
     "return torch.where(self.length == 0.0, 0.0, self.length / self.angle)", "Dipole.hx: inverted ratio"),
    ("S31", "detect", ACC + "dipole.py", "tm[..., 3, 2] = -self.hx * torch.tan(self._e2 - phi)", "tm[..., 3, 2] = -self.hx * torch.tan(self._e2 + phi)",
     "Dipole exit edge: sign of phi"),
    ("S32", "detect", ACC + "dipole.py", "R[..., 2, 6] = self.angle", "R[..., 3, 6] = self.angle", "Dipole thin-corrector branch: index"),
    ("S33", "detect", ACC + "rbend.py", "dipole_e1=rbend_e1 + angle / 2", "dipole_e1=rbend_e1 + angle / 3", "RBend: changed constant in e1"),
    ("S34", "detect", ACC + "cavity.py", "r12 = torch.sqrt(8 / eta)", "r12 = torch.sqrt(4 / eta)", "Cavity: constant in r12"),
    ("S35", "detect", ACC + "cavity.py", "R[..., 5, 4] = r65", "R[..., 4, 5] = r65", "Cavity: index swap"),
    ("S36", "detect", ACC + "cavity.py", "(self.voltage != 0).unsqueeze(-1).unsqueeze(-1)", "(self.voltage > 0).unsqueeze(-1).unsqueeze(-1)", "Cavity: changed guard"),
    ("S37", "detect", TM, "    R[..., 4, 5] = r56\n", "    R[..., 4, 5] = r56\n    R = R * 2\n", "base_rmatrix: statement outside the fragment added"),
    ("S38", "detect", TM, "def misalignment_matrix(", "def base_rmatrix(length, k1, hx, tilt=None, energy=None):\n    return torch.eye(7)\n\n\ndef misalignment_matrix(",
     "track_methods: base_rmatrix shadowed by a second definition"),
    ("S39", "detect", TM, "    k1 = k1.clone()\n", "", "base_rmatrix: `.clone()` dropped (the masked write would now modify the element's k1)"),
    ("S40", "detect", TM, "R_entry = torch.eye(7, device=device, dtype=dtype).repeat(*vector_shape, 1, 1)", "R_entry = R_exit",
     "misalignment_matrix: R_entry aliases R_exit"),
    ("S41", "detect", ACC + "drift.py", "        _, igamma2, beta = compute_relativistic_factors(energy)\n",
     "        _, igamma2, beta = compute_relativistic_factors(energy)\n        assert torch.all(self.length >= 0)\n", "Drift: new precondition (assert) added"),
    ("S42", "detect", ACC + "solenoid.py", "if torch.all(self.misalignment == 0):", "if torch.any(self.misalignment == 0):",
     "Solenoid: all -> any on the 2-vector misalignment (IS semantic: and -> or)"),
    ("S43", "detect", ACC + "dipole.py", "if torch.any(self.length != 0.0):  # Bending magnet with finite length", "if torch.any(self.length == 0.0):  # Bending magnet with finite length",
     "Dipole: guard of the thin-corrector branch inverted"),
    ("S44", "detect", ACC + "dipole.py", "R_enter = self._transfer_map_enter()", "R_enter = self._transfer_map_exit()", "Dipole: entrance edge replaced by the exit edge"),
    ("S45", "detect", ACC + "solenoid.py", "        R = R.real\n", "        R = R.transpose(-1, -2)\n", "Solenoid: unknown tensor method"),
    ("S46", "detect", ACC + "cavity.py", ("all", "phi = torch.deg2rad(self.phase)"), "phi = self.phase", "Cavity: deg2rad dropped (both occurrences in the file)"),
    # ---- not semantic in the scalar reading (documented blind spot; batched behaviour is C04's subject)
    ("N01", "ok", TM, "if torch.any(tilt != 0):", "if torch.all(tilt != 0):", "torch.any -> torch.all on a scalar test (same scalar reading)"),
    # ---- cosmetic
    ("K01", "ok", TM, "    kx2 = k1 + hx**2\n", "    # focusing strengths\n\n    kx2 = k1 + hx**2  # horizontal\n", "comments and blank lines"),
    ("K02", "ok", TM, '"""Shift the beam for tracking beam through misaligned elements."""', '"""Entry and exit shifts.\n\n    (reworded docstring)\n    """',
     "docstring changed"),
    ("K03", "ok", TM, ("re", r"\bdx\b"), "disp_x", "local variable dx renamed (3 occurrences)"),
    ("K04", "ok", ACC + "drift.py", ("re", r"\btm\b"), "tmat", "local variable tm renamed in drift.py"),
    ("K05", "ok", TM, "    kx2 = k1 + hx**2\n    ky2 = -k1\n", "    kx2 = (\n        k1\n        + hx ** 2\n    )\n    ky2 = -(k1)\n", "reformatting (line breaks, redundant parentheses)"),
    ("K06", "ok", TM, "    cx = torch.cos(kx * length).real\n    cy = torch.cos(ky * length).real\n", "    cy = torch.cos(ky * length).real\n    cx = torch.cos(kx * length).real\n",
     "two independent assignments reordered"),
    ("K07", "ok", TM, "    tm[..., 0, 0] = cs\n    tm[..., 0, 2] = sn\n", "    tm[..., 0, 2] = sn\n    tm[..., 0, 0] = cs\n", "two independent entry assignments reordered"),
    ("K08", "ok", ACC + "quadrupole.py", "        R = base_rmatrix(\n            length=self.length,\n            k1=self.k1,", "        R = base_rmatrix(\n            k1=self.k1,\n            length=self.length,",
     "keyword arguments reordered"),
    ("K09", "ok", TM, "    kx2 = k1 + hx**2\n", "    kx2: torch.Tensor = k1 + hx**2\n", "type annotation added to a local assignment"),
    # ---- semantics-preserving refactorings beyond the required cosmetic classes (informational)
    ("I01", "info", ACC + "dipole.py", "        sec_e = 1.0 / torch.cos(self._e1)\n", "        sec_e = 1 / torch.cos(self._e1)\n", "literal 1.0 -> 1"),
    ("I02", "info", TM, "dx = hx / kx2 * (1.0 - cx)", "dx = (1.0 - cx) * hx / kx2", "algebraic re-association (equal over R, not bit-identical in floats)"),
    ("I03", "info", TM, "    cs = torch.cos(angle)\n    sn = torch.sin(angle)\n", "    cs, sn = torch.cos(angle), torch.sin(angle)\n", "two assignments merged into a tuple assignment"),
]


def apply_mutation(m):
    _, _, rel, old, new, _ = m
    p = COPY / rel
    src = p.read_text()
    if isinstance(old, tuple) and old[0] == "all":
        if src.count(old[1]) < 1:
            raise RuntimeError(f"text {old[1]!r} not found in {rel}")
        out = src.replace(old[1], new)
    elif isinstance(old, tuple):
        out, n = re.subn(old[1], new, src)
        if n == 0:
            raise RuntimeError(f"pattern {old[1]!r} not found in {rel}")
    else:
        if src.count(old) < 1:
            raise RuntimeError(f"text {old!r} not found in {rel}")
        out = src.replace(old, new, 1)
    p.write_text(out)
    return {rel: src}


def restore(backup):
    for rel, src in backup.items():
        p = COPY / rel
        if src is None:
            p.unlink(missing_ok=True)
        else:
            p.write_text(src)


def touched(base):
    try:
        now = translate_maps.locate(COPY)
    except translate_maps.TranslateError as ex:
        return [f"<{ex.reason}>"]
    b = {x[0]: x[4] for x in base}
    return [x[0] for x in now if b.get(x[0]) != x[4]]


def describe(r):
    if r["status"] == "ok":
        return "ok"
    if r["status"] == "translator_failed":
        return f"translator_failed  {r.get('file')}:{r.get('line')}  {str(r.get('reason'))[:90]}"
    if r["status"] == "equivalence_broken":
        return f"equivalence_broken  {r.get('lemma')}"
    return f"{r['status']}  {str(r.get('reason'))[:120]}"


def main():
    only = sys.argv[sys.argv.index("--only") + 1] if "--only" in sys.argv else None
    if SCRATCH.exists():
        shutil.rmtree(SCRATCH)
    SCRATCH.mkdir(parents=True)
    bad = 0
    try:
        shutil.copytree("/repo", COPY, ignore=shutil.ignore_patterns(".git", "__pycache__", "*.pyc"))
        assert common.REPO == COPY
        t0 = time.time()
        r0 = translate_stage.translator_obligation()
        base = translate_maps.locate(COPY)
        print(f"{'BASE':5} {'ok':7} {describe(r0):60} unchanged copy of /repo   [{r0['wall_s']} s]")
        if r0["status"] != "ok":
            print(r0)
            return 1
        rows = []
        for m in MUTATIONS:
            if only and only not in m[0] and only not in m[5]:
                continue
            backup = apply_mutation(m)
            try:
                r = translate_stage.translator_obligation()
                tch = touched(base)
            finally:
                restore(backup)
            exp = m[1]
            good = (r["status"] in ("translator_failed", "equivalence_broken")) if exp == "detect" else (r["status"] == "ok") if exp == "ok" else True
            if not tch:
                good = False        # a mutation that does not reach a translated function tests nothing
                r = dict(r, status="mutation-missed-its-target", reason="the edit changed no translated function")
            bad += 0 if good else 1
            rows.append((m[0], exp, "PASS" if good else "FAIL", describe(r), m[5], r["wall_s"], tch))
            print(f"{m[0]:5} {exp:7} {'PASS' if good else 'FAIL'}  {describe(r):100}  | {m[5]}  [{r['wall_s']} s]", flush=True)
        # unchanged again (the restore logic left no residue)
        r1 = translate_stage.translator_obligation()
        if r1["status"] != "ok" or r1["generated_sha256"] != r0["generated_sha256"]:
            print("FAIL: the scratch copy was not restored faithfully")
            bad += 1
        # seeded patches
        if "--no-seeded" not in sys.argv and not only:
            print("\nseeded patches:")
            seeded = sorted(p for p in (common.VERIF / "seeded").glob("C*-*/patch.diff") if p.parent.name[:3] in ("C02", "C03", "C05", "C09", "C16"))
            for pd in seeded:
                files = re.findall(r"^\+\+\+ b/(\S+)", pd.read_text(), flags=re.M)
                backup = {f: ((COPY / f).read_text() if (COPY / f).exists() else None) for f in files}
                pr = subprocess.run(["patch", "-p1", "-s", "--no-backup-if-mismatch", "-i", str(pd)], cwd=COPY, capture_output=True, text=True)
                try:
                    if pr.returncode != 0:
                        print(f"{pd.parent.name:6} patch does not apply: {pr.stdout[-200:]}")
                        bad += 1
                        continue
                    tch = touched(base)
                    r = translate_stage.translator_obligation()
                finally:
                    restore(backup)
                    for junk in COPY.rglob("*.orig"):
                        junk.unlink()
                    for junk in COPY.rglob("*.rej"):
                        junk.unlink()
                if tch:
                    good = r["status"] in ("translator_failed", "equivalence_broken")
                    bad += 0 if good else 1
                    print(f"{pd.parent.name:6} touches {','.join(tch):45} {'DETECTED' if good else 'MISSED  '}  {describe(r)}", flush=True)
                else:
                    good = r["status"] == "ok"
                    bad += 0 if good else 1
                    print(f"{pd.parent.name:6} touches no translated function ({', '.join(files)}): stage {describe(r)}", flush=True)
        print(f"\nself-test finished in {round(time.time() - t0, 1)} s: {'ALL EXPECTATIONS HOLD' if not bad else str(bad) + ' FAILED'}")
    finally:
        shutil.rmtree(SCRATCH, ignore_errors=True)
    return 1 if bad else 0


if __name__ == "__main__":
    sys.exit(main())
