"""translate_stage -- the check stage of the source-to-Coq translator (harness/translate_maps.py).

translator_obligation(run) regenerates Gen/MapsGen.v from the CURRENT source text of common.REPO (VERIF_REPO
overrides /repo) into the per-process build directory, compiles it, and compiles the hand-written equivalence
proofs (coq/theories/Gen/MapsGenEquiv.v) and the final statements (Gen/MapsGenProps.v) AGAINST THE FRESH COPY
(never against the committed coq/theories/Gen/MapsGen.v, which only serves the full build).  It returns a
dictionary and prints nothing; the caller decides about the verdict (it runs its failing-input search and reports
with or without `no-failing-input-found`).

    status = "ok"                  all equivalence lemmas compile against the regenerated definitions
           = "translator_failed"   the source left the translated fragment: reason, file, line
           = "equivalence_broken"  generated <> hand-written model: lemma, coq_error (excerpt), file, line (of the .v)
           = "stage_error"         the stage itself could not run (prerequisite theories failed to build ..): reason
    translated   = [{function, file, first_line, last_line, source_sha256, coq_name, coq_sha256, has_precondition}]
    generated_sha256, committed_copy_stale (the committed Gen/MapsGen.v differs from the fresh text: informational),
    lemmas (names proved), theorems (final statements), axioms (union reported by Print Assumptions), wall_s

Nothing is read from or written to /tmp or /repo.  Deterministic (no randomness, no clock in the generated text).
"""
import hashlib
import re
import time
from pathlib import Path

import common
import translate_maps

GEN = common.COQ / "theories" / "Gen"
FRESH = "CheetahFresh"
IMPORT_GEN = "From Cheetah.Gen Require Import MapsGen."
IMPORT_EQV = "From Cheetah.Gen Require Import MapsGenEquiv."
PREREQ = ["theories/Base/Mat", "theories/Optics/Maps", "theories/Gen/GenBase"]


def _prereq_fresh():
    for p in PREREQ:
        v, vo = common.COQ / (p + ".v"), common.COQ / (p + ".vo")
        if not vo.exists() or vo.stat().st_mtime < v.stat().st_mtime:
            return False
    order = [(common.COQ / (p + ".vo")).stat().st_mtime for p in PREREQ]
    return order == sorted(order)


def _redirect(text, line, new, what):
    if text.count(line) != 1:
        raise RuntimeError(f"{what}: expected exactly one line {line!r}")
    return text.replace(line, new)


def _lemma_at(text, lineno):
    name = None
    for k, ln in enumerate(text.splitlines(), 1):
        if k > lineno:
            break
        m = re.match(r"\s*(?:Lemma|Theorem|Corollary|Definition|Example)\s+([\w']+)", ln)
        if m:
            name = m.group(1)
    return name


def _assumptions(out):
    """(number of closed terms, axiom names) from Print Assumptions output; a name may be followed by its type on the
    same or on the next (indented) lines."""
    closed = len(re.findall(r"Closed under the global context", out))
    axioms, inside = set(), False
    for ln in out.splitlines():
        if ln.startswith("Axioms:"):
            inside = True
            continue
        if not inside:
            continue
        m = re.match(r"^([A-Za-z_][\w.']*)\s*(:.*)?$", ln)
        if m:
            axioms.add(m.group(1))
        elif ln and not ln[0].isspace():
            inside = False
    return closed, axioms


def _coq_failure(res, path, text, rc, err):
    m = re.search(r'line (\d+), characters', err or "")
    ln = int(m.group(1)) if m else 0
    res.update(status="equivalence_broken", file=str(path.name), line=ln, lemma=_lemma_at(text, ln) if ln else None,
               coq_error=("coqc timed out" if rc == 124 else (err or "")[-1200:]))
    return res


def translator_obligation(run=None, audit="bundle", timeout=200):
    """audit = "bundle": one Print Assumptions over all final statements (fast); "full": one per theorem, as in the committed file."""
    t0 = time.time()
    res = dict(status="ok", repo=str(common.REPO), translated=[], lemmas=[], theorems=[], axioms=[])

    def done():
        res["wall_s"] = round(time.time() - t0, 2)
        if run is not None:
            n = len(res["lemmas"]) + len(res["theorems"]) or 1
            run.cov["obligations"] += n
            if res["status"] == "ok":
                run.cov["discharged"] += n
            run.cov["translator"] = {k: res.get(k) for k in ("status", "reason", "file", "line", "lemma", "generated_sha256", "committed_copy_stale",
                                                               "translated", "lemmas", "theorems", "axioms", "wall_s")}
            tb = "source-to-Coq translator harness/translate_maps.py (scalar reading + idiom table in its docstring): ties Optics/Maps.v to /repo's source text"
            if tb not in run.cov["trusted_base"]:
                run.cov["trusted_base"].append(tb)
        return res

    # 1. translate (pure syntax; nothing of cheetah is imported)
    try:
        text, info = translate_maps.generate(common.REPO)
    except translate_maps.TranslateError as ex:
        res.update(status="translator_failed", reason=ex.reason, file=ex.file, line=ex.line)
        return done()
    except RecursionError:
        res.update(status="translator_failed", reason="expression nesting too deep for the translator", file=None, line=None)
        return done()
    res["translated"] = info
    res["generated_sha256"] = hashlib.sha256(text.encode()).hexdigest()
    committed = GEN / "MapsGen.v"
    res["committed_copy_stale"] = (not committed.exists()) or committed.read_text() != text

    # 2. prerequisites (hand-written, stable): built theories Base/Mat, Optics/Maps, Gen/GenBase
    if not _prereq_fresh():
        ok, log = common.coq_build("theories/Gen/GenBase.vo")
        if not ok:
            res.update(status="stage_error", reason="build of theories/Gen/GenBase.vo failed: " + log[-800:])
            return done()

    bdir = common.BUILD / "translate"
    bdir.mkdir(parents=True, exist_ok=True)
    for old in bdir.glob("MapsGen*"):
        old.unlink()
    extra = ["-Q", str(bdir), FRESH]
    try:
        eqv = _redirect((GEN / "MapsGenEquiv.v").read_text(), IMPORT_GEN, f"From {FRESH} Require Import MapsGen.", "MapsGenEquiv.v")
        props = _redirect((GEN / "MapsGenProps.v").read_text(), IMPORT_GEN, f"From {FRESH} Require Import MapsGen.", "MapsGenProps.v")
        props = _redirect(props, IMPORT_EQV, f"From {FRESH} Require Import MapsGenEquiv.", "MapsGenProps.v")
    except (RuntimeError, OSError) as ex:
        res.update(status="stage_error", reason=str(ex))
        return done()
    res["lemmas"] = re.findall(r"^\s*Lemma\s+(gen_[\w']+)", eqv, flags=re.M)
    res["theorems"] = re.findall(r"^\s*Theorem\s+([\w']+)", props, flags=re.M)
    # every generated definition must be the subject of a lemma
    missing = [i["coq_name"] + "_eq" for i in info if i["coq_name"] + "_eq" not in res["lemmas"]]
    missing += [i["coq_name"] + "_pre_eq" for i in info if i["has_precondition"] and i["coq_name"] + "_pre_eq" not in res["lemmas"]]
    if missing:
        # e.g. an `assert` added to a function that had none: a new precondition is a semantic change
        res.update(status="equivalence_broken", lemma="<missing> " + ", ".join(missing), file="MapsGenEquiv.v", line=0,
                   coq_error="the regenerated file contains definitions for which Gen/MapsGenEquiv.v states no lemma")
        return done()
    if audit == "bundle":
        props = re.sub(r"^Print Assumptions [\w']+\.\s*$", "", props, flags=re.M)
        props += "\nDefinition tr_all := (" + ", ".join(res["theorems"]) + ").\nPrint Assumptions tr_all.\n"

    # 3. compile the fresh transcription, then the proofs against it
    for name, body in (("MapsGen.v", text), ("MapsGenEquiv.v", eqv), ("MapsGenProps.v", props)):
        path = bdir / name
        path.write_text(body)
        rc, out, err = common.coqc(path, extra=extra, timeout=timeout)
        if rc != 0:
            if name == "MapsGen.v":
                # ill-typed output = the translator produced something the scalar reading does not cover
                m = re.search(r'line (\d+), characters', err or "")
                res.update(status="translator_failed", reason="generated file does not compile: " + (err or "")[-600:],
                           file="MapsGen.v", line=int(m.group(1)) if m else 0)
                return done()
            _coq_failure(res, path, body, rc, err)
            return done()
    closed, axioms = _assumptions(out)
    res["axioms"] = sorted(axioms)
    bad = sorted(a for a in axioms if a not in common.AXIOM_WHITELIST and a.split(".")[-1] not in common.AXIOM_WHITELIST)
    forbidden = re.compile(r"\b(Admitted|admit|Axiom|Axioms|Parameter|Parameters|Conjecture|Unset Guard Checking|bypass_check)\b")
    for f in ("GenBase.v", "MapsGenEquiv.v", "MapsGenProps.v"):
        body = re.sub(r"\(\*.*?\*\)", "", (GEN / f).read_text(), flags=re.S)
        bad += [f"{m.group(1)} in Gen/{f}" for m in forbidden.finditer(body)]
    if forbidden.search(text):
        bad.append("forbidden vernacular in the generated text")
    if bad or (not axioms and not closed):
        res.update(status="stage_error", reason=f"axiom audit failed: {bad or 'no Print Assumptions output'}")
    return done()


def replay_fields(res):
    """Compact, JSON-able description of a non-ok result for a replay/violation record."""
    keep = ("status", "reason", "file", "line", "lemma", "coq_error", "generated_sha256")
    d = {k: res[k] for k in keep if res.get(k) is not None}
    d["kind"] = "translator"
    d["broken"] = ("source left the translated fragment: " + str(res.get("reason"))) if res["status"] == "translator_failed" else \
        (f"Gen/MapsGenEquiv.v {res.get('lemma')}: regenerated definition <> Optics/Maps.v" if res["status"] == "equivalence_broken" else str(res.get("reason")))
    return d


if __name__ == "__main__":
    import json
    import sys
    r = translator_obligation(audit=sys.argv[1] if len(sys.argv) > 1 else "bundle")
    brief = dict(r)
    brief["translated"] = [f"{i['function']} {i['file']}:{i['first_line']}-{i['last_line']} {i['source_sha256'][:12]}" for i in r["translated"]]
    print(json.dumps(brief, indent=1))
    sys.exit(0 if r["status"] == "ok" else 1)
