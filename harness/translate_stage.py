"""translate_stage -- the check stage of the source-to-Coq translator (harness/translate_maps.py).

translator_obligation(run) regenerates Gen/MapsGen.v from the CURRENT source text of common.REPO (VERIF_REPO
overrides /repo) into the per-process build directory, compiles it, and compiles the hand-written equivalence
proofs (coq/theories/Gen/MapsGenEquiv.v) and the final statements (Gen/MapsGenProps.v) AGAINST THE FRESH COPY
(never against the committed coq/theories/Gen/MapsGen.v, which only serves the full build).  It returns a
dictionary and prints nothing; the caller decides about the verdict (it runs its failing-input search and reports
with or without `no-failing-input-found`).

    status = "ok"                  all equivalence lemmas compile against the regenerated definitions
           = "translator_failed"   the source left the translated fragment: reason, file, line
           = "equivalence_broken"  generated <> hand-written model: lemma, coq_error (excerpt), file, line (of the .v)
           = "stage_error"         the stage itself could not run (prerequisite theories failed to build ..): reason
    translated   = [{function, file, first_line, last_line, source_sha256, coq_name, coq_sha256, has_precondition}]
    generated_sha256, committed_copy_stale (the committed Gen/MapsGen.v differs from the fresh text: informational),
    lemmas (names proved), theorems (final statements), axioms (union reported by Print Assumptions), wall_s

Nothing is read from or written to /tmp or /repo.  Deterministic (no randomness, no clock in the generated text).
"""
import hashlib
import re
import time
from pathlib import Path

import common
import translate_maps

GEN = common.COQ / "theories" / "Gen"
FRESH = "CheetahFresh"
IMPORT_GEN = "From Cheetah.Gen Require Import MapsGen."
IMPORT_EQV = "From Cheetah.Gen Require Import MapsGenEquiv."
PREREQ = ["theories/Base/Mat", "theories/Optics/Maps", "theories/Gen/GenBase"]


def _prereq_fresh():
    for p in PREREQ:
        v, vo = common.COQ / (p + ".v"), common.COQ / (p + ".vo")
        if not vo.exists() or vo.stat().st_mtime < v.stat().st_mtime:
            return False
    order = [(common.COQ / (p + ".vo")).stat().st_mtime for p in PREREQ]
    return order == sorted(order)


def _redirect(text, line, new, what):
    if text.count(line) != 1:
        raise RuntimeError(f"{what}: expected exactly one line {line!r}")
    return text.replace(line, new)


def _lemma_at(text, lineno):
    name = None
    for k, ln in enumerate(text.splitlines(), 1):
        if k > lineno:
            break
        m = re.match(r"\s*(?:Lemma|Theorem|Corollary|Definition|Example)\s+([\w']+)", ln)
        if m:
            name = m.group(1)
    return name


def _assumptions(out):
    """(number of closed terms, axiom names) from Print Assumptions output; a name may be followed by its type on the
    same or on the next (indented) lines."""
    closed = len(re.findall(r"Closed under the global context", out))
    axioms, inside = set(), False
    for ln in out.splitlines():
        if ln.startswith("Axioms:"):
            inside = True
            continue
        if not inside:
            continue
        m = re.match(r"^([A-Za-z_][\w.']*)\s*(:.*)?$", ln)
        if m:
            axioms.add(m.group(1))
        elif ln and not ln[0].isspace():
            inside = False
    return closed, axioms


def _coq_failure(res, path, text, rc, err):
    m = re.search(r'line (\d+), characters', err or "")
    ln = int(m.group(1)) if m else 0
    res.update(status="equivalence_broken", file=str(path.name), line=ln, lemma=_lemma_at(text, ln) if ln else None,
               coq_error=("coqc timed out" if rc == 124 else (err or "")[-1200:]))
    return res


def translator_obligation(run=None, audit="bundle", timeout=200):
    """audit = "bundle": one Print Assumptions over all final statements (fast); "full": one per theorem, as in the committed file."""
    t0 = time.time()
    res = dict(status="ok", repo=str(common.REPO), translated=[], lemmas=[], theorems=[], axioms=[])

    def done():
        res["wall_s"] = round(time.time() - t0, 2)
        if run is not None:
            n = len(res["lemmas"]) + len(res["theorems"]) or 1
            run.cov["obligations"] += n
            if res["status"] == "ok":
                run.cov["discharged"] += n
            run.cov["translator"] = {k: res.get(k) for k in ("status", "reason", "file", "line", "lemma", "generated_sha256", "committed_copy_stale",
                                                               "translated", "lemmas", "theorems", "axioms", "wall_s")}
            tb = "source-to-Coq translator harness/translate_maps.py (scalar reading + idiom table in its docstring): ties Optics/Maps.v to /repo's source text"
            if tb not in run.cov["trusted_base"]:
                run.cov["trusted_base"].append(tb)
        return res

    # 1. translate (pure syntax; nothing of cheetah is imported)
    try:
        text, info = translate_maps.generate(common.REPO)
    except translate_maps.TranslateError as ex:
        res.update(status="translator_failed", reason=ex.reason, file=ex.file, line=ex.line)
        return done()
    except RecursionError:
        res.update(status="translator_failed", reason="expression nesting too deep for the translator", file=None, line=None)
        return done()
    res["translated"] = info
    res["generated_sha256"] = hashlib.sha256(text.encode()).hexdigest()
    committed = GEN / "MapsGen.v"
    res["committed_copy_stale"] = (not committed.exists()) or committed.read_text() != text

    # 2. prerequisites (hand-written, stable): built theories Base/Mat, Optics/Maps, Gen/GenBase
    if not _prereq_fresh():
        ok, log = common.coq_build("theories/Gen/GenBase.vo")
        if not ok:
            res.update(status="stage_error", reason="build of theories/Gen/GenBase.vo failed: " + log[-800:])
            return done()

    bdir = common.BUILD / "translate"
    bdir.mkdir(parents=True, exist_ok=True)
    for old in bdir.glob("MapsGen*"):
        old.unlink()
    extra = ["-Q", str(bdir), FRESH]
    try:
        eqv = _redirect((GEN / "MapsGenEquiv.v").read_text(), IMPORT_GEN, f"From {FRESH} Require Import MapsGen.", "MapsGenEquiv.v")
        props = _redirect((GEN / "MapsGenProps.v").read_text(), IMPORT_GEN, f"From {FRESH} Require Import MapsGen.", "MapsGenProps.v")
        props = _redirect(props, IMPORT_EQV, f"From {FRESH} Require Import MapsGenEquiv.", "MapsGenProps.v")
    except (RuntimeError, OSError) as ex:
        res.update(status="stage_error", reason=str(ex))
        return done()
    res["lemmas"] = re.findall(r"^\s*Lemma\s+(gen_[\w']+)", eqv, flags=re.M)
    res["theorems"] = re.findall(r"^\s*Theorem\s+([\w']+)", props, flags=re.M)
    # every generated definition must be the subject of a lemma
    missing = [i["coq_name"] + "_eq" for i in info if i["coq_name"] + "_eq" not in res["lemmas"]]
    missing += [i["coq_name"] + "_pre_eq" for i in info if i["has_precondition"] and i["coq_name"] + "_pre_eq" not in res["lemmas"]]
    if missing:
        # e.g. an `assert` added to a function that had none: a new precondition is a semantic change
        res.update(status="equivalence_broken", lemma="<missing> " + ", ".join(missing), file="MapsGenEquiv.v", line=0,
                   coq_error="the regenerated file contains definitions for which Gen/MapsGenEquiv.v states no lemma")
        return done()
    if audit == "bundle":
        props = re.sub(r"^Print Assumptions [\w']+\.\s*$", "", props, flags=re.M)
        props += "\nDefinition tr_all := (" + ", ".join(res["theorems"]) + ").\nPrint Assumptions tr_all.\n"

    # 3. compile the fresh transcription, then the proofs against it
    for name, body in (("MapsGen.v", text), ("MapsGenEquiv.v", eqv), ("MapsGenProps.v", props)):
        path = bdir / name
        path.write_text(body)
        rc, out, err = common.coqc(path, extra=extra, timeout=timeout)
        if rc != 0:
            if name == "MapsGen.v":
                # ill-typed output = the translator produced something the scalar reading does not cover
                m = re.search(r'line (\d+), characters', err or "")
                res.update(status="translator_failed", reason="generated file does not compile: " + (err or "")[-600:],
                           file="MapsGen.v", line=int(m.group(1)) if m else 0)
                return done()
            _coq_failure(res, path, body, rc, err)
            return done()
    closed, axioms = _assumptions(out)
    res["axioms"] = sorted(axioms)
    bad = sorted(a for a in axioms if a not in common.AXIOM_WHITELIST and a.split(".")[-1] not in common.AXIOM_WHITELIST)
    forbidden = re.compile(r"\b(Admitted|admit|Axiom|Axioms|Parameter|Parameters|Conjecture|Unset Guard Checking|bypass_check)\b")
    for f in ("GenBase.v", "MapsGenEquiv.v", "MapsGenProps.v"):
        body = re.sub(r"\(\*.*?\*\)", "", (GEN / f).read_text(), flags=re.S)
        bad += [f"{m.group(1)} in Gen/{f}" for m in forbidden.finditer(body)]
    if forbidden.search(text):
        bad.append("forbidden vernacular in the generated text")
    if bad or (not axioms and not closed):
        res.update(status="stage_error", reason=f"axiom audit failed: {bad or 'no Print Assumptions output'}")
    return done()


def replay_fields(res):
    """Compact, JSON-able description of a non-ok result for a replay/violation record."""
    keep = ("status", "reason", "file", "line", "lemma", "coq_error", "generated_sha256")
    d = {k: res[k] for k in keep if res.get(k) is not None}
    d["kind"] = "translator"
    d["broken"] = ("source left the translated fragment: " + str(res.get("reason"))) if res["status"] == "translator_failed" else \
        (f"Gen/MapsGenEquiv.v {res.get('lemma')}: regenerated definition <> Optics/Maps.v" if res["status"] == "equivalence_broken" else str(res.get("reason")))
    return d


# ================================================================================================ Bmad-X / conversions
# Same obligation for harness/translate_bmadx.py: Gen/BmadxGen.v (regenerated), Gen/BmadxGenEquiv.v, Gen/BmadxGenProps.v
# against the hand-written models Bmadx/{Coords,DriftX,Tdc,QuadX,BendX}.v and Beam/SI.v (properties C07, C03, C09, C18).
BX_IMPORT_GEN = "From Cheetah.Gen Require Import BmadxGen."
BX_IMPORT_EQV = "From Cheetah.Gen Require Import BmadxGenEquiv."
BX_TARGETS = ["theories/Gen/BmadxGenBase", "theories/Bmadx/QuadX", "theories/Beam/SI"]
BX_PREREQ = ["theories/Optics/Maps", "theories/Bmadx/Coords", "theories/Bmadx/DriftX", "theories/Bmadx/Tdc", "theories/Bmadx/QuadX",
             "theories/Bmadx/BendX", "theories/Beam/SI", "theories/Gen/BmadxGenBase"]
BX_DEPS = {"theories/Bmadx/DriftX": ["theories/Bmadx/Coords"], "theories/Bmadx/Tdc": ["theories/Bmadx/DriftX"],
           "theories/Bmadx/QuadX": ["theories/Bmadx/Tdc"], "theories/Bmadx/BendX": ["theories/Bmadx/Tdc"],
           "theories/Gen/BmadxGenBase": ["theories/Optics/Maps", "theories/Bmadx/BendX"]}


def _bx_prereq_fresh():
    mt = {}
    for p in BX_PREREQ:
        v, vo = common.COQ / (p + ".v"), common.COQ / (p + ".vo")
        if not vo.exists() or vo.stat().st_mtime < v.stat().st_mtime:
            return False
        mt[p] = vo.stat().st_mtime
    return all(mt[d] <= mt[p] for p, ds in BX_DEPS.items() for d in ds)


def translator_obligation_bmadx(run=None, audit="bundle", timeout=200):
    """Same contract as translator_obligation (statuses ok / translator_failed / equivalence_broken / stage_error, same keys),
    for the Bmad-X tracking code and the coordinate / SI conversions.  Records into run.cov["translator_bmadx"].  Prints nothing."""
    import translate_bmadx
    t0 = time.time()
    res = dict(status="ok", repo=str(common.REPO), translated=[], lemmas=[], theorems=[], axioms=[])

    def done():
        res["wall_s"] = round(time.time() - t0, 2)
        if run is not None:
            n = len(res["lemmas"]) + len(res["theorems"]) or 1
            run.cov["obligations"] += n
            if res["status"] == "ok":
                run.cov["discharged"] += n
            run.cov["translator_bmadx"] = {k: res.get(k) for k in ("status", "reason", "file", "line", "lemma", "generated_sha256", "committed_copy_stale",
                                                                     "translated", "lemmas", "theorems", "axioms", "wall_s")}
            tb = ("source-to-Coq translator harness/translate_bmadx.py (scalar-per-particle reading, mask reading and primitive table in its docstring): "
                  "ties Bmadx/{Coords,DriftX,Tdc,QuadX,BendX}.v and Beam/SI.v to /repo's source text")
            if tb not in run.cov["trusted_base"]:
                run.cov["trusted_base"].append(tb)
        return res

    # 1. translate (pure syntax; nothing of cheetah is imported)
    try:
        text, info = translate_bmadx.generate(common.REPO)
    except translate_maps.TranslateError as ex:
        res.update(status="translator_failed", reason=ex.reason, file=ex.file, line=ex.line)
        return done()
    except RecursionError:
        res.update(status="translator_failed", reason="expression nesting too deep for the translator", file=None, line=None)
        return done()
    res["translated"] = info
    res["generated_sha256"] = hashlib.sha256(text.encode()).hexdigest()
    committed = GEN / "BmadxGen.v"
    res["committed_copy_stale"] = (not committed.exists()) or committed.read_text() != text

    # 2. prerequisites (hand-written, stable)
    if not _bx_prereq_fresh():
        for tgt in BX_TARGETS:
            ok, log = common.coq_build(tgt + ".vo")
            if not ok:
                res.update(status="stage_error", reason=f"build of {tgt}.vo failed: " + log[-800:])
                return done()

    bdir = common.BUILD / "translate_bmadx"
    bdir.mkdir(parents=True, exist_ok=True)
    for old in bdir.glob("BmadxGen*"):
        old.unlink()
    extra = ["-Q", str(bdir), FRESH]
    try:
        eqv = _redirect((GEN / "BmadxGenEquiv.v").read_text(), BX_IMPORT_GEN, f"From {FRESH} Require Import BmadxGen.", "BmadxGenEquiv.v")
        props = _redirect((GEN / "BmadxGenProps.v").read_text(), BX_IMPORT_GEN, f"From {FRESH} Require Import BmadxGen.", "BmadxGenProps.v")
        props = _redirect(props, BX_IMPORT_EQV, f"From {FRESH} Require Import BmadxGenEquiv.", "BmadxGenProps.v")
    except (RuntimeError, OSError) as ex:
        res.update(status="stage_error", reason=str(ex))
        return done()
    res["lemmas"] = re.findall(r"^\s*Lemma\s+(gen_[\w']+)", eqv, flags=re.M)
    res["theorems"] = re.findall(r"^\s*Theorem\s+([\w']+)", props, flags=re.M)
    missing = [i["coq_name"] + "_eq" for i in info if i["coq_name"] + "_eq" not in res["lemmas"]]
    missing += [i["coq_name"] + "_pre_eq" for i in info if i["has_precondition"] and i["coq_name"] + "_pre_eq" not in res["lemmas"]]
    # a lemma about a precondition that the regenerated file no longer has would be about the committed copy only
    have = {i["coq_name"] for i in info} | {i["coq_name"] + "_pre" for i in info if i["has_precondition"]}
    missing += [lm + " (no such generated definition)" for lm in res["lemmas"] if lm.endswith("_eq") and lm[:-3] not in have]
    if missing:
        res.update(status="equivalence_broken", lemma="<missing> " + ", ".join(missing), file="BmadxGenEquiv.v", line=0,
                   coq_error="the regenerated file and Gen/BmadxGenEquiv.v do not list the same definitions")
        return done()
    if audit == "bundle":
        props = re.sub(r"^Print Assumptions [\w']+\.\s*$", "", props, flags=re.M)
        props += "\nDefinition trx_all := (" + ", ".join(res["theorems"]) + ").\nPrint Assumptions trx_all.\n"

    # 3. compile the fresh transcription, then the proofs against it
    for name, body in (("BmadxGen.v", text), ("BmadxGenEquiv.v", eqv), ("BmadxGenProps.v", props)):
        path = bdir / name
        path.write_text(body)
        rc, out, err = common.coqc(path, extra=extra, timeout=timeout)
        if rc != 0:
            if name == "BmadxGen.v":
                m = re.search(r'line (\d+), characters', err or "")
                res.update(status="translator_failed", reason="generated file does not compile: " + (err or "")[-600:],
                           file="BmadxGen.v", line=int(m.group(1)) if m else 0)
                return done()
            _coq_failure(res, path, body, rc, err)
            return done()
    closed, axioms = _assumptions(out)
    res["axioms"] = sorted(axioms)
    bad = sorted(a for a in axioms if a not in common.AXIOM_WHITELIST and a.split(".")[-1] not in common.AXIOM_WHITELIST)
    forbidden = re.compile(r"\b(Admitted|admit|Axiom|Axioms|Parameter|Parameters|Conjecture|Unset Guard Checking|bypass_check)\b")
    for f in ("BmadxGenBase.v", "BmadxGenEquiv.v", "BmadxGenProps.v"):
        body = re.sub(r"\(\*.*?\*\)", "", (GEN / f).read_text(), flags=re.S)
        bad += [f"{m.group(1)} in Gen/{f}" for m in forbidden.finditer(body)]
    if forbidden.search(text):
        bad.append("forbidden vernacular in the generated text")
    if bad or (not axioms and not closed):
        res.update(status="stage_error", reason=f"axiom audit failed: {bad or 'no Print Assumptions output'}")
    return done()


def replay_fields_bmadx(res):
    """Compact, JSON-able description of a non-ok result of translator_obligation_bmadx for a replay/violation record."""
    keep = ("status", "reason", "file", "line", "lemma", "coq_error", "generated_sha256")
    d = {k: res[k] for k in keep if res.get(k) is not None}
    d["kind"] = "translator_bmadx"
    d["broken"] = ("source left the translated fragment: " + str(res.get("reason"))) if res["status"] == "translator_failed" else \
        (f"Gen/BmadxGenEquiv.v {res.get('lemma')}: regenerated definition <> hand-written model (Bmadx/*.v, Beam/SI.v)"
         if res["status"] == "equivalence_broken" else str(res.get("reason")))
    return d


# ------------------------------------------------------------------------------------------------------------------
# Structural code of segment.py / Element.track (harness/translate_seg.py, Gen/SegGen*.v)
SEG_IMPORT_GEN = "From Cheetah.Gen Require Import SegGen."
SEG_IMPORT_EQV = "From Cheetah.Gen Require Import SegGenEquiv."
SEG_PREREQ = ["theories/Base/Mat", "theories/Lattice/Track", "theories/Lattice/TrackProofs", "theories/Lattice/Merge", "theories/Lattice/MergeProofs",
              "theories/Lattice/Filter", "theories/Beam/Moments", "theories/Gen/SegGenBase"]
SEG_TARGETS = ["theories/Lattice/MergeProofs", "theories/Lattice/Filter", "theories/Beam/Moments", "theories/Gen/SegGenBase"]
SEG_DEPS = {"theories/Lattice/TrackProofs": ["theories/Lattice/Track"], "theories/Lattice/Merge": ["theories/Lattice/Track"],
            "theories/Lattice/MergeProofs": ["theories/Lattice/Merge", "theories/Lattice/TrackProofs"],
            "theories/Lattice/Filter": ["theories/Lattice/Merge"], "theories/Beam/Moments": ["theories/Base/Mat"],
            "theories/Gen/SegGenBase": ["theories/Lattice/Track"]}


def _seg_prereq_fresh():
    mt = {}
    for p in SEG_PREREQ:
        v, vo = common.COQ / (p + ".v"), common.COQ / (p + ".vo")
        if not vo.exists() or vo.stat().st_mtime < v.stat().st_mtime:
            return False
        mt[p] = vo.stat().st_mtime
    return all(mt[d] <= mt[p] for p, ds in SEG_DEPS.items() for d in ds)


def translator_obligation_seg(run=None, audit="bundle", timeout=200):
    """Same contract as translator_obligation (statuses ok / translator_failed / equivalence_broken / stage_error, same keys), for the
    structural code of cheetah/accelerator/segment.py and the generic Element.track (harness/translate_seg.py): regenerates
    Gen/SegGen.v from common.REPO into the per-process build directory and compiles Gen/SegGenEquiv.v and Gen/SegGenProps.v
    against the fresh copy.  Records into run.cov["translator_seg"].  Prints nothing."""
    import translate_seg
    t0 = time.time()
    res = dict(status="ok", repo=str(common.REPO), translated=[], lemmas=[], theorems=[], axioms=[])

    def done():
        res["wall_s"] = round(time.time() - t0, 2)
        if run is not None:
            n = len(res["lemmas"]) + len(res["theorems"]) or 1
            run.cov["obligations"] += n
            if res["status"] == "ok":
                run.cov["discharged"] += n
            run.cov["translator_seg"] = {k: res.get(k) for k in ("status", "reason", "file", "line", "lemma", "generated_sha256", "committed_copy_stale",
                                                                   "translated", "lemmas", "theorems", "axioms", "wall_s")}
            tb = ("source-to-Coq translator harness/translate_seg.py (object reading and construct table in its docstring; combinators of "
                  "Gen/SegGenBase.v): ties Lattice/{Track,Merge,Filter}.v and the Element.track contract of Beam/Moments.v to /repo's source text")
            if tb not in run.cov["trusted_base"]:
                run.cov["trusted_base"].append(tb)
        return res

    # 1. translate (pure syntax; nothing of cheetah is imported)
    try:
        text, info = translate_seg.generate(common.REPO)
    except translate_maps.TranslateError as ex:
        res.update(status="translator_failed", reason=ex.reason, file=ex.file, line=ex.line)
        return done()
    except RecursionError:
        res.update(status="translator_failed", reason="nesting too deep for the translator", file=None, line=None)
        return done()
    res["translated"] = info
    res["generated_sha256"] = hashlib.sha256(text.encode()).hexdigest()
    committed = GEN / "SegGen.v"
    res["committed_copy_stale"] = (not committed.exists()) or committed.read_text() != text

    # 2. prerequisites (hand-written, stable)
    if not _seg_prereq_fresh():
        for tgt in SEG_TARGETS:
            ok, log = common.coq_build(tgt + ".vo")
            if not ok:
                res.update(status="stage_error", reason=f"build of {tgt}.vo failed: " + log[-800:])
                return done()

    bdir = common.BUILD / "translate_seg"
    bdir.mkdir(parents=True, exist_ok=True)
    for old in bdir.glob("SegGen*"):
        old.unlink()
    extra = ["-Q", str(bdir), FRESH]
    try:
        eqv = _redirect((GEN / "SegGenEquiv.v").read_text(), SEG_IMPORT_GEN, f"From {FRESH} Require Import SegGen.", "SegGenEquiv.v")
        props = _redirect((GEN / "SegGenProps.v").read_text(), SEG_IMPORT_GEN, f"From {FRESH} Require Import SegGen.", "SegGenProps.v")
        props = _redirect(props, SEG_IMPORT_EQV, f"From {FRESH} Require Import SegGenEquiv.", "SegGenProps.v")
    except (RuntimeError, OSError) as ex:
        res.update(status="stage_error", reason=str(ex))
        return done()
    res["lemmas"] = re.findall(r"^\s*Lemma\s+(gen_[\w']+)", eqv, flags=re.M)
    res["theorems"] = re.findall(r"^\s*Theorem\s+([\w']+)", props, flags=re.M)
    have = {i["coq_name"] for i in info}
    missing = [c + "_eq" for c in sorted(have) if c + "_eq" not in res["lemmas"]]
    missing += [lm + " (no such generated definition)" for lm in res["lemmas"] if lm.endswith("_eq") and lm[:-3] not in have]
    # every equivalence lemma must reach a final statement (a lemma that is stated but not used would not be audited)
    missing += [lm + " (not used by Gen/SegGenProps.v)" for lm in res["lemmas"] if not re.search(r"\b" + re.escape(lm) + r"\b", props)]
    if missing:
        res.update(status="equivalence_broken", lemma="<missing> " + ", ".join(missing), file="SegGenEquiv.v", line=0,
                   coq_error="the regenerated file, Gen/SegGenEquiv.v and Gen/SegGenProps.v do not list the same definitions")
        return done()
    if audit == "bundle":
        props = re.sub(r"^Print Assumptions [\w']+\.\s*$", "", props, flags=re.M)
        props += "\nDefinition trs_all := (" + ", ".join(res["theorems"]) + ").\nPrint Assumptions trs_all.\n"

    # 3. compile the fresh transcription, then the proofs against it
    for name, body in (("SegGen.v", text), ("SegGenEquiv.v", eqv), ("SegGenProps.v", props)):
        path = bdir / name
        path.write_text(body)
        rc, out, err = common.coqc(path, extra=extra, timeout=timeout)
        if rc != 0:
            if name == "SegGen.v":
                m = re.search(r'line (\d+), characters', err or "")
                res.update(status="translator_failed", reason="generated file does not compile: " + (err or "")[-600:],
                           file="SegGen.v", line=int(m.group(1)) if m else 0)
                return done()
            _coq_failure(res, path, body, rc, err)
            return done()
    closed, axioms = _assumptions(out)
    res["axioms"] = sorted(axioms)
    # the structural tie needs no axiom at all: anything reported is a failure of the audit
    bad = sorted(axioms)
    forbidden = re.compile(r"\b(Admitted|admit|Axiom|Axioms|Parameter|Parameters|Conjecture|Unset Guard Checking|bypass_check)\b")
    for f in ("SegGenBase.v", "SegGenEquiv.v", "SegGenProps.v"):
        body = re.sub(r"\(\*.*?\*\)", "", (GEN / f).read_text(), flags=re.S)
        bad += [f"{m.group(1)} in Gen/{f}" for m in forbidden.finditer(body)]
    if forbidden.search(text):
        bad.append("forbidden vernacular in the generated text")
    if bad or not closed:
        res.update(status="stage_error", reason=f"axiom audit failed: {bad or 'no Print Assumptions output'}")
    return done()


def replay_fields_seg(res):
    """Compact, JSON-able description of a non-ok result of translator_obligation_seg for a replay/violation record."""
    keep = ("status", "reason", "file", "line", "lemma", "coq_error", "generated_sha256")
    d = {k: res[k] for k in keep if res.get(k) is not None}
    d["kind"] = "translator_seg"
    d["broken"] = ("source left the translated fragment: " + str(res.get("reason"))) if res["status"] == "translator_failed" else \
        (f"Gen/SegGenEquiv.v {res.get('lemma')}: regenerated definition <> hand-written model (Lattice/*.v, Beam/Moments.v)"
         if res["status"] == "equivalence_broken" else str(res.get("reason")))
    return d


# ================================================================================================================
# translator_obligation_diag -- the same stage for the `split` methods (C16), Cavity._track_beam (C06, C10) and the Screen / BPM
# code (C20, C10): harness/translate_diag.py.  Gen/DiagGen.v, Gen/DiagGenEquiv.v and Gen/DiagGenProps.v are cut into PARTS
# ("split", "cavity", "screen"); a check asks for the parts its property is anchored in, so that e.g. an edit of screen.py does
# not alarm C16.  Regenerates from common.REPO into the per-process build directory, compiles Equiv/Props AGAINST THE FRESH COPY
# (the committed Gen/DiagGen.v is never trusted), prints nothing, records into run.cov["translator_diag"].
# The cavity part calls the generated transfer map: Gen/MapsGen.v is regenerated as well and Gen/MapsGenEquiv.v is re-proved
# against it in the same build directory.
DIAG_IMPORT_GEN = "From Cheetah.Gen Require Import DiagGen."
DIAG_IMPORT_EQV = "From Cheetah.Gen Require Import DiagGenEquiv."
DIAG_PREREQ = {
    "split": ["theories/Lattice/Split", "theories/Lattice/SplitProofs"],
    "cavity": ["theories/Base/Mat", "theories/Optics/Maps", "theories/Gen/GenBase", "theories/Beam/Moments", "theories/Beam/MomCavity",
               "theories/Beam/MomCavityProofs"],
    "screen": ["theories/Diag/Screen", "theories/Diag/ScreenProofs"],
}
DIAG_BASE = "theories/Gen/DiagGenBase"
DIAG_TRUSTED = ("source-to-Coq translator harness/translate_diag.py (object reading of split, scalar / per-particle reading of "
                "Cavity._track_beam, screen reading with the opaque histogram primitive; tables in its docstring): ties Lattice/Split.v, "
                "Beam/MomCavity.v and Diag/Screen.v to /repo's source text")


def _diag_prereq_stale(parts):
    """Prerequisite theories (of the requested parts) whose .vo is missing or older than its source; Gen/DiagGenBase last."""
    stale, want = [], []
    for p in parts:
        want += [x for x in DIAG_PREREQ.get(p, []) if x not in want]
    for p in want + [DIAG_BASE]:
        v, vo = common.COQ / (p + ".v"), common.COQ / (p + ".vo")
        if not vo.exists() or vo.stat().st_mtime < v.stat().st_mtime:
            stale.append(p)
    return stale


def translator_obligation_diag(run=None, parts=None, audit="bundle", timeout=200):
    """Same contract as translator_obligation (statuses ok / translator_failed / equivalence_broken / stage_error, same keys) plus
    `parts` (the parts compiled) and, for a failure, `part` (the part it belongs to).  parts: any of "split", "cavity", "screen"
    (default: all).  audit = "bundle": one Print Assumptions over all final statements; "full": one per theorem."""
    import translate_diag
    t0 = time.time()
    parts = tuple(p for p in translate_diag.PARTS if p in (parts or translate_diag.PARTS))
    res = dict(status="ok", repo=str(common.REPO), parts=list(parts), translated=[], lemmas=[], theorems=[], axioms=[])

    def done():
        res["wall_s"] = round(time.time() - t0, 2)
        if run is not None:
            n = len(res["lemmas"]) + len(res["theorems"]) or 1
            run.cov["obligations"] += n
            if res["status"] == "ok":
                run.cov["discharged"] += n
            rec = {k: res.get(k) for k in ("status", "parts", "part", "reason", "file", "line", "lemma", "generated_sha256", "committed_copy_stale",
                                           "translated", "lemmas", "theorems", "axioms", "wall_s")}
            prev = run.cov.get("translator_diag")
            run.cov["translator_diag"] = rec if prev is None else (prev if isinstance(prev, list) else [prev]) + [rec]
            if DIAG_TRUSTED not in run.cov["trusted_base"]:
                run.cov["trusted_base"].append(DIAG_TRUSTED)
        return res

    if not parts:
        res.update(status="stage_error", reason="no known part requested")
        return done()
    # 1. translate (pure syntax; nothing of cheetah is imported)
    maps_text = None
    try:
        text, info = translate_diag.generate(common.REPO, parts)
        if "cavity" in parts:
            maps_text, _ = translate_maps.generate(common.REPO)
    except translate_maps.TranslateError as ex:
        res.update(status="translator_failed", reason=ex.reason, file=ex.file, line=ex.line, part=getattr(ex, "part", "cavity"))
        return done()
    except RecursionError:
        res.update(status="translator_failed", reason="expression nesting too deep for the translator", file=None, line=None)
        return done()
    res["translated"] = info
    res["generated_sha256"] = hashlib.sha256(text.encode()).hexdigest()
    committed = GEN / "DiagGen.v"
    res["committed_copy_stale"] = (not committed.exists()) or translate_diag.cut_parts(committed.read_text(), parts) != text

    # 2. prerequisites (hand-written, stable theories the proofs refer to)
    for p in _diag_prereq_stale(parts):
        ok, log = common.coq_build(p + ".vo")
        if not ok:
            res.update(status="stage_error", reason=f"build of {p}.vo failed: " + log[-800:])
            return done()

    bdir = common.BUILD / "translate_diag"
    bdir.mkdir(parents=True, exist_ok=True)
    for old in list(bdir.glob("DiagGen*")) + list(bdir.glob("MapsGen*")):
        old.unlink()
    extra = ["-Q", str(bdir), FRESH]

    def fresh_imports(body):
        """every import of a regenerated file goes to the fresh copy"""
        body = body.replace(DIAG_IMPORT_GEN, f"From {FRESH} Require Import DiagGen.").replace(DIAG_IMPORT_EQV, f"From {FRESH} Require Import DiagGenEquiv.")
        return body.replace(IMPORT_GEN, f"From {FRESH} Require Import MapsGen.").replace(IMPORT_EQV, f"From {FRESH} Require Import MapsGenEquiv.")

    try:
        eqv_src = translate_diag.cut_parts((GEN / "DiagGenEquiv.v").read_text(), parts)
        props_src = translate_diag.cut_parts((GEN / "DiagGenProps.v").read_text(), parts)
        if eqv_src.count(DIAG_IMPORT_GEN) != 1 or props_src.count(DIAG_IMPORT_GEN) != 1 or props_src.count(DIAG_IMPORT_EQV) != 1:
            raise RuntimeError("DiagGenEquiv.v / DiagGenProps.v: expected exactly one import line of the generated file each")
        files = []
        if maps_text is not None:
            files += [("MapsGen.v", maps_text), ("MapsGenEquiv.v", fresh_imports((GEN / "MapsGenEquiv.v").read_text()))]
        text_f, eqv, props = fresh_imports(text), fresh_imports(eqv_src), fresh_imports(props_src)
    except (RuntimeError, OSError) as ex:
        res.update(status="stage_error", reason=str(ex))
        return done()
    if re.search(r"Cheetah\.Gen Require Import (Maps|Diag)Gen", text_f + eqv + props + "".join(b for _, b in files)):
        res.update(status="stage_error", reason="an import of a regenerated file was not redirected to the fresh copy")
        return done()
    res["lemmas"] = re.findall(r"^\s*Lemma\s+(gen_[\w']+)", eqv, flags=re.M)
    res["theorems"] = re.findall(r"^\s*Theorem\s+([\w']+)", props, flags=re.M)
    have = {i["coq_name"] for i in info}
    missing = [c + "_eq" for c in sorted(have) if c + "_eq" not in res["lemmas"]]
    missing += [lm + " (no such generated definition)" for lm in res["lemmas"] if lm.endswith("_eq") and lm[:-3] not in have]
    # every equivalence lemma must reach a final statement (a lemma that is stated but not used would not be audited)
    missing += [lm + " (not used by Gen/DiagGenProps.v)" for lm in res["lemmas"] if not re.search(r"\b" + re.escape(lm) + r"\b", props)]
    if missing:
        res.update(status="equivalence_broken", lemma="<missing> " + ", ".join(missing), file="DiagGenEquiv.v", line=0,
                   coq_error="the regenerated file, Gen/DiagGenEquiv.v and Gen/DiagGenProps.v do not list the same definitions")
        return done()
    if audit == "bundle":
        props = re.sub(r"^Print Assumptions [\w']+\.\s*$", "", props, flags=re.M)
        props += "\nDefinition trd_all := (" + ", ".join("@" + t for t in res["theorems"]) + ").\nPrint Assumptions trd_all.\n"

    def part_at(body, lineno):
        name = None
        for k, ln in enumerate(body.splitlines(), 1):
            if k > lineno:
                break
            m = re.match(r"^\(\*\* PART (\w+) \*\)", ln)
            if m:
                name = m.group(1)
        return name

    # 3. compile the fresh transcription(s), then the proofs against them
    out = ""
    for name, body in files + [("DiagGen.v", text_f), ("DiagGenEquiv.v", eqv), ("DiagGenProps.v", props)]:
        path = bdir / name
        path.write_text(body)
        rc, out, err = common.coqc(path, extra=extra, timeout=timeout)
        if rc != 0:
            m = re.search(r'line (\d+), characters', err or "")
            ln = int(m.group(1)) if m else 0
            if name in ("DiagGen.v", "MapsGen.v"):
                res.update(status="translator_failed", reason="generated file does not compile: " + (err or "")[-600:], file=name, line=ln,
                           part=part_at(body, ln) if name == "DiagGen.v" else "cavity")
                return done()
            _coq_failure(res, path, body, rc, err)
            res["part"] = part_at(body, ln) if name.startswith("Diag") else "cavity"
            return done()
    closed, axioms = _assumptions(out)
    res["axioms"] = sorted(axioms)
    bad = sorted(a for a in axioms if a not in common.AXIOM_WHITELIST and a.split(".")[-1] not in common.AXIOM_WHITELIST)
    if parts == ("split",) or parts == ("screen",) or parts == ("split", "screen"):
        bad = sorted(axioms)                    # the parts over Q / Z need no axiom at all
    forbidden = re.compile(r"\b(Admitted|admit|Axiom|Axioms|Parameter|Parameters|Conjecture|Unset Guard Checking|bypass_check)\b")
    for f in ("DiagGenBase.v", "DiagGenEquiv.v", "DiagGenProps.v"):
        body = re.sub(r"\(\*.*?\*\)", "", (GEN / f).read_text(), flags=re.S)
        bad += [f"{m.group(1)} in Gen/{f}" for m in forbidden.finditer(body)]
    if forbidden.search(text):
        bad.append("forbidden vernacular in the generated text")
    if bad or (not axioms and not closed):
        res.update(status="stage_error", reason=f"axiom audit failed: {bad or 'no Print Assumptions output'}")
    return done()


def replay_fields_diag(res):
    """Compact, JSON-able description of a non-ok result of translator_obligation_diag for a replay/violation record."""
    keep = ("status", "part", "parts", "reason", "file", "line", "lemma", "coq_error", "generated_sha256")
    d = {k: res[k] for k in keep if res.get(k) is not None}
    d["kind"] = "translator_diag"
    model = {"split": "Lattice/Split.v", "cavity": "Beam/MomCavity.v", "screen": "Diag/Screen.v"}.get(res.get("part"), "hand-written model")
    d["broken"] = ("source left the translated fragment: " + str(res.get("reason"))) if res["status"] == "translator_failed" else \
        (f"Gen/{res.get('file') or 'DiagGenEquiv.v'} {res.get('lemma')}: regenerated definition <> {model}" if res["status"] == "equivalence_broken"
         else str(res.get("reason")))
    return d


# ================================================================================================================
# translator_obligation_conv -- the same stage for the lattice converters and LatticeJSON (harness/translate_conv.py).
# Regenerates Gen/ConvGen.v from the CURRENT source text of common.REPO into the per-process build directory, compiles it, and
# compiles Gen/ConvGenEquiv.v and Gen/ConvGenProps.v AGAINST THE FRESH COPY (the committed Gen/ConvGen.v is never trusted).
# Same result structure and statuses as translator_obligation; prints nothing; records what was translated in
# run.cov["translator_conv"].  Used by C13 and C14.
CONV_IMPORT_GEN = "From Cheetah.Gen Require Import ConvGen."
CONV_IMPORT_EQV = "From Cheetah.Gen Require Import ConvGenEquiv."
CONV_PREREQ = ["theories/Parse/LatticeLang", "theories/Parse/Lines", "theories/Ops/Json", "theories/Gen/ConvGenBase"]
CONV_TRUSTED = ("source-to-Coq translator harness/translate_conv.py (reading, construct table and constructor table in its docstring and in "
                "Gen/ConvGenBase.v): ties Parse/LatticeLang.v (convert_bmad_v all_fixes, convert_elegant, expand_v), Parse/Lines.v "
                "(merge_fixed, clean) and Ops/Json.v (conv, parse, document, load) to /repo's source text")


def _conv_prereq_fresh():
    mt = {}
    for p in CONV_PREREQ:
        v, vo = common.COQ / (p + ".v"), common.COQ / (p + ".vo")
        if not vo.exists() or vo.stat().st_mtime < v.stat().st_mtime:
            return False
        mt[p] = vo.stat().st_mtime
    return all(mt[p] <= mt["theories/Gen/ConvGenBase"] for p in CONV_PREREQ)


def translator_obligation_conv(run=None, audit="bundle", timeout=200):
    """Same contract as translator_obligation (statuses ok / translator_failed / equivalence_broken / stage_error, same keys), for
    bmad.convert_element, elegant.convert_element, the line front end of fortran_namelist.py and latticejson.py
    (harness/translate_conv.py).  Records into run.cov["translator_conv"].  Prints nothing."""
    import translate_conv
    t0 = time.time()
    res = dict(status="ok", repo=str(common.REPO), translated=[], lemmas=[], theorems=[], axioms=[])

    def done():
        res["wall_s"] = round(time.time() - t0, 2)
        if run is not None:
            n = len(res["lemmas"]) + len(res["theorems"]) or 1
            run.cov["obligations"] += n
            if res["status"] == "ok":
                run.cov["discharged"] += n
            run.cov["translator_conv"] = {k: res.get(k) for k in ("status", "reason", "file", "line", "lemma", "generated_sha256", "committed_copy_stale",
                                                                    "translated", "lemmas", "theorems", "axioms", "wall_s")}
            if CONV_TRUSTED not in run.cov["trusted_base"]:
                run.cov["trusted_base"].append(CONV_TRUSTED)
        return res

    # 1. translate (pure syntax; nothing of cheetah is imported)
    try:
        text, info = translate_conv.generate(common.REPO)
    except translate_maps.TranslateError as ex:
        res.update(status="translator_failed", reason=ex.reason, file=ex.file, line=ex.line)
        return done()
    except RecursionError:
        res.update(status="translator_failed", reason="nesting too deep for the translator", file=None, line=None)
        return done()
    res["translated"] = info
    res["generated_sha256"] = hashlib.sha256(text.encode()).hexdigest()
    committed = GEN / "ConvGen.v"
    res["committed_copy_stale"] = (not committed.exists()) or committed.read_text() != text

    # 2. prerequisites (hand-written, stable)
    if not _conv_prereq_fresh():
        ok, log = common.coq_build("theories/Gen/ConvGenBase.vo")
        if ok:
            ok, log = common.coq_build("theories/Parse/Lines.vo")
        if not ok:
            res.update(status="stage_error", reason="build of the prerequisites of Gen/ConvGen failed: " + log[-800:])
            return done()

    bdir = common.BUILD / "translate_conv"
    bdir.mkdir(parents=True, exist_ok=True)
    for old in bdir.glob("ConvGen*"):
        old.unlink()
    extra = ["-Q", str(bdir), FRESH]
    try:
        eqv = _redirect((GEN / "ConvGenEquiv.v").read_text(), CONV_IMPORT_GEN, f"From {FRESH} Require Import ConvGen.", "ConvGenEquiv.v")
        props = _redirect((GEN / "ConvGenProps.v").read_text(), CONV_IMPORT_GEN, f"From {FRESH} Require Import ConvGen.", "ConvGenProps.v")
        props = _redirect(props, CONV_IMPORT_EQV, f"From {FRESH} Require Import ConvGenEquiv.", "ConvGenProps.v")
    except (RuntimeError, OSError) as ex:
        res.update(status="stage_error", reason=str(ex))
        return done()
    res["lemmas"] = re.findall(r"^\s*Lemma\s+(gen_[\w']+)", eqv, flags=re.M)
    res["theorems"] = re.findall(r"^\s*Theorem\s+([\w']+)", props, flags=re.M)
    # every generated definition (the functions and the outlined branches of the two dispatches) needs its lemma <name>_eq,
    # every lemma <name>_eq a generated definition, and every equivalence lemma must reach a final statement
    have = set(re.findall(r"^Definition\s+(gen_[\w']+)", text, flags=re.M))
    missing = [c + "_eq" for c in sorted(have) if c + "_eq" not in res["lemmas"]]
    missing += [lm + " (no such generated definition)" for lm in res["lemmas"] if lm.endswith("_eq") and lm[:-3] not in have]
    missing += [lm + " (not used by Gen/ConvGenProps.v)" for lm in res["lemmas"] if not re.search(r"\b" + re.escape(lm) + r"\b", props)]
    if missing:
        res.update(status="equivalence_broken", lemma="<missing> " + ", ".join(missing), file="ConvGenEquiv.v", line=0,
                   coq_error="the regenerated file, Gen/ConvGenEquiv.v and Gen/ConvGenProps.v do not list the same definitions "
                             "(an element type was added, removed or renamed in a dispatch, or a translated function is gone)")
        return done()
    if audit == "bundle":
        props = re.sub(r"^Print Assumptions [\w']+\.\s*$", "", props, flags=re.M)
        props += "\nDefinition trc_all := (" + ", ".join(res["theorems"]) + ").\nPrint Assumptions trc_all.\n"

    # 3. compile the fresh transcription, then the proofs against it
    out = ""
    for name, body in (("ConvGen.v", text), ("ConvGenEquiv.v", eqv), ("ConvGenProps.v", props)):
        path = bdir / name
        path.write_text(body)
        rc, out, err = common.coqc(path, extra=extra, timeout=timeout)
        if rc != 0:
            if name == "ConvGen.v":
                m = re.search(r'line (\d+), characters', err or "")
                res.update(status="translator_failed", reason="generated file does not compile: " + (err or "")[-600:],
                           file="ConvGen.v", line=int(m.group(1)) if m else 0)
                return done()
            _coq_failure(res, path, body, rc, err)
            return done()
    closed, axioms = _assumptions(out)
    res["axioms"] = sorted(axioms)
    # the converter models compute in binary64 PrimFloat: Print Assumptions lists the kernel's primitive floats / 63-bit integers and
    # the standard library's axioms that specify them (as for Props/C13.v); anything else fails the audit
    bad = sorted(a for a in axioms if not a.startswith(common.PRIMITIVE_PREFIXES))
    forbidden = re.compile(r"\b(Admitted|admit|Axiom|Axioms|Parameter|Parameters|Conjecture|Unset Guard Checking|bypass_check)\b")
    for f in ("ConvGenBase.v", "ConvGenEquiv.v", "ConvGenProps.v"):
        body = re.sub(r"\(\*.*?\*\)", "", (GEN / f).read_text(), flags=re.S)
        bad += [f"{m.group(1)} in Gen/{f}" for m in forbidden.finditer(body)]
    if forbidden.search(re.sub(r"\(\*.*?\*\)", "", text, flags=re.S)):
        bad.append("forbidden vernacular in the generated text")
    if bad or not (closed or axioms):
        res.update(status="stage_error", reason=f"axiom audit failed: {bad or 'no Print Assumptions output'}")
    return done()


def replay_fields_conv(res):
    """Compact, JSON-able description of a non-ok result of translator_obligation_conv for a replay/violation record."""
    keep = ("status", "reason", "file", "line", "lemma", "coq_error", "generated_sha256")
    d = {k: res[k] for k in keep if res.get(k) is not None}
    d["kind"] = "translator_conv"
    d["broken"] = ("source left the translated fragment: " + str(res.get("reason"))) if res["status"] == "translator_failed" else \
        (f"Gen/ConvGenEquiv.v {res.get('lemma')}: regenerated definition <> hand-written model (Parse/LatticeLang.v, Parse/Lines.v, Ops/Json.v)"
         if res["status"] == "equivalence_broken" else str(res.get("reason")))
    return d


if __name__ == "__main__":
    import json
    import sys
    args = [a for a in sys.argv[1:] if a != "bmadx"]           # `translate_stage.py bmadx [bundle|full]` runs the Bmad-X stage
    stage = translator_obligation_bmadx if "bmadx" in sys.argv[1:] else translator_obligation
    r = stage(audit=args[0] if args else "bundle")
    brief = dict(r)
    brief["translated"] = [f"{i['function']} {i['file']}:{i['first_line']}-{i['last_line']} {i['source_sha256'][:12]}" for i in r["translated"]]
    print(json.dumps(brief, indent=1))
    sys.exit(0 if r["status"] == "ok" else 1)


# ================================================================================================================
# translator_obligation_stats -- the same stage for the beam-statistics / diagnostics formulas (harness/translate_stats.py).
# Regenerates Gen/StatsGen.v from the CURRENT source text of common.REPO into the per-process build directory, compiles it,
# and compiles Gen/StatsGenEquiv.v and Gen/StatsGenProps.v AGAINST THE FRESH COPY (the committed Gen/StatsGen.v is never
# trusted).  Same result structure and statuses as translator_obligation; prints nothing; records what was translated in
# run.cov["translator_stats"].  Used by C17, C06, C10, C20.
STATS_IMPORT_GEN = "From Cheetah.Gen Require Import StatsGen."
STATS_IMPORT_EQV = "From Cheetah.Gen Require Import StatsGenEquiv."
STATS_PREREQ = ["theories/Base/Mat", "theories/Optics/Maps", "theories/Beam/Moments", "theories/Beam/WMoments", "theories/Beam/WStats",
                "theories/Beam/Twiss", "theories/Beam/TwCorr", "theories/Beam/SI", "theories/Diag/Aperture", "theories/Diag/Screen",
                "theories/Gen/StatsGenBase"]
STATS_TRUSTED = ("source-to-Coq translator harness/translate_stats.py (sample reading, shape tags, extended-real and idiom tables in its "
                 "docstring): ties Beam/WStats.v, Beam/Twiss.v, Beam/TwCorr.v, Beam/WMoments.v, Beam/SI.v, Diag/Aperture.v, Diag/Screen.v "
                 "to /repo's source text")


def _stats_prereq_stale():
    """Prerequisite theories whose .vo is missing or older than its source (or than the .vo of an earlier prerequisite)."""
    stale, newest = [], 0.0
    for p in STATS_PREREQ:
        v, vo = common.COQ / (p + ".v"), common.COQ / (p + ".vo")
        if not vo.exists() or vo.stat().st_mtime < v.stat().st_mtime:
            stale.append(p)
    base = common.COQ / (STATS_PREREQ[-1] + ".vo")
    if not stale and base.exists():
        for p in ("theories/Base/Mat", "theories/Beam/WStats"):        # what Gen/StatsGenBase.v itself imports
            if (common.COQ / (p + ".vo")).stat().st_mtime > base.stat().st_mtime:
                stale.append(STATS_PREREQ[-1])
                break
    return stale


def translator_obligation_stats(run=None, audit="bundle", timeout=200):
    """audit = "bundle": one Print Assumptions over all final statements (fast); "full": one per theorem, as in the committed file."""
    import translate_stats
    t0 = time.time()
    res = dict(status="ok", repo=str(common.REPO), translated=[], lemmas=[], theorems=[], axioms=[])

    def done():
        res["wall_s"] = round(time.time() - t0, 2)
        if run is not None:
            n = len(res["lemmas"]) + len(res["theorems"]) or 1
            run.cov["obligations"] += n
            if res["status"] == "ok":
                run.cov["discharged"] += n
            run.cov["translator_stats"] = {k: res.get(k) for k in ("status", "reason", "file", "line", "lemma", "generated_sha256", "committed_copy_stale",
                                                                     "translated", "lemmas", "theorems", "axioms", "wall_s")}
            if STATS_TRUSTED not in run.cov["trusted_base"]:
                run.cov["trusted_base"].append(STATS_TRUSTED)
        return res

    # 1. translate (pure syntax; nothing of cheetah is imported)
    try:
        text, info = translate_stats.generate(common.REPO)
    except translate_stats.TranslateError as ex:
        res.update(status="translator_failed", reason=ex.reason, file=ex.file, line=ex.line)
        return done()
    except RecursionError:
        res.update(status="translator_failed", reason="expression nesting too deep for the translator", file=None, line=None)
        return done()
    res["translated"] = info
    res["generated_sha256"] = hashlib.sha256(text.encode()).hexdigest()
    committed = GEN / "StatsGen.v"
    res["committed_copy_stale"] = (not committed.exists()) or committed.read_text() != text

    # 2. prerequisites (hand-written, stable theories the proofs refer to)
    for p in _stats_prereq_stale():
        ok, log = common.coq_build(p + ".vo")
        if not ok:
            res.update(status="stage_error", reason=f"build of {p}.vo failed: " + log[-800:])
            return done()

    bdir = common.BUILD / "translate_stats"
    bdir.mkdir(parents=True, exist_ok=True)
    for old in bdir.glob("StatsGen*"):
        old.unlink()
    extra = ["-Q", str(bdir), FRESH]
    try:
        eqv = _redirect((GEN / "StatsGenEquiv.v").read_text(), STATS_IMPORT_GEN, f"From {FRESH} Require Import StatsGen.", "StatsGenEquiv.v")
        props = _redirect((GEN / "StatsGenProps.v").read_text(), STATS_IMPORT_GEN, f"From {FRESH} Require Import StatsGen.", "StatsGenProps.v")
        props = _redirect(props, STATS_IMPORT_EQV, f"From {FRESH} Require Import StatsGenEquiv.", "StatsGenProps.v")
    except (RuntimeError, OSError) as ex:
        res.update(status="stage_error", reason=str(ex))
        return done()
    res["lemmas"] = re.findall(r"^\s*Lemma\s+(gen_[\w']+)", eqv, flags=re.M)
    res["theorems"] = re.findall(r"^\s*Theorem\s+([\w']+)", props, flags=re.M)
    # every generated definition must be the subject of a lemma
    missing = [i["coq_name"] + "_eq" for i in info if i["coq_name"] + "_eq" not in res["lemmas"]]
    missing += [i["coq_name"] + "_pre_eq" for i in info if i["has_precondition"] and i["coq_name"] + "_pre_eq" not in res["lemmas"]]
    if missing:
        res.update(status="equivalence_broken", lemma="<missing> " + ", ".join(missing), file="StatsGenEquiv.v", line=0,
                   coq_error="the regenerated file contains definitions for which Gen/StatsGenEquiv.v states no lemma")
        return done()
    if audit == "bundle":
        props = re.sub(r"^Print Assumptions [\w']+\.\s*$", "", props, flags=re.M)
        props += "\nDefinition tr_all := (" + ", ".join("@" + t for t in res["theorems"]) + ").\nPrint Assumptions tr_all.\n"

    # 3. compile the fresh transcription, then the proofs against it
    out = ""
    for name, body in (("StatsGen.v", text), ("StatsGenEquiv.v", eqv), ("StatsGenProps.v", props)):
        path = bdir / name
        path.write_text(body)
        rc, out, err = common.coqc(path, extra=extra, timeout=timeout)
        if rc != 0:
            if name == "StatsGen.v":
                m = re.search(r'line (\d+), characters', err or "")
                res.update(status="translator_failed", reason="generated file does not compile: " + (err or "")[-600:],
                           file="StatsGen.v", line=int(m.group(1)) if m else 0)
                return done()
            _coq_failure(res, path, body, rc, err)
            return done()
    closed, axioms = _assumptions(out)
    res["axioms"] = sorted(axioms)
    bad = sorted(a for a in axioms if a not in common.AXIOM_WHITELIST and a.split(".")[-1] not in common.AXIOM_WHITELIST)
    forbidden = re.compile(r"\b(Admitted|admit|Axiom|Axioms|Parameter|Parameters|Conjecture|Unset Guard Checking|bypass_check)\b")
    for f in ("StatsGenBase.v", "StatsGenEquiv.v", "StatsGenProps.v"):
        body = re.sub(r"\(\*.*?\*\)", "", (GEN / f).read_text(), flags=re.S)
        bad += [f"{m.group(1)} in Gen/{f}" for m in forbidden.finditer(body)]
    if forbidden.search(text):
        bad.append("forbidden vernacular in the generated text")
    if bad or (not axioms and not closed):
        res.update(status="stage_error", reason=f"axiom audit failed: {bad or 'no Print Assumptions output'}")
    return done()


def replay_fields_stats(res):
    """Compact, JSON-able description of a non-ok result of translator_obligation_stats for a replay/violation record."""
    keep = ("status", "reason", "file", "line", "lemma", "coq_error", "generated_sha256")
    d = {k: res[k] for k in keep if res.get(k) is not None}
    d["kind"] = "translator_stats"
    d["broken"] = ("source left the translated fragment: " + str(res.get("reason"))) if res["status"] == "translator_failed" else \
        (f"Gen/StatsGenEquiv.v {res.get('lemma')}: regenerated definition <> hand-written model" if res["status"] == "equivalence_broken"
         else str(res.get("reason")))
    return d
