"""translate_stage_clone -- the check stage of the source-to-Coq translator for C15 (harness/translate_clone.py).

translator_obligation_clone(run) regenerates Gen/CloneGen.v from the CURRENT source text of common.REPO (VERIF_REPO overrides
/repo) into the per-process build directory, compiles it, and compiles Gen/CloneGenEquiv.v and Gen/CloneGenProps.v AGAINST THE
FRESH COPY (the committed Gen/CloneGen.v is never trusted; it only serves the full build).  Same contract, statuses and keys as
translate_stage.translator_obligation / _diag / _bmadx:

    status = "ok"                  all equivalence lemmas compile against the regenerated definitions
           = "translator_failed"   the source left the translated fragment: reason, file, line
           = "equivalence_broken"  generated <> hand-written model / class-table obligation fails: lemma, coq_error, file, line
           = "stage_error"         the stage itself could not run: reason
    translated, generated_sha256, committed_copy_stale, lemmas, theorems, axioms, wall_s

Optional `live_rows` (the rows of harness/introspect.table(cheetah), i.e. the LIVE-class table c15.py already computes): the stage
then also proves `table_agrees gen_table live_table = true` (Gen/CloneGenBase.v: same name, constructor parameters, required,
features, kinds, echoed set and probe, row by row) and reports a disagreement as equivalence_broken with lemma
"gen_table_agrees_live" and the differing class names in `rows_differing`.  The stage itself imports nothing of cheetah.

Prints nothing; records into run.cov["translator_clone"].  Nothing is read from or written to /tmp or /repo.
"""
import hashlib
import re
import time

import common
import translate_maps
from translate_stage import FRESH, GEN, _assumptions, _coq_failure, _redirect

CLONE_IMPORT_GEN = "From Cheetah.Gen Require Import CloneGen."
CLONE_IMPORT_EQV = "From Cheetah.Gen Require Import CloneGenEquiv."
CLONE_PREREQ = ["theories/Ops/ClassTableSpec", "theories/Ops/Json", "theories/Ops/Clone", "theories/Ops/CloneHistory", "theories/Gen/CloneGenBase"]
CLONE_FUNCTIONS = ("gen_Element_clone", "gen_Segment_clone", "gen_RBend_clone", "gen_ParticleBeam_clone", "gen_ParameterBeam_clone")
CLONE_TABLE_LEMMAS = ("gen_table_ok", "gen_table_rejected", "gen_table_checked", "gen_table_pinned", "gen_storage_complete")
CLONE_TRUSTED = ("source-to-Coq translator harness/translate_clone.py (signature / annotation / storage tables and the expression table of "
                 "Element.clone in its docstring; vocabulary in Gen/CloneGenBase.v): ties the class table of Ops/ClassTableSpec.v and the clone "
                 "models of Ops/Clone.v, Ops/CloneHistory.v to /repo's source text")


def _clone_prereq_stale():
    stale = []
    for p in CLONE_PREREQ:
        v, vo = common.COQ / (p + ".v"), common.COQ / (p + ".vo")
        if not vo.exists() or vo.stat().st_mtime < v.stat().st_mtime:
            stale.append(p)
    return stale


def _live_table_v(live_rows):
    import introspect
    return (f"From Coq Require Import List Bool String.\nFrom Cheetah Require Import Ops.ClassTableSpec Gen.CloneGenBase.\n"
            f"From {FRESH} Require Import CloneGen.\nImport ListNotations. Open Scope string_scope.\n"
            "Definition live_table : list cls_rec :=\n  [ " + ";\n    ".join(introspect.coq_row(r) for r in live_rows) + " ].\n"
            "Eval vm_compute in (\"DIFFER\", rows_differing gen_table live_table, List.length gen_table, List.length live_table).\n"
            "Lemma gen_table_agrees_live : table_agrees gen_table live_table = true.\nProof. vm_compute. reflexivity. Qed.\n"
            "Print Assumptions gen_table_agrees_live.\n")


def translator_obligation_clone(run=None, audit="bundle", timeout=200, live_rows=None):
    """Same contract as translate_stage.translator_obligation (statuses ok / translator_failed / equivalence_broken / stage_error,
    same keys).  audit = "bundle": one Print Assumptions over all final statements; "full": one per theorem."""
    import translate_clone
    t0 = time.time()
    res = dict(status="ok", repo=str(common.REPO), translated=[], lemmas=[], theorems=[], axioms=[])

    def done():
        res["wall_s"] = round(time.time() - t0, 2)
        if run is not None:
            n = len(res["lemmas"]) + len(res["theorems"]) or 1
            run.cov["obligations"] += n
            if res["status"] == "ok":
                run.cov["discharged"] += n
            run.cov["translator_clone"] = {k: res.get(k) for k in ("status", "reason", "file", "line", "lemma", "generated_sha256", "committed_copy_stale",
                                                                     "translated", "lemmas", "theorems", "axioms", "live_table_compared",
                                                                     "rows_differing", "wall_s")}
            if CLONE_TRUSTED not in run.cov["trusted_base"]:
                run.cov["trusted_base"].append(CLONE_TRUSTED)
        return res

    # 1. translate (pure syntax; nothing of cheetah is imported)
    try:
        text, info = translate_clone.generate(common.REPO)
    except translate_maps.TranslateError as ex:
        res.update(status="translator_failed", reason=ex.reason, file=ex.file, line=ex.line)
        return done()
    except RecursionError:
        res.update(status="translator_failed", reason="nesting too deep for the translator", file=None, line=None)
        return done()
    res["translated"] = info
    res["generated_sha256"] = hashlib.sha256(text.encode()).hexdigest()
    committed = GEN / "CloneGen.v"
    res["committed_copy_stale"] = (not committed.exists()) or committed.read_text() != text

    # 2. prerequisites (hand-written, stable)
    for p in _clone_prereq_stale():
        ok, log = common.coq_build(p + ".vo")
        if not ok:
            res.update(status="stage_error", reason=f"build of {p}.vo failed: " + log[-800:])
            return done()

    bdir = common.BUILD / "translate_clone"
    bdir.mkdir(parents=True, exist_ok=True)
    for old in bdir.glob("CloneGen*"):
        old.unlink()
    extra = ["-Q", str(bdir), FRESH]
    try:
        eqv = _redirect((GEN / "CloneGenEquiv.v").read_text(), CLONE_IMPORT_GEN, f"From {FRESH} Require Import CloneGen.", "CloneGenEquiv.v")
        props = _redirect((GEN / "CloneGenProps.v").read_text(), CLONE_IMPORT_GEN, f"From {FRESH} Require Import CloneGen.", "CloneGenProps.v")
        props = _redirect(props, CLONE_IMPORT_EQV, f"From {FRESH} Require Import CloneGenEquiv.", "CloneGenProps.v")
    except (RuntimeError, OSError) as ex:
        res.update(status="stage_error", reason=str(ex))
        return done()
    if re.search(r"Cheetah\.Gen Require Import CloneGen(Equiv)?\.", text + eqv + props):
        res.update(status="stage_error", reason="an import of a regenerated file was not redirected to the fresh copy")
        return done()
    res["lemmas"] = re.findall(r"^\s*Lemma\s+(gen_[\w']+)", eqv, flags=re.M)
    res["theorems"] = re.findall(r"^\s*Theorem\s+([\w']+)", props, flags=re.M)
    # every translated function needs its lemma <name>_eq, the table its obligations, and every lemma must reach a final statement
    have = {i["coq_name"] for i in info if not i["coq_name"].startswith("gen_row_")}
    missing = [c + "_eq" for c in sorted(have) if c + "_eq" not in res["lemmas"]]
    missing += [c + "_eq (not a known translated function)" for c in sorted(have) if c not in CLONE_FUNCTIONS]
    missing += [c + " (translated function is gone)" for c in CLONE_FUNCTIONS if c not in have]
    missing += [lm for lm in CLONE_TABLE_LEMMAS if lm not in res["lemmas"]]
    missing += [lm + " (not used by Gen/CloneGenProps.v)" for lm in res["lemmas"] if not re.search(r"\b" + re.escape(lm) + r"\b", props)]
    if missing:
        res.update(status="equivalence_broken", lemma="<missing> " + ", ".join(missing), file="CloneGenEquiv.v", line=0,
                   coq_error="the regenerated file, Gen/CloneGenEquiv.v and Gen/CloneGenProps.v do not list the same definitions")
        return done()
    if audit == "bundle":
        props = re.sub(r"^Print Assumptions [\w']+\.\s*$", "", props, flags=re.M)
        props += "\nDefinition trcl_all := (" + ", ".join("@" + t for t in res["theorems"]) + ").\nPrint Assumptions trcl_all.\n"

    # 3. compile the fresh transcription, then the proofs against it
    files = [("CloneGen.v", text), ("CloneGenEquiv.v", eqv), ("CloneGenProps.v", props)]
    if live_rows is not None:
        try:
            files.append(("CloneGenLive.v", _live_table_v(live_rows)))
        except Exception as ex:                                   # a row that cannot be printed
            res.update(status="stage_error", reason=f"live rows cannot be printed: {type(ex).__name__}: {ex}")
            return done()
    res["live_table_compared"] = live_rows is not None
    outs = ""
    for name, body in files:
        path = bdir / name
        path.write_text(body)
        rc, out, err = common.coqc(path, extra=extra, timeout=timeout)
        outs += out or ""
        if rc != 0:
            if name == "CloneGen.v":
                m = re.search(r'line (\d+), characters', err or "")
                res.update(status="translator_failed", reason="generated file does not compile: " + (err or "")[-600:],
                           file="CloneGen.v", line=int(m.group(1)) if m else 0)
                return done()
            _coq_failure(res, path, body, rc, err)
            if name == "CloneGenLive.v":
                m = re.search(r'\("DIFFER",\s*(\[.*?\]|nil)', re.sub(r"\s+", " ", out or ""))
                res["rows_differing"] = re.findall(r'"((?:[^"]|"")*)"', m.group(1)) if m else None
                res["lemma"] = res.get("lemma") or "gen_table_agrees_live"
            return done()
    closed, axioms = _assumptions(outs)
    res["axioms"] = sorted(axioms)
    bad = sorted(axioms)                                           # strings, lists and booleans: no axiom at all is needed
    forbidden = re.compile(r"\b(Admitted|admit|Axiom|Axioms|Parameter|Parameters|Conjecture|Unset Guard Checking|bypass_check)\b")
    for f in ("CloneGenBase.v", "CloneGenEquiv.v", "CloneGenProps.v"):
        body = re.sub(r"\(\*.*?\*\)", "", (GEN / f).read_text(), flags=re.S)
        bad += [f"{m.group(1)} in Gen/{f}" for m in forbidden.finditer(body)]
    if forbidden.search(re.sub(r"\(\*.*?\*\)", "", text, flags=re.S)):
        bad.append("forbidden vernacular in the generated text")
    want = (1 if audit == "bundle" else len(res["theorems"])) + (1 if live_rows is not None else 0)
    if bad or closed < want:
        res.update(status="stage_error", reason=f"axiom audit failed: {bad or f'{closed} of {want} Print Assumptions outputs are closed'}")
    return done()


def replay_fields_clone(res):
    """Compact, JSON-able description of a non-ok result of translator_obligation_clone for a replay/violation record."""
    keep = ("status", "reason", "file", "line", "lemma", "coq_error", "generated_sha256", "rows_differing")
    d = {k: res[k] for k in keep if res.get(k) is not None}
    d["kind"] = "translator_clone"
    d["broken"] = ("source left the translated fragment: " + str(res.get("reason"))) if res["status"] == "translator_failed" else \
        (f"{res.get('file')} {res.get('lemma')}: class table read from the source text <> table of the live classes (rows {res.get('rows_differing')})"
         if res["status"] == "equivalence_broken" and res.get("file") == "CloneGenLive.v" else
         f"Gen/{res.get('file') or 'CloneGenEquiv.v'} {res.get('lemma')}: regenerated class table / clone <> hand-written model "
         "(Ops/ClassTableSpec.v, Ops/Clone.v, Ops/CloneHistory.v)" if res["status"] == "equivalence_broken" else str(res.get("reason")))
    return d


if __name__ == "__main__":
    import json
    import sys
    live = None
    if "live" in sys.argv[1:]:
        import introspect
        live = introspect.table(common.setup_python_env())
    args = [a for a in sys.argv[1:] if a != "live"]
    r = translator_obligation_clone(audit=args[0] if args else "bundle", live_rows=live)
    brief = dict(r)
    brief["translated"] = [f"{i['function']} {i['file']}:{i['first_line']}-{i['last_line']} {i['source_sha256'][:12]}" for i in r["translated"]]
    print(json.dumps(brief, indent=1))
    sys.exit(0 if r["status"] == "ok" else 1)
